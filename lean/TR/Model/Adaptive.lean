import TR.Model.Common
import TR.Model.Limit
/-!
# Adaptive limiter service (C13, part B) — `crates/tower-resilience-adaptive/src/{service,layer}.rs`

`AdaptiveService` shares one `in_flight : AtomicUsize` and one algorithm between its clones.

* `poll_ready`: `limit = algorithm.limit()`, `n = in_flight.load()`; `n ≥ limit` → `wake_by_ref`
  and `Pending` (no waker is stored: the caller is told to poll again at once — a busy spin);
  otherwise the inner service's readiness (the scripted inner service is always ready).
  Nothing is reserved: readiness is a *check*, `call` does not look at the limit again.
* `call`: `start = Instant::now()`, `in_flight += 1`, an `InFlightGuard` is created and the inner
  service is called — all inside `call()`, before the returned future is ever polled.
* the future: awaits the inner future; then `latency = start.elapsed()`, the guard is dropped
  (`in_flight -= 1`), then `record_success(latency)` / `record_failure()` (sequential semantics
  of `TR.Limit`: the service runs on one thread here). An inner panic unwinds through the async
  block and drops the guard; dropping the future (polled or not) drops the guard and the inner
  future. Neither gives feedback to the algorithm (`record_dropped` is never called).

Callers: *checked* (a clone passed `poll_ready`, `call` not yet made) → *running* → gone, or
→ *held* for a caller that keeps the finished call future alive (`arrive … keep=1`: a pinned
future polled by reference, a `select!` over `&mut fut`, a stored future replaced only on the
next request) until it lets go of it (`release c`). The guard lives in the async block and is
dropped when the inner await returns, so the slot is free **at completion**: a held future is
not running, is not counted, and dropping it later changes nothing.
One `arrive` of an unchecked caller is clone + `poll_ready` + `call`; one `poll` is one poll of
the call future. `checks` is ghost: every readiness check with the number of calls really
running at that step, the limit at that step and the answer.

**An inner service that is not ready at once** (`manual ready h=<h> rdy=<r|p|e>`, `arrive … h=<h> rdy=…`): persistent
handles (clones that live across operations) are polled for readiness any number of times before they are called. One
`poll_ready` = the capacity comparison, made **at every poll**, and — only if it passes — the inner service's answer for
that poll (`r` ready, `p` pending, `e` error). A handle is *ready* (`hready`) exactly when its most recent `poll_ready`
answered `Ready` and it has not been called since. `polls` is ghost: every poll of a handle with the number of calls
really running, the limit, the inner answer and the limiter's answer.

**An inner service whose `call()` itself panics** (`arrive … callpanic=1`, on a fresh clone, a checked clone or a
persistent handle): `call()` has done `in_flight += 1` and built the guard when `inner.call(req)` unwinds; the unwind
runs the guard's destructor (`in_flight -= 1`) and leaves `call()`: no future is returned, no inner call was started,
the `current_limit` mirror is not touched (that code comes after `inner.call`), the algorithm gets no feedback. The
readiness of the clone / handle is used up like by any `call` (`panicCall`).

**Clones on several OS threads** (`manual thread t=<i> prog=…`, `manual sched s=<tid,…>`): the second half of this file
is the interleaving model of `call()` / the completion block / the guard at the granularity of the hooked atomic
operations (`in_flight.fetch_add` at admission, `fetch_sub` when the guard is dropped, the loads of `poll_ready`, the
`current_limit` mirror, the algorithm's own atomics through `TR.Limit.tstep`).
-/
namespace TR.Adaptive
open TR.Limit (Cfg Cells FOp)

structure Check where
  who     : Nat          -- caller id (0 for a probe)
  running : Nat          -- calls really in flight at that step (`running.length`)
  limit   : Nat
  refused : Bool
deriving DecidableEq, Repr

/-- the inner service's answer to one `poll_ready` (scripted per poll) -/
inductive Ans
  | r
  | p
  | e
deriving DecidableEq, Repr, Inhabited

/-- what one `poll_ready` of the limiter answered -/
inductive Answer
  | ready
  | refused        -- `Pending` because `in_flight >= limit` (the task is woken at once)
  | pending        -- capacity was there, the inner service is not ready
  | error          -- capacity was there, the inner service failed
deriving DecidableEq, Repr, Inhabited

def Answer.render : Answer → String
  | .ready => "ready"
  | .refused => "refused"
  | .pending => "pending"
  | .error => "error"

/-- ghost record of one `poll_ready` on a persistent handle -/
structure Poll where
  handle  : Nat
  running : Nat          -- calls really in flight at that step
  limit   : Nat
  inner   : Ans          -- what the inner service answers to this poll if it is asked
  answer  : Answer
deriving DecidableEq, Repr

/-- what a thread does with its clone of the service (`manual thread … prog=`) -/
inductive TOp
  | acquire (o : Out)     -- `A`/`E`/`P`: `poll_ready` + `call` of a request whose inner call ends with `o` at its first poll
  | finishCall            -- `C`: poll the oldest call future this thread holds (completes: feedback; panics: guard only)
  | dropCall              -- `D`: drop the oldest call future unpolled
  | readInFlight          -- `I`: `in_flight()`
  | fb (op : FOp)         -- `S<d>`/`F`/`L`: feedback / `limit()` directly on the shared algorithm (as in part A)
deriving Repr, Inhabited

structure State where
  now      : Nat := 0
  alg      : Cells                    -- the algorithm's atomics
  inFlight : Nat := 0                 -- the service's `in_flight` counter
  checked  : List Nat := []           -- passed `poll_ready`, `call` not yet made
  running  : List Nat := []           -- call future alive, inner call started and not finished
  keeps    : List Nat := []           -- callers that hold on to their call future after it has resolved (`keep=1`)
  held     : List Nat := []           -- call future resolved (ok / err), the object still alive: NOT in flight
  script   : List (Nat × Step) := []  -- callers that have arrived (admitted or refused)
  startAt  : List (Nat × Nat) := []   -- instant of `call()`
  doneAt   : List (Nat × Nat) := []   -- instant the inner call is ready
  kOf      : List (Nat × Nat) := []
  serial   : Nat := 0
  checks   : List Check := []         -- ghost
  log      : List Ev := []            -- ghost: every event so far
  hready   : List (Nat × Poll) := []  -- persistent handles whose last `poll_ready` answered `Ready` (not called since)
  polls    : List Poll := []          -- ghost: every `poll_ready` made on a persistent handle
  cur      : Nat := 0                 -- the service's `current_limit` mirror (dead for admission; stored by `call`/completion)
  progs    : List (List TOp) := []    -- thread programs of the next `manual sched` round
deriving Repr

inductive Op
  | arrive (c : Nat) (sc : Step) (keep : Bool)
  | poll (c : Nat)
  | drop (c : Nat)
  | adv (ms : Nat)
  | check (c : Nat)
  | letGo (c : Nat)               -- `release c`: the caller drops a call future that has already resolved
  | warm (prog : List FOp)
  | probeInFlight
  | probeLimit
  | probeReady
  | ready (h : Nat) (a : Ans)     -- `manual ready h= rdy=`: one `poll_ready` on the persistent handle `h`
  | arriveH (c : Nat) (sc : Step) (keep : Bool) (h : Nat) (a : Ans)   -- `arrive c … h=<h>`: the caller uses handle `h`
  | thread (t : Nat) (prog : List TOp)
  | sched (s : List Limit.Turn)
  | arriveX (c : Nat) (sc : Step) (h : Nat) (a : Ans)   -- `arrive c … callpanic=1 [h=<h>]`: the inner `call()` itself panics
deriving Repr

def emit (s : State) (evs : List Ev) : State := { s with log := s.log ++ evs }

def known (s : State) (c : Nat) : Bool := (lookup s.script c).isSome

/-- the comparison of `poll_ready`: refused iff `in_flight >= algorithm.limit()` -/
def atCapacity (s : State) : Bool := decide (s.inFlight ≥ s.alg.limit)

def recordCheck (s : State) (who : Nat) : State :=
  { s with checks := s.checks ++
      [{ who := who, running := s.running.length, limit := s.alg.limit, refused := atCapacity s }] }

/-- `call()`: counter, guard, inner call -/
def startCall (s : State) (c : Nat) (sc : Step) : State :=
  emit { s with inFlight := s.inFlight + 1, running := s.running ++ [c],
                script := (c, sc) :: s.script, startAt := (c, s.now) :: s.startAt,
                doneAt := (c, s.now + sc.lat) :: s.doneAt, kOf := (c, s.serial) :: s.kOf,
                serial := s.serial + 1, cur := s.alg.limit } [.innerCallX c s.serial c true]

def refuseWith (s : State) (c : Nat) (sc : Step) (r : Res) : State :=
  emit { s with script := (c, sc) :: s.script } [.result c r]

def refuse (s : State) (c : Nat) (sc : Step) : State := refuseWith s c sc .notReady

/-- clone, `poll_ready`, `call` -/
def arriveFresh (s : State) (c : Nat) (sc : Step) : State :=
  if atCapacity s then refuse (recordCheck s c) c sc else startCall (recordCheck s c) c sc

/-- a caller whose clone passed `poll_ready` earlier: `call` only -/
def arriveChecked (s : State) (c : Nat) (sc : Step) : State :=
  startCall { s with checked := s.checked.erase c } c sc

/-- the `InFlightGuard` is dropped -/
def release (s : State) (c : Nat) : State :=
  { s with inFlight := s.inFlight - 1, running := s.running.erase c }

/-- the caller said `keep=1`: it will hold on to the call future after it has resolved -/
def noteKeep (s : State) (c : Nat) (keep : Bool) : State :=
  if keep then { s with keeps := c :: s.keeps } else s

/-- the call future has resolved with a value; a caller that keeps it now holds a finished future
(the guard is already gone: this touches neither the counter nor `running`) -/
def hold (s : State) (c : Nat) : State :=
  if c ∈ s.keeps then { s with held := s.held ++ [c] } else s

/-- `release c`: a finished call future is finally dropped — nothing is left in it to release -/
def letGoOp (s : State) (c : Nat) : State := { s with held := s.held.erase c }

def feed (cfg : Cfg) (s : State) (op : FOp) : State :=
  { s with alg := Limit.seqOp cfg s.alg op, cur := (Limit.seqOp cfg s.alg op).limit }

/-- latency measured by the service, in ns -/
def latencyNs (s : State) (c : Nat) : Nat := (s.now - (lookup s.startAt c).getD 0) * 1000000

def complete (cfg : Cfg) (s : State) (c k : Nat) (o : Out) : State :=
  match o with
  | .ok => emit (feed cfg (hold (release s c) c) (.succ (latencyNs s c))) [.innerDone c k .ok, .result c (.ok k)]
  | .err kd => emit (feed cfg (hold (release s c) c) .fail) [.innerDone c k (.err kd), .result c (.inner kd k)]
  -- a panic unwinds through the caller's poll: the future is dropped with it, kept or not
  | .panic => emit (release s c) [.innerDone c k .panic, .result c .panic]
  | .never => s

def pollRunning (cfg : Cfg) (s : State) (c : Nat) : State :=
  match lookup s.doneAt c, lookup s.script c, lookup s.kOf c with
  | some t, some sc, some k => if s.now ≥ t then complete cfg s c k sc.out else s
  | _, _, _ => s

def dropRunning (s : State) (c : Nat) : State :=
  emit (release s c) [.innerDrop c ((lookup s.kOf c).getD 0)]

/-- `manual check`: clone + `poll_ready` now, `call` later -/
def checkOp (s : State) (c : Nat) : State :=
  if known s c ∨ c ∈ s.checked then emit s [.raw "noop"]
  else if atCapacity s then emit (recordCheck s c) [.raw s!"check {c} refused"]
  else emit { recordCheck s c with checked := s.checked ++ [c] } [.raw s!"check {c} ready"]

def warmOp (cfg : Cfg) (s : State) (prog : List FOp) : State :=
  let r := Limit.seqOps cfg s.alg prog
  emit { s with alg := r.1 } [.raw s!"warm {Limit.renderOuts r.2}", .raw s!"limit {r.1.limit}"]

def probeReady (s : State) : State :=
  emit (recordCheck s 0) [.probe s!"ready = {if atCapacity s then 0 else 1}"]

/-! ## persistent handles over an inner service that is not ready at once -/

/-- one `poll_ready`: the capacity comparison first — **at every poll** —, then the inner service's answer -/
def answerOf (s : State) (a : Ans) : Answer :=
  if atCapacity s then .refused
  else match a with
    | .r => .ready
    | .p => .pending
    | .e => .error

def mkPoll (s : State) (h : Nat) (a : Ans) : Poll :=
  { handle := h, running := s.running.length, limit := s.alg.limit, inner := a, answer := answerOf s a }

def eraseKey (l : List (Nat × Poll)) (h : Nat) : List (Nat × Poll) := l.filter fun p => p.1 != h

/-- one `poll_ready` on the persistent handle `h` (created as a clone at its first use): the handle is ready
afterwards iff this poll answered `Ready` -/
def pollHandle (s : State) (h : Nat) (a : Ans) : State :=
  { s with polls := s.polls ++ [mkPoll s h a],
           hready := if answerOf s a = .ready then (h, mkPoll s h a) :: eraseKey s.hready h else eraseKey s.hready h }

def readyOp (s : State) (h : Nat) (a : Ans) : State :=
  emit (pollHandle s h a) [.raw s!"ready {h} {(answerOf s a).render}"]

def refusalOf : Answer → Res
  | .refused => .notReady
  | .pending => .custom "notready-inner"
  | _ => .custom "notready-error"

/-- `call` on a handle that is ready: the readiness is used up -/
def callHandle (s : State) (c : Nat) (sc : Step) (h : Nat) : State :=
  startCall { s with hready := eraseKey s.hready h } c sc

/-- a caller using the persistent handle `h`: `call` if the handle is ready, otherwise one `poll_ready` first -/
def arriveHandle (s : State) (c : Nat) (sc : Step) (h : Nat) (a : Ans) : State :=
  if (lookup s.hready h).isSome then callHandle s c sc h
  else if answerOf s a = .ready then callHandle (pollHandle s h a) c sc h
  else refuseWith (pollHandle s h a) c sc (refusalOf (answerOf s a))

/-! ## an inner service whose `call()` itself panics -/

/-- `call()` up to the guard: the counter goes up, the `InFlightGuard` exists -/
def enterCall (s : State) : State := { s with inFlight := s.inFlight + 1 }

/-- the unwind out of `call()` runs the guard's destructor -/
def unwindCall (s : State) : State := { s with inFlight := s.inFlight - 1 }

/-- `call()` whose `inner.call(req)` panics: counter up, guard, unwind (guard dropped: counter down) — no inner call, no
future (so the caller is never *running*), no mirror update, no feedback; the caller sees the panic -/
def panicCall (s : State) (c : Nat) (sc : Step) : State :=
  emit { unwindCall (enterCall s) with script := (c, sc) :: s.script } [.result c .panic]

/-- the same through the persistent handle `h`: `call` if the handle is ready, otherwise one `poll_ready` first; the call
uses the readiness up although it unwinds -/
def arriveHandleX (s : State) (c : Nat) (sc : Step) (h : Nat) (a : Ans) : State :=
  if (lookup s.hready h).isSome then panicCall { s with hready := eraseKey s.hready h } c sc
  else if answerOf s a = .ready then
    panicCall { pollHandle s h a with hready := eraseKey (pollHandle s h a).hready h } c sc
  else refuseWith (pollHandle s h a) c sc (refusalOf (answerOf s a))

/-- clone, `poll_ready`, `call` (which unwinds) -/
def arriveFreshX (s : State) (c : Nat) (sc : Step) : State :=
  if atCapacity s then refuse (recordCheck s c) c sc else panicCall (recordCheck s c) c sc

/-! ## clones of the service on several threads — one model step per yield point

Every thread owns a clone. A *turn* of the schedule lets one thread run from the yield point it is blocked at to
its next one. The yield points are the hooked atomic operations of `service.rs` / the algorithm, plus one at the
beginning of every thread operation (the harness calls `yield_point()` there, so that what a thread does before
its first atomic — polling the inner future, dropping it — happens in a turn of its own).

| code | turns |
|---|---|
| `poll_ready` | load `algorithm.limit()`; load `in_flight`, compare (refused: the operation ends) — the two loads are two turns: the limit compared with may be stale, and so may the comparison be by the time `call` counts the call in (`tchecks`, `TCall.lim` / `.seen` are ghost records of what each check saw) |
| `call` | `in_flight.fetch_add(1)` (+ guard, `inner.call`); load `algorithm.limit()`; load `current_limit`; store it if different |
| guard drop | `in_flight.fetch_sub(1)` — **one** read-modify-write |
| completion block | (inner ready) guard drop; `record_success(0)` / `record_failure()` (`TR.Limit.tstep`); load limit; load / store `current_limit` |
| future dropped unpolled | (inner future dropped) guard drop |
| inner panic | guard drop while unwinding; nothing else |
-/

structure TCall where
  c : Nat
  k : Nat
  o : Out
  lim  : Nat := 0      -- ghost: the limit the readiness check that admitted this call had loaded
  seen : Nat := 0      -- ghost: the value of `in_flight` that check loaded
deriving Repr, Inhabited, DecidableEq

/-- ghost record of one readiness comparison made by a thread (`poll_ready`'s second load) -/
structure TCheck where
  tid     : Nat
  lim     : Nat          -- the limit the thread had loaded (one turn earlier, or more)
  seen    : Nat          -- the value of `in_flight` it loaded at this turn
  refused : Bool
deriving Repr, Inhabited, DecidableEq

/-- where a thread stands inside its current operation: the name of the NEXT yield point -/
inductive TPh
  | idle                               -- the yield at the beginning of the next operation
  | rdLimit (o : Out)                  -- `poll_ready`: load `algorithm.limit()`
  | rdInFlight (o : Out) (lim : Nat)   -- `poll_ready`: load `in_flight`, compare with `lim`
  | enter (o : Out) (lim seen : Nat)   -- `call`: `in_flight.fetch_add(1)` (`lim`, `seen`: ghost, what the check that passed saw)
  | syncLim                            -- load `algorithm.limit()` for the mirror
  | syncCur (l : Nat)                  -- load `current_limit`
  | syncSt (l : Nat)                   -- store `current_limit`
  | rel (polled : Bool)                -- guard drop of the oldest call: `in_flight.fetch_sub(1)`
  | feed (lt : Limit.Thread) (sync : Bool)   -- inside the algorithm: `lt`'s next atomic
  | rdIF                               -- `in_flight()`
deriving Repr, Inhabited

def TPh.isIdle : TPh → Bool
  | .idle => true
  | _ => false

structure TThread where
  prog  : List TOp := []
  ph    : TPh := .idle
  calls : List TCall := []       -- the call futures this thread holds = the live `InFlightGuard`s it owns (oldest first)
  nacq  : Nat := 0
  out   : List String := []
deriving Repr, Inhabited

/-- the atomics all clones share (+ serial numbers and the event log of the scripted inner service) -/
structure Shared where
  alg      : Cells
  inFlight : Nat := 0
  cur      : Nat := 0
  serial   : Nat := 0
  log      : List Ev := []
  tchecks  : List TCheck := []   -- ghost: every readiness comparison the threads of this round have made
deriving Repr

structure TState where
  sh      : Shared
  threads : List TThread := []
deriving Repr

def tdone (th : TThread) : TThread := { th with prog := th.prog.tail, ph := .idle }
def callerId (tid n : Nat) : Nat := 1000 * (tid + 1) + n
def pushLog (sh : Shared) (e : Ev) : Shared := { sh with log := sh.log ++ [e] }

/-- the turn at the beginning of operation `op`: thread-local work up to the first atomic -/
def beginT (sh : Shared) (th : TThread) (op : TOp) : Shared × TThread :=
  match op with
  | .acquire o => (sh, { th with ph := .rdLimit o })
  | .finishCall =>
      match th.calls with
      | [] => (sh, tdone th)
      | cl :: _ =>
          if cl.o = .never then (sh, tdone th)
          else (pushLog sh (.innerDone cl.c cl.k cl.o), { th with ph := .rel true })
  | .dropCall =>
      match th.calls with
      | [] => (sh, tdone th)
      | cl :: _ => (pushLog sh (.innerDrop cl.c cl.k), { th with ph := .rel false })
  | .readInFlight => (sh, { th with ph := .rdIF })
  | .fb op => (sh, { th with ph := .feed { prog := [op] } false })

/-- after the guard is gone: feedback for a call that completed with a value, nothing otherwise -/
def afterRel (th : TThread) (polled : Bool) (o : Out) : TThread :=
  if polled then
    match o with
    | .ok => { th with ph := .feed { prog := [.succ 0] } true }
    | .err _ => { th with ph := .feed { prog := [.fail] } true }
    | _ => tdone th
  else tdone th

/-- the guard of the oldest call is dropped: ONE atomic decrement -/
def relStep (sh : Shared) (th : TThread) (polled : Bool) : Shared × TThread :=
  match th.calls with
  | [] => (sh, tdone th)
  | cl :: rest => ({ sh with inFlight := sh.inFlight - 1 }, afterRel { th with calls := rest } polled cl.o)

def feedStep (cfg : Cfg) (sh : Shared) (th : TThread) (lt : Limit.Thread) (sync : Bool) (weak : Bool := false) :
    Shared × TThread :=
  let r := Limit.tstepW cfg sh.alg lt weak
  if r.2.prog.isEmpty then
    ({ sh with alg := r.1 },
     if sync then { th with ph := .syncLim } else tdone { th with out := th.out ++ r.2.out.map toString })
  else ({ sh with alg := r.1 }, { th with ph := .feed r.2 sync })

/-- `call()`: the counter goes up, the guard exists, the inner call is made — one turn -/
def enterStep (sh : Shared) (tid : Nat) (th : TThread) (o : Out) (lim seen : Nat := 0) : Shared × TThread :=
  ({ sh with inFlight := sh.inFlight + 1, serial := sh.serial + 1,
             log := sh.log ++ [.innerCallX (callerId tid th.nacq) sh.serial (callerId tid th.nacq) true] },
   { th with calls := th.calls ++ [{ c := callerId tid th.nacq, k := sh.serial, o := o, lim := lim, seen := seen }],
             nacq := th.nacq + 1, ph := .syncLim })

/-- the comparison of `poll_ready`: the value of `in_flight` loaded NOW against the limit loaded EARLIER -/
def checkStep (sh : Shared) (tid : Nat) (th : TThread) (o : Out) (lim : Nat) : Shared × TThread :=
  if sh.inFlight ≥ lim then
    ({ sh with tchecks := sh.tchecks ++ [{ tid := tid, lim := lim, seen := sh.inFlight, refused := true }] },
     tdone { th with out := th.out ++ ["x"] })
  else
    ({ sh with tchecks := sh.tchecks ++ [{ tid := tid, lim := lim, seen := sh.inFlight, refused := false }] },
     { th with ph := .enter o lim sh.inFlight })

/-- one turn of a thread that is not finished; `weak`: a `compare_exchange_weak` (inside the algorithm) fails spuriously -/
def tstepT (cfg : Cfg) (sh : Shared) (tid : Nat) (th : TThread) (weak : Bool := false) : Shared × TThread :=
  match th.ph with
  | .idle =>
      match th.prog with
      | [] => (sh, th)
      | op :: _ => beginT sh th op
  | .rdLimit o => (sh, { th with ph := .rdInFlight o sh.alg.limit })
  | .rdInFlight o lim => checkStep sh tid th o lim
  | .enter o lim seen => enterStep sh tid th o lim seen
  | .syncLim => (sh, { th with ph := .syncCur sh.alg.limit })
  | .syncCur l => if l = sh.cur then (sh, tdone th) else (sh, { th with ph := .syncSt l })
  | .syncSt l => ({ sh with cur := l }, tdone th)
  | .rel polled => relStep sh th polled
  | .feed lt sync => feedStep cfg sh th lt sync weak
  | .rdIF => (sh, tdone { th with out := th.out ++ [toString sh.inFlight] })

/-- one turn of the schedule -/
def stepTT (cfg : Cfg) (s : TState) (t : Limit.Turn) : TState :=
  match s.threads[t.tid]? with
  | none => { s with sh := pushLog s.sh (.raw s!"skip {t.render}") }
  | some th =>
      if th.prog.isEmpty then { s with sh := pushLog s.sh (.raw s!"skip {t.render}") }
      else
        let r := tstepT cfg (pushLog s.sh (.raw s!"step {t.render}")) t.tid th t.isWeak
        { sh := r.1, threads := s.threads.set t.tid r.2 }

def runSchedT (cfg : Cfg) (s : TState) (sched : List Limit.Turn) : TState := sched.foldl (stepTT cfg) s

def firstLiveT (ths : List TThread) : Option Nat := ths.findIdx? (fun th => !th.prog.isEmpty)

/-- after the schedule: the remaining threads run to completion, lowest id first -/
def drainT (cfg : Cfg) : Nat → TState → TState
  | 0, s => s
  | n + 1, s =>
      match firstLiveT s.threads with
      | none => s
      | some t => drainT cfg n (stepTT cfg s (.run t))

def drainFuelT (s : TState) : Nat := 24 * (s.threads.map (fun th => th.prog.length)).sum + 24

def execT (cfg : Cfg) (s : TState) (sched : List Limit.Turn) : TState :=
  let s' := runSchedT cfg s sched
  drainT cfg (drainFuelT s') s'

def freshThreads (progs : List (List TOp)) : List TThread := progs.map fun p => { prog := p }

/-- the shared atomics of a limiter nobody has used yet -/
def freshShared (cfg : Cfg) : Shared := { alg := Limit.initCells cfg, cur := (Limit.initCells cfg).limit }

/-- the live guards: call futures held by the threads -/
def liveGuards (ths : List TThread) : Nat := (ths.map fun th => th.calls.length).sum

/-! ### a round of threads inside a history of the service -/

def renderStrs (l : List String) : String := if l.isEmpty then "none" else ",".intercalate l

/-- what a thread still holds when its program ends is dropped (on the main thread, after the round) -/
def dropLeft (sh : Shared) (cs : List TCall) : Shared :=
  cs.foldl (fun sh cl => { sh with inFlight := sh.inFlight - 1, log := sh.log ++ [.innerDrop cl.c cl.k] }) sh

def cleanup (sh : Shared) : Nat → List TThread → Shared
  | _, [] => sh
  | i, th :: tl => cleanup (dropLeft (pushLog sh (.raw s!"th {i} {renderStrs th.out}")) th.calls) (i + 1) tl

def settled (ths : List TThread) : Bool := ths.all fun th => th.prog.isEmpty && th.ph.isIdle

def tinit (s : State) : TState :=
  { sh := { alg := s.alg, inFlight := s.inFlight, cur := s.cur, serial := s.serial, log := s.log },
    threads := freshThreads s.progs }

/-- `manual sched`: the thread programs run under the schedule on clones of this service (the calls of the
single-threaded callers stay in flight meanwhile); afterwards whatever the threads still hold is dropped -/
def schedOp (cfg : Cfg) (s : State) (sch : List Limit.Turn) : State :=
  let r := execT cfg (tinit s) sch
  if settled r.threads then
    let sh := cleanup r.sh 0 r.threads
    { s with alg := sh.alg, inFlight := sh.inFlight, cur := sh.cur, serial := sh.serial,
             log := sh.log ++ [.raw s!"limit {sh.alg.limit}"], progs := [] }
  else emit { s with progs := [] } [.raw "sched-unsettled"]

def setProgT (l : List (List TOp)) (t : Nat) (p : List TOp) : List (List TOp) :=
  (l ++ List.replicate (t + 1 - l.length) []).set t p

def stepS (cfg : Cfg) (s : State) (op : Op) : State :=
  match op with
  | .adv ms => { s with now := s.now + ms }
  | .arrive c sc keep =>
      if known s c then s
      else if c ∈ s.checked then arriveChecked (noteKeep s c keep) c sc
      else arriveFresh (noteKeep s c keep) c sc
  | .poll c => if c ∈ s.running then pollRunning cfg s c else s
  | .drop c => if c ∈ s.running then dropRunning s c else s
  | .check c => checkOp s c
  | .letGo c => letGoOp s c
  | .warm prog => warmOp cfg s prog
  | .probeInFlight => emit s [.probe s!"in_flight = {s.inFlight}"]
  | .probeLimit => emit s [.probe s!"limit = {s.alg.limit}"]
  | .probeReady => probeReady s
  | .ready h a => readyOp s h a
  | .arriveH c sc keep h a =>
      if known s c then s
      else if c ∈ s.checked then arriveChecked (noteKeep s c keep) c sc
      else arriveHandle (noteKeep s c keep) c sc h a
  | .thread t prog => { s with progs := setProgT s.progs t prog }
  | .sched sch => schedOp cfg s sch
  | .arriveX c sc h a =>
      if known s c then s
      else if c ∈ s.checked then panicCall { s with checked := s.checked.erase c } c sc
      else if h = 0 then arriveFreshX s c sc
      else arriveHandleX s c sc h a

def init (cfg : Cfg) : State := { alg := Limit.initCells cfg, cur := (Limit.initCells cfg).limit }
def run (cfg : Cfg) (ops : List Op) : State := ops.foldl (stepS cfg) (init cfg)

/-! ## line protocol -/

def parseAns (s : String) : Ans := if s = "p" then .p else if s = "e" then .e else .r

def parseTProg : List Char → List TOp
  | [] => []
  | 'A' :: tl => .acquire .ok :: parseTProg tl
  | 'E' :: tl => .acquire (.err 1) :: parseTProg tl
  | 'P' :: tl => .acquire .panic :: parseTProg tl
  | 'C' :: tl => .finishCall :: parseTProg tl
  | 'D' :: tl => .dropCall :: parseTProg tl
  | 'I' :: tl => .readInFlight :: parseTProg tl
  | 'S' :: d :: tl => .fb (.succ (Limit.latNs (d.toNat - 48))) :: parseTProg tl
  | 'F' :: tl => .fb .fail :: parseTProg tl
  | 'L' :: tl => .fb .read :: parseTProg tl
  | _ :: tl => parseTProg tl

def parseOp (ws : List String) : Option Op :=
  match ws with
  | "arrive" :: c :: rest =>
      let kv := parseKv rest
      let plan := planOf kv
      if kv.nat "callpanic" 0 = 1 then
        some (.arriveX (c.toNat?.getD 0) (plan.headD { lat := 0, out := .ok }) (kv.nat "h" 0) (parseAns (kv.str "rdy" "r")))
      else if kv.nat "h" 0 = 0 then
        some (.arrive (c.toNat?.getD 0) (plan.headD { lat := 0, out := .ok }) (kv.nat "keep" 0 == 1))
      else
        some (.arriveH (c.toNat?.getD 0) (plan.headD { lat := 0, out := .ok }) (kv.nat "keep" 0 == 1)
                (kv.nat "h" 0) (parseAns (kv.str "rdy" "r")))
  | "manual" :: "ready" :: rest => some (.ready ((parseKv rest).nat "h" 0) (parseAns ((parseKv rest).str "rdy" "r")))
  | "manual" :: "thread" :: rest =>
      some (.thread ((parseKv rest).nat "t" 0) (parseTProg ((parseKv rest).str "prog" "").toList))
  | "manual" :: "sched" :: rest => some (.sched (Limit.parseSched ((parseKv rest).str "s" "")))
  | "release" :: c :: _ => some (.letGo (c.toNat?.getD 0))
  | "poll" :: c :: _ => some (.poll (c.toNat?.getD 0))
  | "drop" :: c :: _ => some (.drop (c.toNat?.getD 0))
  | "adv" :: ms :: _ => some (.adv (ms.toNat?.getD 0))
  | "manual" :: "check" :: rest => some (.check ((parseKv rest).nat "c" 0))
  | "manual" :: "warm" :: rest => some (.warm (Limit.parseProg ((parseKv rest).str "prog" "").toList))
  | "probe" :: "in_flight" :: _ => some .probeInFlight
  | "probe" :: "limit" :: _ => some .probeLimit
  | "probe" :: "ready" :: _ => some .probeReady
  | _ => none

def machine : Machine where
  σ := Cfg × State
  init kv := let cfg := Limit.parseCfg kv; (cfg, init cfg)
  step := fun (cfg, s) ws =>
    match parseOp ws with
    | some op => let s' := stepS cfg s op; ((cfg, s'), s'.log.drop s.log.length)
    | none => ((cfg, s), [])
  now := fun (_, s) => s.now

end TR.Adaptive
