import TR.Model.Common
/-!
# Circuit breaker (C03, C04, C09) — `crates/tower-resilience-circuitbreaker/src/{circuit,lib}.rs`

`Circuit` transcribes the `Circuit` struct and its methods (each runs under the breaker's
mutex: one critical section = one function here). Callers follow `CircuitBreaker::call` /
`CircuitBreakerWithFallback::call`: critical section `tryAcquire`, the inner call, critical
section `record`. One poll of one call future is one step.

A rejected caller of the fallback variant is handed to the configured fallback *outside* every
critical section: the handler is invoked in the rejecting step (`fallback_call`), its future is
polled in that step and, when it does not finish at once (scripted `fb=<lat>:<out>`), the caller
sits in `falling` until a later poll finds it finished or the caller drops it. A pending fallback
owns nothing of the breaker: no step of a `falling` caller reads or writes `circ`.

Thresholds are exact rationals `num/den`; `reached f n num den` is `f/n ≥ num/den` (for the
window sizes used here this coincides with the code's `f as f64 / n as f64 >= θ`, see DESIGN §8 C04).
-/
namespace TR.Circuit

inductive St
  | closed
  | opened
  | halfOpen
deriving DecidableEq, Repr, Inhabited

def St.name : St → String
  | .closed => "closed"
  | .opened => "open"
  | .halfOpen => "halfopen"

structure Cfg where
  countBased : Bool := true
  size       : Nat := 10          -- sliding_window_size
  windowMs   : Nat := 1000        -- sliding_window_duration (time-based)
  minCalls   : Nat := 10          -- minimum_number_of_calls
  frNum      : Nat := 1           -- failure_rate_threshold = frNum / frDen
  frDen      : Nat := 2
  slowMs     : Option Nat := none -- slow_call_duration_threshold
  srNum      : Nat := 1           -- slow_call_rate_threshold = srNum / srDen
  srDen      : Nat := 1
  waitMs     : Nat := 1000        -- wait_duration_in_open
  permitted  : Nat := 1           -- permitted_calls_in_half_open
  cls        : Nat := 0           -- failure classifier (0 default, 1 only kind 1, 2 errors + odd tags)
  fallback   : Bool := false
  -- All instants and configured durations are whole clock ticks (the model is unit-free). Scripted latencies
  -- (`inner=`, `fb=`) are tokio timers in MILLISECONDS: `msTicks` = ticks per millisecond (1; 1000 in `tick=us` cases)
  msTicks    : Nat := 1
  -- `listen = false`: the breaker has no event listener at all (no `transition` lines in the log; same behaviour)
  listen     : Bool := true
  -- the `on_state_transition` listener also reads `state_sync()` inside its callback and logs it (`lis:trs`, `listen=2`)
  listenSync : Bool := false
  -- the classifier was installed by `classify_response`: the wrapped service has `Error = Infallible` (its errors are
  -- encoded in the response), so its readiness cannot fail
  respCls    : Bool := false
deriving Repr

/-- one recorded outcome -/
structure Rec where
  t    : Nat
  fail : Bool
  slow : Bool
deriving DecidableEq, Repr

inductive CEv
  | innerCall (c k : Nat)
  | innerDone (c k : Nat) (o : Out)
  | innerDrop (c k : Nat)
  | result (c : Nat) (r : Res)
  -- `seen`: what a listener that reads `state_sync()` inside its `on_state_transition` callback gets: `transition_to` emits
  -- the event BEFORE it assigns `self.state` and stores the lock-free view
  | transition (a b : St) (seen : St)
  | manual (what : String)
  | views (s : String)
  | fbCall (c : Nat)
  | fbDrop (c : Nat)
deriving DecidableEq, Repr

def CEv.toEv : CEv → Ev
  | .innerCall c k => .innerCall c k
  | .innerDone c k o => .innerDone c k o
  | .innerDrop c k => .innerDrop c k
  | .result c r => .result c r
  | .transition a b _ => .raw s!"transition {a.name} {b.name}"
  | .manual w => .raw s!"manual {w}"
  | .views s => .probe s
  | .fbCall c => .raw s!"fallback_call {c}"
  | .fbDrop c => .raw s!"fallback_drop {c}"

structure Circuit where
  st          : St := .closed
  mirror      : St := .closed       -- the lock-free `state_atomic`
  lastChange  : Nat := 0
  cwin        : List Rec := []      -- count-based window, oldest first (`t` unused)
  recs        : List Rec := []      -- time-based window, oldest first
  -- the incrementally maintained aggregates of the count-based window
  failN       : Nat := 0
  succN       : Nat := 0
  totalN      : Nat := 0
  slowN       : Nat := 0
  hoAdmitted  : Nat := 0
  hoSuccesses : Nat := 0
  episode     : Nat := 0
  -- ghosts
  released    : Nat := 0            -- trial slots given back in the current episode
  ownSucc     : Nat := 0            -- successes of trials admitted in the current episode
  hist        : List Rec := []      -- every outcome recorded since the window was last emptied
deriving Repr

/-- `f/n ≥ num/den` -/
def reached (f n num den : Nat) : Bool := decide (n > 0) && decide (f * den ≥ num * n)

def countFail (l : List Rec) : Nat := l.countP (·.fail)
def countSlow (l : List Rec) : Nat := l.countP (·.slow)

/-- `(total, failures, successes, slow)` as `evaluate_window` / `metrics` see them -/
def stats (cfg : Cfg) (c : Circuit) : Nat × Nat × Nat × Nat :=
  if cfg.countBased then (c.totalN, c.failN, c.succN, c.slowN)
  else (c.recs.length, countFail c.recs, c.recs.length - countFail c.recs, countSlow c.recs)

def clearWindow (c : Circuit) : Circuit :=
  { c with cwin := [], recs := [], failN := 0, succN := 0, totalN := 0, slowN := 0, hist := [] }

/-- `transition_to`: no-op (and no event) when the state does not change. The `StateTransition` event is emitted FIRST, while
`self.state` and the lock-free view still hold the old state: a listener that calls `state_sync()` / `is_open()` from its
callback reads `c.mirror` — the view BEFORE this transition (third field of the event). Only then are the state, the
lock-free view, the instant of the change, the window and the half-open bookkeeping updated, together. -/
def transitionTo (c : Circuit) (s : St) (now : Nat) : Circuit × List CEv :=
  if c.st = s then (c, [])
  else
    ({ clearWindow c with st := s, mirror := s, lastChange := now, hoAdmitted := 0, hoSuccesses := 0,
                          episode := c.episode + 1, released := 0, ownSucc := 0 },
     [.transition c.st s c.mirror])

/-- `cleanup_old_records`: pop from the front while older than the window -/
def cleanup (cfg : Cfg) (c : Circuit) (now : Nat) : Circuit :=
  { c with recs := c.recs.dropWhile (fun r => decide (now - r.t > cfg.windowMs)) }

/-- evict the oldest outcome of the count-based window, keeping the aggregates in step -/
def evictOne (c : Circuit) : Circuit :=
  match c.cwin with
  | [] => c
  | r :: tl =>
    { c with cwin := tl,
             failN := if r.fail then c.failN - 1 else c.failN,
             succN := if r.fail then c.succN else c.succN - 1,
             slowN := if r.slow then c.slowN - 1 else c.slowN,
             totalN := c.totalN - 1 }

/-- `push_count_based`: at most one eviction is ever needed since the window grows by one -/
def pushCount (cfg : Cfg) (c : Circuit) (r : Rec) : Circuit :=
  let c := { c with cwin := c.cwin ++ [r],
                    failN := if r.fail then c.failN + 1 else c.failN,
                    succN := if r.fail then c.succN else c.succN + 1,
                    slowN := if r.slow then c.slowN + 1 else c.slowN,
                    totalN := c.totalN + 1 }
  if c.cwin.length > max cfg.size 1 then evictOne c else c

def pushOutcome (cfg : Cfg) (c : Circuit) (r : Rec) (now : Nat) : Circuit :=
  if cfg.countBased then { pushCount cfg c r with hist := c.hist ++ [r] }
  else
    let c := cleanup cfg c now
    { c with recs := c.recs ++ [r], hist := c.hist ++ [r] }

def shouldOpen (cfg : Cfg) (total fail slow : Nat) : Bool :=
  decide (total ≥ cfg.minCalls) && (!cfg.countBased || decide (total ≥ cfg.size)) &&
    (reached fail total cfg.frNum cfg.frDen || (cfg.slowMs.isSome && reached slow total cfg.srNum cfg.srDen))

/-- `evaluate_window` -/
def evalOn (cfg : Cfg) (c : Circuit) (now : Nat) : Circuit × List CEv :=
  let (total, fail, _, slow) := stats cfg c
  if shouldOpen cfg total fail slow then transitionTo c .opened now else (c, [])

def evaluate (cfg : Cfg) (c : Circuit) (now : Nat) : Circuit × List CEv :=
  evalOn cfg (if cfg.countBased then c else cleanup cfg c now) now

def isSlow (cfg : Cfg) (dur : Nat) : Bool :=
  match cfg.slowMs with
  | some th => decide (dur ≥ th)
  | none => false

/-- `record_success` / `record_failure`; `own` = the call was a trial admitted in this episode -/
def record (cfg : Cfg) (c : Circuit) (fail : Bool) (dur now : Nat) (own : Bool) : Circuit × List CEv :=
  let c := pushOutcome cfg c { t := now, fail := fail, slow := isSlow cfg dur } now
  match c.st with
  | .halfOpen =>
      if fail then transitionTo c .opened now
      else
        let c := { c with hoSuccesses := c.hoSuccesses + 1, ownSucc := if own then c.ownSucc + 1 else c.ownSucc }
        if c.hoSuccesses ≥ cfg.permitted then transitionTo c .closed now else (c, [])
  | _ => evaluate cfg c now

/-- `try_acquire` -/
def tryAcquire (cfg : Cfg) (c : Circuit) (now : Nat) : Circuit × Bool × List CEv :=
  match c.st with
  | .closed => (c, true, [])
  | .opened =>
      if now - c.lastChange ≥ cfg.waitMs then
        ({ (transitionTo c .halfOpen now).1 with hoAdmitted := 1 }, true, (transitionTo c .halfOpen now).2)
      else (c, false, [])
  | .halfOpen =>
      if c.hoAdmitted < cfg.permitted then ({ c with hoAdmitted := c.hoAdmitted + 1 }, true, [])
      else (c, false, [])

/-- `release_trial` (drop of a `TrialGuard` whose outcome was never recorded) -/
def releaseTrial (c : Circuit) (ep : Option Nat) : Circuit :=
  match ep with
  | some e =>
      if c.st = .halfOpen ∧ c.episode = e ∧ c.hoAdmitted > 0 then
        { c with hoAdmitted := c.hoAdmitted - 1, released := c.released + 1 }
      else c
  | none => c

def reset (c : Circuit) (now : Nat) : Circuit × List CEv :=
  (clearWindow (transitionTo c .closed now).1, (transitionTo c .closed now).2)

/-! ## callers -/

structure Caller where
  c      : Nat
  k      : Nat
  start  : Nat
  doneAt : Nat
  out    : Out
  tag    : Nat
  ep     : Option Nat     -- `TrialGuard.episode`
deriving Repr

structure Fresh where
  c   : Nat
  sc  : Step
  tag : Nat
  fb  : Step := { lat := 0, out := .ok }   -- script of this caller's fallback future
deriving Repr

/-- a rejected caller whose fallback future is pending -/
structure Falling where
  c      : Nat
  doneAt : Nat
  out    : Out
deriving Repr

/-- readiness of the wrapped service as the breaker's `poll_ready` reports it -/
inductive Gate
  | up        -- ready
  | down      -- `Poll::Pending`
  | failing   -- `Poll::Ready(Err(_))`
deriving DecidableEq, Repr, Inhabited

structure State where
  now     : Nat := 0
  circ    : Circuit := {}
  fresh   : List Fresh := []
  running : List Caller := []
  falling : List Falling := []
  seen    : List Nat := []
  serial  : Nat := 0
  log     : List (Nat × CEv) := []   -- ghost: every event so far, with its instant
  gate    : Gate := .up              -- readiness of the wrapped service
  -- `HealthTriggerable`: tasks spawned by `trigger_unhealthy` (`true`) / `trigger_healthy` (`false`) that the scheduler
  -- has not run yet, in spawn order; each will take the breaker's lock and apply `force_open` / `force_closed`
  pending : List Bool := []
deriving Repr

inductive Op
  | arrive (c : Nat) (sc : Step) (tag : Nat) (fb : Step := { lat := 0, out := .ok })
  | poll (c : Nat)
  | drop (c : Nat)
  | adv (ms : Nat)
  | forceOpen
  | forceClosed
  | reset
  | views
  | gate (g : Gate)            -- the wrapped service becomes ready / not ready / failing
  | trigger (unhealthy : Bool) -- `HealthTriggerable::trigger_unhealthy` / `trigger_healthy`: synchronous, spawns a task
  | yield                      -- the scheduler runs the tasks spawned so far
  | elsewhere (n : Nat)        -- `n` inner calls were started through OTHER services (the serial counts all inner calls of the case)
deriving Repr

def classify (cfg : Cfg) (o : Out) (tag : Nat) : Bool :=
  match cfg.cls, o with
  | 0, .err _ => true
  | 0, _ => false
  | 1, .err k => decide (k = 1)
  | 1, _ => false
  | _, .err _ => true
  | _, .ok => decide (tag % 2 = 1)
  | _, _ => false

def emit (s : State) (evs : List CEv) : State := { s with log := s.log ++ evs.map (fun e => (s.now, e)) }

def findFresh (l : List Fresh) (c : Nat) : Option Fresh := l.find? (·.c == c)
def findRunning (l : List Caller) (c : Nat) : Option Caller := l.find? (·.c == c)
def findFalling (l : List Falling) (c : Nat) : Option Falling := l.find? (·.c == c)

def resOf (k : Nat) : Out → Res
  | .ok => .ok k
  | .err kd => .inner kd k
  | .panic => .panic
  | .never => .panic

/-- what the fallback future of caller `c` resolves to -/
def fbRes (c : Nat) : Out → Res
  | .ok => .fallback c
  | .err kd => .inner kd c
  | .panic => .panic
  | .never => .panic

/-- the instant at which a scripted latency of `lat` ms, started at `now`, is over. A tokio timer fires at the first
millisecond boundary `≥ now + lat` ms (boundaries counted from the start of the case); latency 0 = no timer at all.
With one tick per millisecond this is `now + lat`. -/
def due (cfg : Cfg) (now lat : Nat) : Nat :=
  if lat = 0 then now else (now + lat * cfg.msTicks + (cfg.msTicks - 1)) / cfg.msTicks * cfg.msTicks

/-- a rejected caller is handed to the fallback: the handler is invoked and its future polled once, in
the rejecting step and outside every critical section; if it is not finished the caller waits in `falling` -/
def startFallback (cfg : Cfg) (s : State) (f : Fresh) : State :=
  if f.fb.lat = 0 ∧ f.fb.out ≠ .never then emit s [.fbCall f.c, .result f.c (fbRes f.c f.fb.out)]
  else emit { s with falling := s.falling ++ [{ c := f.c, doneAt := due cfg s.now f.fb.lat, out := f.fb.out }] } [.fbCall f.c]

/-- the fallback future of `falling` caller `r` is polled: nothing of the breaker is involved -/
def pollFalling (s : State) (r : Falling) : State :=
  if s.now ≥ r.doneAt ∧ r.out ≠ .never then
    emit { s with falling := s.falling.eraseP (·.c == r.c) } [.result r.c (fbRes r.c r.out)]
  else s

def dropFalling (s : State) (r : Falling) : State :=
  emit { s with falling := s.falling.eraseP (·.c == r.c) } [.fbDrop r.c]

/-- completion of the inner call of running caller `r` (the caller has already left `running`) -/
def complete (cfg : Cfg) (s : State) (r : Caller) : State :=
  match r.out with
  | .panic =>
      -- the panic unwinds through the call future; its `TrialGuard` gives the slot back
      let s := emit s [.innerDone r.c r.k .panic, .result r.c .panic]
      { s with circ := releaseTrial s.circ r.ep }
  | o =>
      let own := decide (r.ep = some s.circ.episode ∧ s.circ.st = .halfOpen)
      let rc := record cfg s.circ (classify cfg o r.tag) (s.now - r.start) s.now own
      emit { s with circ := rc.1 } ([.innerDone r.c r.k o] ++ rc.2 ++ [.result r.c (resOf r.k o)])

/-- the inner future of running caller `c` is polled -/
def pollRunning (cfg : Cfg) (s : State) (c : Nat) : State :=
  match findRunning s.running c with
  | some r =>
      if s.now ≥ r.doneAt ∧ r.out ≠ .never then
        complete cfg { s with running := s.running.eraseP (·.c == c) } r
      else s
  | none => s

/-- first poll, part one: the critical section `try_acquire`; if admitted the inner service is
called (`inner_call`), otherwise the caller is answered at once -/
def admitStep (cfg : Cfg) (s : State) (f : Fresh) : State × Bool :=
  let s := { s with fresh := s.fresh.eraseP (·.c == f.c) }
  let acq := tryAcquire cfg s.circ s.now
  let s := emit { s with circ := acq.1 } acq.2.2
  if acq.2.1 then
    let ep := if acq.1.st = .halfOpen then some acq.1.episode else none
    let r : Caller := { c := f.c, k := s.serial, start := s.now, doneAt := due cfg s.now f.sc.lat, out := f.sc.out,
                        tag := f.tag, ep := ep }
    (emit { s with running := s.running ++ [r], serial := s.serial + 1 } [.innerCall f.c s.serial], true)
  else if cfg.fallback then (startFallback cfg s f, false)
  else (emit s [.result f.c .openCircuit], false)

/-- first poll: admission, then the inner future is polled in the same step -/
def pollFresh (cfg : Cfg) (s : State) (f : Fresh) : State :=
  let r := admitStep cfg s f
  if r.2 then pollRunning cfg r.1 f.c else r.1

def dropRunning (s : State) (c : Nat) (r : Caller) : State :=
  let s := emit { s with running := s.running.eraseP (·.c == c) } [.innerDrop r.c r.k]
  { s with circ := releaseTrial s.circ r.ep }

/-- `http_status()`: a function of the lock-free view -/
def httpStatus : St → Nat
  | .opened => 503
  | _ => 200

/-- `health_status()`: a function of the lock-free view -/
def healthStatus : St → String
  | .closed => "healthy"
  | .halfOpen => "degraded"
  | .opened => "unhealthy"

def viewsString (cfg : Cfg) (c : Circuit) : String :=
  let (total, fail, succ, slow) := stats cfg c
  s!"views state={c.st.name} sync={c.mirror.name} is_open={if c.mirror = .opened then 1 else 0} mstate={c.st.name} total={total} fail={fail} succ={succ} slow={slow} http={httpStatus c.mirror} health={healthStatus c.mirror}"

/-- a task spawned by a health trigger runs: one critical section, `force_open` / `force_closed` -/
def applyTask (s : State) (unhealthy : Bool) : State :=
  let tr := transitionTo s.circ (if unhealthy then .opened else .closed) s.now
  emit { s with circ := tr.1 } tr.2

/-- the scheduler gets to the spawned tasks: they run in spawn order -/
def runTasks (s : State) : State := s.pending.foldl applyTask { s with pending := [] }

/-- a request arrives while the wrapped service is not ready: `poll_ready` of the breaker is that of the wrapped service;
the caller gives up (`notready`) or is handed the readiness error; the breaker is not involved -/
def refuse (cfg : Cfg) (s : State) (c : Nat) : State :=
  emit { s with seen := c :: s.seen }
    [.result c (if s.gate = .failing ∧ cfg.respCls = false then .inner 9 0 else .notReady)]

def stepS (cfg : Cfg) (s : State) (op : Op) : State :=
  match op with
  | .adv ms => { s with now := s.now + ms }
  | .arrive c sc tag fb =>
      if s.seen.contains c then s
      else if s.gate = .up then
        { s with fresh := s.fresh ++ [{ c := c, sc := sc, tag := tag, fb := fb }], seen := c :: s.seen }
      else refuse cfg s c
  | .poll c =>
      match findFresh s.fresh c with
      | some f => pollFresh cfg s f
      | none =>
        match findFalling s.falling c with
        | some r => pollFalling s r
        | none => pollRunning cfg s c
  | .drop c =>
      match findFresh s.fresh c with
      | some _ => { s with fresh := s.fresh.eraseP (·.c == c) }
      | none =>
        match findFalling s.falling c with
        | some r => dropFalling s r
        | none =>
          match findRunning s.running c with
          | some r => dropRunning s c r
          | none => s
  | .forceOpen =>
      let tr := transitionTo s.circ .opened s.now
      emit { s with circ := tr.1 } ([.manual "force_open"] ++ tr.2)
  | .forceClosed =>
      let tr := transitionTo s.circ .closed s.now
      emit { s with circ := tr.1 } ([.manual "force_closed"] ++ tr.2)
  | .reset =>
      let tr := reset s.circ s.now
      emit { s with circ := tr.1 } ([.manual "reset"] ++ tr.2)
  | .views => emit s [.views (viewsString cfg s.circ)]
  | .gate g =>
      emit { s with gate := g } [.manual (match g with | .up => "inner_up" | .down => "inner_down" | .failing => "inner_fail")]
  | .trigger u =>
      emit { s with pending := s.pending ++ [u] } [.manual (if u then "trigger_unhealthy" else "trigger_healthy")]
  | .yield => runTasks (emit s [.manual "yield"])
  | .elsewhere n => { s with serial := s.serial + n }

def init : State := {}
def run (cfg : Cfg) (ops : List Op) : State := ops.foldl (stepS cfg) init

/-! ## the builder

`CircuitBreakerLayer::builder()` / `circuit_breaker_builder()` start from the defaults of `CircuitBreakerConfigBuilder::new`
(config.rs): threshold 0.5, count-based window of 100, wait 30 s, 1 permitted call, `minimum_number_of_calls` UNSET, no
slow-call detection, the default classifier. Every setter overwrites its field in place; `failure_classifier` /
`classify_response` change the builder's *type* and therefore rebuild it field by field. `build()` resolves the unset
minimum to the FINAL window size ("Default: same as sliding_window_size"). -/

inductive Setter
  | fr (num den : Nat)
  | size (n : Nat)
  | wait (n : Nat)
  | perm (n : Nat)
  | wtype (time : Bool)
  | wdur (n : Nat)
  | minCalls (n : Nat)
  | slow (n : Nat)
  | sr (num den : Nat)
  | cls (k : Nat)        -- `failure_classifier(..)`
  | clsr (k : Nat)       -- `classify_response(..)`
  | listenTr             -- `on_state_transition(..)`
  | listenSync           -- `on_state_transition(..)` with a listener that reads `state_sync()` in its callback
  | other                -- `name(..)`, the other `on_*` listeners: nothing the breaker's behaviour depends on
deriving DecidableEq, Repr

/-- the two setters that install a classifier (and re-type the builder) -/
def Setter.isCls : Setter → Bool
  | .cls _ => true
  | .clsr _ => true
  | _ => false

def Setter.isMin : Setter → Bool
  | .minCalls _ => true
  | _ => false

def Setter.isSize : Setter → Bool
  | .size _ => true
  | _ => false

/-- the builder's fields -/
structure BState where
  frNum     : Nat := 1
  frDen     : Nat := 2
  timeBased : Bool := false
  size      : Nat := 100
  wdur      : Option Nat := none
  wait      : Nat
  permitted : Nat := 1
  minCalls  : Option Nat := none
  slow      : Option Nat := none
  srNum     : Nat := 1
  srDen     : Nat := 1
  cls       : Nat := 0
  respCls   : Bool := false
  listen    : Bool := false
  listenSync : Bool := false
deriving Repr

def applySetter (b : BState) : Setter → BState
  | .fr n d => { b with frNum := n, frDen := d }
  | .size n => { b with size := n }
  | .wait n => { b with wait := n }
  | .perm n => { b with permitted := n }
  | .wtype t => { b with timeBased := t }
  | .wdur n => { b with wdur := some n }
  | .minCalls n => { b with minCalls := some n }
  | .slow n => { b with slow := some n }
  | .sr n d => { b with srNum := n, srDen := d }
  | .cls k => { b with cls := k, respCls := false }
  | .clsr k => { b with cls := k, respCls := true }
  | .listenTr => { b with listen := true }
  | .listenSync => { b with listen := true, listenSync := true }
  | .other => b

/-- `build()`: `msTicks` = clock ticks per millisecond (the builder's default wait is 30 s) -/
def BState.toCfg (b : BState) (msTicks : Nat) (fallback : Bool) : Cfg :=
  { countBased := !b.timeBased, size := b.size, windowMs := b.wdur.getD 1000,
    minCalls := b.minCalls.getD b.size,
    frNum := b.frNum, frDen := b.frDen, slowMs := b.slow, srNum := b.srNum, srDen := b.srDen,
    waitMs := b.wait, permitted := b.permitted, cls := b.cls, fallback := fallback, msTicks := msTicks,
    listen := b.listen, listenSync := b.listenSync, respCls := b.respCls }

def newBuilder (msTicks : Nat) : BState := { wait := 30000 * msTicks }

/-- the configuration `builder().s₁.s₂.….build()` ends up with -/
def build (msTicks : Nat) (fallback : Bool) (chain : List Setter) : Cfg :=
  (chain.foldl applySetter (newBuilder msTicks)).toCfg msTicks fallback

/-- the preset constructors of `CircuitBreakerLayer` (layer.rs), as the setters they apply to a new builder -/
def presetChain (msTicks : Nat) : String → List Setter
  | "standard" => [.fr 1 2, .size 100, .wait (30000 * msTicks), .perm 3]
  | "fast_fail" => [.fr 1 4, .size 20, .wait (10000 * msTicks), .perm 1]
  | "tolerant" => [.fr 3 4, .size 200, .wait (60000 * msTicks), .perm 5]
  | _ => []

/-! ## several services made from one layer value

Every `layer()` / `layer_fn()` call makes a breaker of its own (`CircuitBreaker::new`: a new `Circuit`, a new lock-free view);
only clones of one service share a breaker. What the services of a case share is the configuration, the clock and the
numbering of the inner calls. `Multi` is that: one `State` per service (absent = not built yet = `init`). -/

structure Multi where
  now    : Nat := 0
  serial : Nat := 0
  insts  : List (Nat × State) := []

def Multi.get (m : Multi) (k : Nat) : State := (lookup m.insts k).getD init

def setInst (l : List (Nat × State)) (k : Nat) (s : State) : List (Nat × State) :=
  match l with
  | [] => [(k, s)]
  | (j, t) :: tl => if j = k then (k, s) :: tl else (j, t) :: setInst tl k s

/-- service `k` catches up with the clock and with the inner calls started through other services -/
def sync (cfg : Cfg) (now serial : Nat) (s : State) : State :=
  stepS cfg (stepS cfg s (.adv (now - s.now))) (.elsewhere (serial - s.serial))

/-- one operation on service `k` -/
def stepM (cfg : Cfg) (m : Multi) (k : Nat) (op : Op) : Multi :=
  let s' := stepS cfg (sync cfg m.now m.serial (m.get k)) op
  { now := s'.now, serial := s'.serial, insts := setInst m.insts k s' }

def runM (cfg : Cfg) (ops : List (Nat × Op)) : Multi := ops.foldl (fun m p => stepM cfg m p.1 p.2) {}

/-! ## line protocol -/

def parseFrac (s : String) (d : Nat × Nat) : Nat × Nat :=
  match s.splitOn "/" with
  | [a, b] => (a.toNat?.getD d.1, b.toNat?.getD d.2)
  | _ => d

def waitOf (s : String) : Nat := if s = "max" then 10 ^ 30 else s.toNat?.getD 1000

/-- `wdur=max` / `wdur:max`: `sliding_window_duration(Duration::MAX)` — "never forget a call": a window duration no reachable
clock value exceeds, so no record ever ages out of it (`TR.Props.C04.unbounded_time_window_keeps_everything`). -/
def wdurOf (s : String) (d : Nat) : Nat := if s = "max" then 10 ^ 30 else s.toNat?.getD d

/-- one item of the header word `chain=i1,i2,…` -/
def parseSetter (s : String) : Option Setter :=
  match s.splitOn ":" with
  | ["fr", v] => let f := parseFrac v (1, 2); some (.fr f.1 f.2)
  | ["size", v] => some (.size (v.toNat?.getD 0))
  | ["wait", v] => some (.wait (waitOf v))
  | ["perm", v] => some (.perm (v.toNat?.getD 0))
  | ["wtype", v] => some (.wtype (v == "time"))
  | ["wdur", v] => some (.wdur (wdurOf v 0))
  | ["min", v] => some (.minCalls (v.toNat?.getD 0))
  | ["slow", v] => some (.slow (v.toNat?.getD 0))
  | ["sr", v] => let f := parseFrac v (1, 1); some (.sr f.1 f.2)
  | ["cls", v] => some (.cls (v.toNat?.getD 0))
  | ["clsr", v] => some (.clsr (v.toNat?.getD 0))
  | ["lis", "tr"] => some .listenTr
  | ["lis", "trs"] => some .listenSync
  | ["lis", _] => some .other
  | ["name", _] => some .other
  | _ => none

def parseChain (s : String) : List Setter := (s.splitOn ",").filterMap parseSetter

/-- the classic header keys as the chain the harness applies for them (`all`: with the harness defaults for absent keys) -/
def classicChain (kv : Kv) (all : Bool) : List Setter :=
  let opt (k : String) (d : String) : Option String :=
    match kv.get k with
    | some v => some v
    | none => if all then some d else none
  let fr := parseFrac (kv.str "fr" "1/2") (1, 2)
  let sr := parseFrac (kv.str "sr" "1/1") (1, 1)
  ((opt "fr" "1/2").map (fun _ => Setter.fr fr.1 fr.2)).toList ++
  ((opt "size" "10").map (fun v => Setter.size (v.toNat?.getD 10))).toList ++
  ((opt "wait" "1000").map (fun v => Setter.wait (waitOf v))).toList ++
  ((opt "permitted" "1").map (fun v => Setter.perm (v.toNat?.getD 1))).toList ++
  (if kv.nat "listen" 1 == 2 then [Setter.listenSync] else if kv.nat "listen" 1 != 0 then [Setter.listenTr] else []) ++
  (if kv.str "wtype" "count" = "time" then [Setter.wtype true, .wdur (wdurOf (kv.str "wdur" "1000") 1000)] else []) ++
  ((kv.optNat "min").map Setter.minCalls).toList ++
  ((kv.optNat "slow").map (fun n => [Setter.slow n, .sr sr.1 sr.2])).getD [] ++
  (if kv.nat "cls" 0 != 0 then [Setter.cls (kv.nat "cls" 0)] else [])

def parseCfg (kv : Kv) : Cfg :=
  let msTicks := if kv.str "tick" "ms" = "us" then 1000 else 1
  let chain :=
    match kv.get "chain" with
    | some ch => parseChain ch
    | none => classicChain kv (kv.get "preset").isNone
  build msTicks (kv.nat "fallback" 0 == 1) (presetChain msTicks (kv.str "preset" "builder") ++ chain)

def parseOp (ws : List String) : Option Op :=
  match ws with
  | "arrive" :: c :: rest =>
      let kv := parseKv rest
      let c := c.toNat?.getD 0
      some (.arrive c ((planOf kv).headD { lat := 0, out := .ok }) (kv.nat "tag" c)
        ((parsePlan (kv.str "fb" "0:ok")).headD { lat := 0, out := .ok }))
  | "poll" :: c :: _ => some (.poll (c.toNat?.getD 0))
  | "drop" :: c :: _ => some (.drop (c.toNat?.getD 0))
  | "adv" :: ms :: _ => some (.adv (ms.toNat?.getD 0))
  | "manual" :: "force_open" :: _ => some .forceOpen
  | "manual" :: "force_closed" :: _ => some .forceClosed
  | "manual" :: "reset" :: _ => some .reset
  | "manual" :: "inner_up" :: _ => some (.gate .up)
  | "manual" :: "inner_down" :: _ => some (.gate .down)
  | "manual" :: "inner_fail" :: _ => some (.gate .failing)
  | "manual" :: "trigger_unhealthy" :: _ => some (.trigger true)
  | "manual" :: "trigger_healthy" :: _ => some (.trigger false)
  | "manual" :: "yield" :: _ => some .yield
  | "probe" :: _ => some .views
  | _ => none

/-- which service an operation line addresses (`svc=<k>`, default 0); callers are bound to the service they arrived at -/
def svcOf (ws : List String) : Option Nat := (parseKv ws).optNat "svc"

structure MState where
  multi  : Multi := {}
  owner  : List (Nat × Nat) := []     -- caller -> service

def machine : Machine where
  σ := Cfg × MState
  init kv := (parseCfg kv, {})
  step := fun (cfg, ms) ws =>
    match parseOp ws with
    | some op =>
        let k : Nat :=
          match op with
          | .poll c => (lookup ms.owner c).getD 0
          | .drop c => (lookup ms.owner c).getD 0
          | _ => (svcOf ws).getD 0
        let owner := match op with
          | .arrive c _ _ _ => (c, k) :: ms.owner
          | _ => ms.owner
        let s := sync cfg ms.multi.now ms.multi.serial (ms.multi.get k)
        let m' := stepM cfg ms.multi k op
        let s' := m'.get k
        -- without a listener nobody is told about transitions: they are not part of the observable log
        let evs := (s'.log.drop s.log.length).filter (fun p => cfg.listen || !(p.2 matches .transition ..))
        let tagged (e : CEv) : CEv :=
          if k = 0 then e else
          match e with
          | .manual w => .manual s!"{w} svc={k}"
          | .views v => .views s!"{v} svc={k}"
          | e => e
        -- a listener that reads `state_sync()` in its callback logs what it read
        let render (e : CEv) : Ev :=
          match e with
          | .transition a b m => if cfg.listenSync then .raw s!"transition {a.name} {b.name} sync={m.name}" else e.toEv
          | e => (tagged e).toEv
        ((cfg, { multi := m', owner := owner }), evs.map (fun p => render p.2))
    | none => ((cfg, ms), [])
  now := fun (_, ms) => ms.multi.now

end TR.Circuit
