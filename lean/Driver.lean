import TR.Model.Common
import TR.Model.Bulkhead
import TR.Model.Adaptive
import TR.Model.AdaptiveMulti
import TR.Model.Limit
import TR.Model.LimitTrace
import TR.Model.Stack
import TR.Model.Budget
import TR.Model.BudgetTrace
import TR.Model.TimeLimiter
import TR.Model.Chaos
import TR.Model.Fallback
import TR.Model.Coalesce
import TR.Model.Backoff
import TR.Model.Reconnect
import TR.Model.Hedge
import TR.Model.RateLimiter
import TR.Model.Retry
import TR.Model.Health
import TR.Model.Cache
import TR.Model.Circuit
/-!
Line-protocol driver: reads the op file on stdin, prints the model's event log in the same
grammar as the Rust harness. `settle`, duplicate `arrive`, and `poll`/`drop` of a caller that
is not live are handled here, generically, exactly as `harness/src/world.rs` does.
-/
open TR

def machineOf (name : String) : Option Machine :=
  match name with
  | "bulkhead" => some Bulkhead.machine
  | "circuit" => some Circuit.machine
  | "cache" => some Cache.machine
  | "health" => some Health.machine
  | "retry" => some Retry.machine
  | "ratelimiter" => some RateLimiter.machine
  | "hedge" => some Hedge.machine
  | "reconnect" => some Reconnect.machine
  | "backoff" => some Backoff.machine
  | "coalesce" => some Coalesce.machine
  | "fallback" => some Fallback.machine
  | "chaos" => some Chaos.machine
  | "timelimiter" => some TimeLimiter.machineK
  | "budget" => some Budget.machineT
  | "stack" => some Stack.machine
  | "limit" => some Limit.machineT
  | "adaptive" => some Adaptive.machineM
  | _ => none

structure Run (m : Machine) where
  st : m.σ
  live : List Nat := []      -- ascending
  seen : List Nat := []
  gone : Bool := false       -- `manual dropsvc`: every service handle has been dropped; no further request can be made

def insertAsc (l : List Nat) (c : Nat) : List Nat :=
  match l with
  | [] => [c]
  | h :: tl => if c < h then c :: h :: tl else if c = h then l else h :: insertAsc tl c

def printEvs (now : Nat) (evs : List Ev) : IO Unit :=
  for e in evs do IO.println s!"t={now} {e.render}"

/-- apply one model step; callers that got a `result` (or `notready`) leave the live set -/
def applyStep (m : Machine) (r : Run m) (ws : List String) : IO (Run m × Nat) := do
  let (st', evs) := m.step r.st ws
  printEvs (m.now st') evs
  let finished := evs.filterMap fun e => match e with | .result c _ => some c | _ => none
  return ({ r with st := st', live := r.live.filter (fun c => !finished.contains c) }, evs.length)

partial def settle (m : Machine) (r : Run m) (passes : Nat) : IO (Run m) := do
  let mut r := r
  let mut emitted := 0
  for c in r.live do
    if r.live.contains c then
      let (r', n) ← applyStep m r ["poll", toString c]
      r := r'
      emitted := emitted + n
  let passes := passes + 1
  if (emitted == 0 && passes ≥ 2) || passes ≥ 64 then return r else settle m r passes

def doOp (m : Machine) (r : Run m) (ws : List String) : IO (Run m) := do
  match ws with
  | "arrive" :: c :: _ =>
      let c := c.toNat?.getD 0
      if r.seen.contains c then IO.println "noop"; return r
      if r.gone then IO.println "noop"; return { r with seen := c :: r.seen }
      let (r', _) ← applyStep m { r with seen := c :: r.seen, live := insertAsc r.live c } ws
      return r'
  | "poll" :: c :: _ =>
      let c := c.toNat?.getD 0
      if r.live.contains c then let (r', _) ← applyStep m r ws; return r'
      else IO.println "noop"; return r
  | "drop" :: c :: _ =>
      let c := c.toNat?.getD 0
      if r.live.contains c then
        let (r', _) ← applyStep m r ws
        return { r' with live := r'.live.filter (· != c) }
      else IO.println "noop"; return r
  | "manual" :: "dropsvc" :: _ =>
      let (r', _) ← applyStep m r ws
      return { r' with gone := true }
  | ["settle"] => settle m r 0
  | ["dropall"] =>
      let mut r := r
      for c in r.live do
        let (r', _) ← applyStep m r ["drop", toString c]
        r := { r' with live := r'.live.filter (· != c) }
      return r
  | _ => let (r', _) ← applyStep m r ws; return r'

partial def caseLoop (h : IO.FS.Stream) (m : Machine) (r : Run m) : IO Unit := do
  let line ← h.getLine
  if line.isEmpty then return ()
  let ws := (line.trimAscii.toString.splitOn " ").filter (· ≠ "")
  if ws == ["end"] then IO.println "end"; return ()
  if ws.isEmpty then caseLoop h m r else
  let r' ← doOp m r ws
  caseLoop h m r'

partial def skipCase (h : IO.FS.Stream) : IO Unit := do
  let line ← h.getLine
  if line.isEmpty then return ()
  if line.trimAscii.toString == "end" then return () else skipCase h

partial def mainLoop (h : IO.FS.Stream) : IO Unit := do
  let line ← h.getLine
  if line.isEmpty then return ()
  let ws := (line.trimAscii.toString.splitOn " ").filter (· ≠ "")
  match ws with
  | "case" :: n :: name :: rest =>
      IO.println s!"case {n}"
      match machineOf name with
      | some m => caseLoop h m { st := m.init (parseKv rest) }
      | none => IO.println s!"#unknown-middleware {name}"; skipCase h
      mainLoop h
  | _ => mainLoop h

def main : IO Unit := do
  mainLoop (← IO.getStdin)
