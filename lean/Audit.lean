import Lean
/-!
Audit: `lake env lean --run Audit.lean TR.Props.C01` prints one JSON line per theorem declared
in that module: its name and the axioms it depends on (the same computation as `#print axioms`).
-/
open Lean

unsafe def main (args : List String) : IO UInt32 := do
  initSearchPath (← findSysroot)
  let some modStr := args.head? | do IO.eprintln "usage: Audit <module>"; return 2
  let modName := modStr.toName
  enableInitializersExecution
  let env ← importModules #[{ module := modName }] {} (loadExts := true)
  let some idx := env.getModuleIdx? modName | do IO.eprintln "module not found"; return 2
  let mut names : Array Name := #[]
  for (n, ci) in env.constants.map₁.toList do
    if env.getModuleIdxFor? n == some idx then
      match ci with
      | .thmInfo _ => if !n.isInternal then names := names.push n
      | _ => pure ()
  let ctx : Core.Context := { fileName := "<audit>", fileMap := default }
  let st : Core.State := { env := env }
  let mut out : Array String := #[]
  for n in names do
    let (axs, _) ← (collectAxioms n : CoreM _).toIO ctx st
    let axs := axs.toList.map toString
    out := out.push s!"\{\"theorem\": \"{n}\", \"axioms\": [{", ".intercalate (axs.map fun a => "\"" ++ a ++ "\"")}]}"
  for l in out.qsort (· < ·) do IO.println l
  return 0
