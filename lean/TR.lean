import TR.Model.Common
import TR.Model.Bulkhead
import TR.Lemmas.Bulkhead
import TR.Props.C01
import TR.Props.C07
