"""Core of the check driver: builds, audit, correspondence, monitors, shrinking, evidence."""
import os, sys, json, time, random, subprocess, fcntl, hashlib, importlib, shutil, re
from concurrent.futures import ThreadPoolExecutor

ROOT = os.path.dirname(os.path.dirname(os.path.abspath(__file__)))
HARNESS = os.path.join(ROOT, "harness")
LEAN = os.path.join(ROOT, "lean")
TRH = os.environ.get("VERIF_TRH") or os.path.join(HARNESS, "target", "debug", "trh")
TRDRIVER = os.path.join(LEAN, ".lake", "build", "bin", "trdriver")
WORK = os.path.join(ROOT, "work")
REPLAYS = os.path.join(ROOT, "replays")
EVIDENCE = os.environ.get("VERIF_EVIDENCE_DIR") or os.path.join(ROOT, "evidence")   # the sensitivity tools redirect it
STD_AXIOMS = {"propext", "Classical.choice", "Quot.sound"}
ENV = dict(os.environ, CARGO_NET_OFFLINE="true")
REPO = os.environ.get("VERIF_REPO", "/repo")


class Lock:
    def __init__(self, name):
        self.path = os.path.join(ROOT, name)

    def __enter__(self):
        self.f = open(self.path, "w")
        fcntl.flock(self.f, fcntl.LOCK_EX)

    def __exit__(self, *a):
        fcntl.flock(self.f, fcntl.LOCK_UN)
        self.f.close()


def sh(cmd, cwd=None, timeout=None, stdin=None, env=None):
    p = subprocess.run(cmd, cwd=cwd, env=env or ENV, stdout=subprocess.PIPE, stderr=subprocess.STDOUT,
                       timeout=timeout, stdin=stdin)
    return p.returncode, p.stdout.decode("utf-8", "replace")


# ----------------------------------------------------------------------------- builds

def build_harness():
    with Lock(".build.lock"):
        lock_src = os.path.join(REPO, "Cargo.lock")
        lock_dst = os.path.join(HARNESS, "Cargo.lock")
        if not os.path.exists(lock_dst):
            shutil.copy(lock_src, lock_dst)
        rc, out = sh(["cargo", "build", "--offline", "--quiet"], cwd=HARNESS, timeout=1800)
        if rc != 0 and "Cargo.lock" in out:
            shutil.copy(lock_src, lock_dst)
            rc, out = sh(["cargo", "build", "--offline", "--quiet"], cwd=HARNESS, timeout=1800)
        if rc == 0:
            rc2, out2 = sh([TRH, "--selftest"])
            if rc2 != 0:
                return 3, out2
        return rc, out


def build_lean(targets):
    with Lock(".build.lock"):
        return sh(["lake", "build"] + targets, cwd=LEAN, timeout=3600)


def audit(module):
    rc, out = sh(["lake", "env", "lean", "--run", "Audit.lean", module], cwd=LEAN, timeout=600)
    thms = []
    for l in out.splitlines():
        l = l.strip()
        if l.startswith("{"):
            try:
                thms.append(json.loads(l))
            except Exception:
                pass
    return rc, thms, out


FORBIDDEN = re.compile(r"\b(sorry|admit|native_decide|bv_decide|implemented_by|unsafe)\b|^axiom |maxHeartbeats 0")


def grep_forbidden(paths):
    hits = []
    for p in paths:
        if not os.path.exists(p):
            continue
        incomment = 0
        for i, line in enumerate(open(p, encoding="utf-8").read().splitlines(), 1):
            s = line
            # crude comment stripping: block comments /- … -/ and line comments --
            if incomment:
                if "-/" in s:
                    incomment = 0
                    s = s.split("-/", 1)[1]
                else:
                    continue
            if "/-" in s:
                pre, post = s.split("/-", 1)
                if "-/" in post:
                    s = pre + post.split("-/", 1)[1]
                else:
                    s = pre
                    incomment = 1
            s = s.split("--", 1)[0]
            if FORBIDDEN.search(s):
                hits.append(f"{p}:{i}: {line.strip()}")
    return hits


# ----------------------------------------------------------------------------- source fingerprint

def source_fingerprint():
    """sha256 over every .rs / Cargo.toml under /repo/crates (path + content), `#[cfg(test)]`-agnostic: any edit counts"""
    h = hashlib.sha256()
    base = os.path.join(REPO, "crates")
    for d, dirs, files in sorted(os.walk(base)):
        dirs.sort()
        if "/target" in d or "/tests" in d or "/benches" in d or "/examples" in d:
            continue
        for f in sorted(files):
            if f.endswith(".rs") or f == "Cargo.toml":
                q = os.path.join(d, f)
                h.update(os.path.relpath(q, base).encode())
                h.update(open(q, "rb").read())
    return h.hexdigest()


def baseline_fingerprint():
    p = os.path.join(ROOT, "anchors.json")
    try:
        return json.load(open(p)).get("repo_src_sha256")
    except Exception:
        return None


# ----------------------------------------------------------------------------- cases

def case_text(n, case):
    return "case %d %s\n%s\nend\n" % (n, case["header"], "\n".join(case["ops"]))


def write_cases(path, cases, start=0):
    with open(path, "w") as f:
        for i, c in enumerate(cases):
            f.write(case_text(start + i, c))


def parse_log(text):
    """-> {n: (lines up to 'end', meta '#…' lines anywhere in the case)}"""
    res = {}
    cur = None
    ended = False
    for l in text.splitlines():
        if l.startswith("case "):
            try:
                cur = int(l.split()[1])
            except Exception:
                cur = None
            if cur is not None:
                res[cur] = ([], [])
            ended = False
            continue
        if cur is None:
            continue
        if l.startswith("#"):
            res[cur][1].append((len(res[cur][0]) if not ended else -1, l))
            continue
        if l == "end":
            ended = True
            continue
        if not ended:
            res[cur][0].append(l)
    return res


# A hung case (deadlock / endless loop inside the middleware): the harness's watchdog prints the log so far and
# `#harness-hang <case> <op index> <op line>` and exits with HANG_RC when one operation made no progress for TRH_HANG_MS
# of wall time. The case is a failing case (the hang is the observation), the remaining cases are run in a new process.
HANG_RC = 4
HANG_MS_FIRST = int(os.environ.get("VERIF_HANG_MS", "5000"))   # the first hang of a batch is waited for this long
HANG_MS_NEXT = int(os.environ.get("VERIF_HANG_MS_NEXT", "1500"))  # … later ones (and shrinking a hung case) this long
DRIFT_FACTOR = int(os.environ.get("VERIF_DRIFT_FACTOR", "8"))
HANG_BUDGET_S = 45.0                                            # wall time a batch may spend waiting for hangs


def run_impl(path, annotate=None, hang_ms=None):
    env = dict(ENV, TRH_HANG_MS=str(hang_ms)) if hang_ms else None
    rc, out = sh([TRH, path] + (["--annotate", annotate] if annotate else []), timeout=3600, env=env)
    return rc, parse_log(out), out


def hung_case(part):
    for n, (_, meta) in part.items():
        if any(m.startswith("#harness-hang") for _, m in meta):
            return n
    return None


def run_model(path):
    with open(path, "rb") as f:
        rc, out = sh([TRDRIVER], stdin=f, timeout=3600)
    return rc, parse_log(out), out


def run_both(cases, tag, hang_ms=None):
    os.makedirs(WORK, exist_ok=True)
    path = os.path.join(WORK, "%s-%d.ops" % (tag, os.getpid()))
    ann = path + ".ann"
    impl, model = {}, {}
    start, waited, hang_ms = 0, 0.0, hang_ms or HANG_MS_FIRST
    while True:
        write_cases(path, cases[start:], start)
        if os.path.exists(ann):
            os.remove(ann)
        rci, part, rawi = run_impl(path, ann, hang_ms)
        # the model consumes the annotated file: same operations, `settle`/`dropall` expanded into the
        # polls/drops the harness performed, observed nondeterministic choices appended as ` @k=v`
        rcm, mpart, rawm = run_model(ann if os.path.exists(ann) else path)
        impl.update(part)
        model.update(mpart)
        n = hung_case(part) if rci == HANG_RC else None
        if n is None:
            break
        # case n hung (it has no annotated form, hence no model run); go on with the cases after it
        model.pop(n, None)
        rci = 0
        waited += hang_ms / 1000.0
        hang_ms = min(hang_ms, HANG_MS_NEXT)
        start = n + 1
        if start >= len(cases):
            break
        if waited > HANG_BUDGET_S:
            for j in range(start, len(cases)):
                impl[j] = ([], [(0, "#not-run too many hung cases in this batch")])
                model.pop(j, None)
            break
    for q in (path, ann):
        try:
            os.remove(q)
        except OSError:
            pass
    return impl, model, (rci, rcm, rawi[-2000:] if rci else "", rawm[-2000:] if rcm else "")


def first_diff(a, b):
    for i in range(max(len(a), len(b))):
        x = a[i] if i < len(a) else "<missing>"
        y = b[i] if i < len(b) else "<missing>"
        if x != y:
            return i, x, y
    return None


# ----------------------------------------------------------------------------- evaluation of one case

class Ctx:
    """what the evaluation of one case found"""
    def __init__(self):
        self.disagree = None      # (line idx, model line, impl line)
        self.monitor = None       # (monitor name, message)
        self.infra = None
        self.protocol_only = False   # the step-level model disagreed, the protocol-level model of the same code agreed


def evaluate(spec, case, impl_entry, model_entry):
    ctx = Ctx()
    if impl_entry is None:
        ctx.infra = "harness produced no output for the case"
        return ctx
    ilines, imeta = impl_entry
    hang = [m for _, m in imeta if m.startswith("#harness-hang")]
    if hang:
        # the hang is the observation: a failing case with a concrete replay, not an infrastructure error
        w = hang[0].split(None, 3)
        fn = spec.get("hang_message")
        msg = fn(case, ilines, imeta) if fn else None
        ctx.monitor = ("harness-hang", "%s — operation %s (`%s`) made no progress for the watchdog's wall-time limit: a call that never "
                       "returns (deadlock or endless loop inside the middleware). Log of the case up to the hang: %s" % (
                           msg or "the harness hung", w[2] if len(w) > 2 else "?", w[3] if len(w) > 3 else "?", " | ".join(ilines[-12:])))
        return ctx
    if any(m.startswith("#not-run") for _, m in imeta):
        ctx.infra = "not run: " + ";".join(m for _, m in imeta)
        return ctx
    if any(m.startswith("#harness-panic") or m.startswith("#unknown-middleware") for _, m in imeta):
        ctx.infra = "harness: " + ";".join(m for _, m in imeta if not m.startswith("#fp") and not m.startswith("#drop"))
    pinned = None
    for name, fn in spec.get("monitors", []):
        try:
            msg = fn(case, ilines, imeta)
        except Exception as e:  # a monitor crash is an infrastructure problem, reported as such
            msg = None
            ctx.infra = "monitor %s crashed: %r" % (name, e)
        if msg and msg.startswith("PINNED:"):
            # an oracle that pins a choice of the model (e.g. the exact RNG draw scheme) rather than a clause of the
            # property: its failure is a broken correspondence, not a failing input
            pinned = pinned or (name, msg)
            continue
        if msg:
            ctx.monitor = (name, msg)
            break
    if pinned and not ctx.monitor:
        ctx.disagree = (0, "<reference oracle %s>" % pinned[0], pinned[1][:300])
    applies = spec.get("model_applies")
    if applies is not None and not applies(case):
        # a case finer than the step model's granularity: the monitors decide it — and the protocol-level model, if any
        alt = spec.get("canon_protocol")
        if alt is not None and model_entry is not None:
            d = first_diff(alt(model_entry[0]), alt(ilines))
            if d:
                ctx.disagree = d
    elif model_entry is None:
        ctx.disagree = (0, "<model produced no output>", ilines[0] if ilines else "")
    else:
        mlines, _ = model_entry
        pre = spec.get("canon")
        a, b = (mlines, ilines) if pre is None else (pre(mlines), pre(ilines))
        d = first_diff(a, b)
        alt = spec.get("canon_protocol")
        if d and alt is not None:
            # A second, coarser model of the same code whose theorems also give the property (e.g. the protocol-level
            # trace checker of C08): when the step-by-step transcription no longer corresponds but the coarser model
            # does on this case, the property is still shown for it — recorded, not reported.
            a2, b2 = alt(mlines), alt(ilines)
            if a2 and first_diff(a2, b2) is None:
                ctx.protocol_only = True
                d = None
        if alt is not None and not d and not ctx.protocol_only:
            a2, b2 = alt(mlines), alt(ilines)
            d = first_diff(a2, b2)
        if d:
            ctx.disagree = d
    return ctx


def call_transitions(spec, case, ilines, meta):
    fn = spec.get("transitions")
    if fn is None:
        return []
    try:
        import inspect
        if len(inspect.signature(fn).parameters) >= 3:
            return fn(case, ilines, meta)
    except (TypeError, ValueError):
        pass
    return fn(case, ilines)


def eval_single(spec, case, hang_ms=None):
    impl, model, _ = run_both([case], "one", hang_ms)
    return evaluate(spec, case, impl.get(0), model.get(0))


def shrink(spec, case, pred, budget=400, hang_ms=None):
    """delta debugging on op lines; pred(ctx) says whether the failure of interest persists"""
    ops = list(case["ops"])
    n = 2
    evals = 0
    while len(ops) >= 2 and evals < budget:
        chunk = max(1, len(ops) // n)
        reduced = False
        i = 0
        while i < len(ops) and evals < budget:
            cand = ops[:i] + ops[i + chunk:]
            evals += 1
            ctx = eval_single(spec, {"header": case["header"], "ops": cand}, hang_ms)
            if pred(ctx):
                ops = cand
                reduced = True
                n = max(n - 1, 2)
            else:
                i += chunk
        if not reduced:
            if chunk == 1:
                break
            n = min(len(ops), n * 2)
    return {"header": case["header"], "ops": ops}


# ----------------------------------------------------------------------------- known findings

def load_known():
    p = os.path.join(ROOT, "known_findings.json")
    if not os.path.exists(p):
        return []
    return json.load(open(p)).get("findings", [])


def match_known(prop, case, what):
    for k in load_known():
        if k.get("property") != prop or k.get("status") != "known":
            continue
        m = k.get("match", {})
        if "monitor" in m and m["monitor"] != what:
            continue
        if "header_contains" in m and not all(x in case["header"] for x in m["header_contains"]):
            continue
        if "ops_contain" in m and not all(any(x in o for o in case["ops"]) for x in m["ops_contain"]):
            continue
        return k
    return None


# ----------------------------------------------------------------------------- registry

def load_spec(prop):
    from gen import registry
    return registry.get(prop)


def corpus_cases(spec):
    d = os.path.join(ROOT, "corpus", spec["group"])
    cases = []
    if os.path.isdir(d):
        for fn in sorted(os.listdir(d)):
            if not fn.endswith(".ops"):
                continue
            cur = None
            for l in open(os.path.join(d, fn)).read().splitlines():
                l = l.strip()
                if not l or l.startswith("#"):
                    continue
                if l.startswith("case "):
                    cur = {"header": " ".join(l.split()[2:]), "ops": [], "corpus": fn}
                elif l == "end":
                    if cur:
                        cases.append(cur)
                    cur = None
                elif cur is not None:
                    cur["ops"].append(l)
    want = spec.get("corpus_filter")
    if want:
        cases = [c for c in cases if want(c)]
    return cases


# ----------------------------------------------------------------------------- main flow

def write_replay(prop, seed, idx, payload):
    os.makedirs(REPLAYS, exist_ok=True)
    p = os.path.join(REPLAYS, "%s-%d-%s.json" % (prop, seed, idx))
    json.dump(payload, open(p, "w"), indent=1)
    return p


def run_check(prop, tier, seed, replay, ncases, no_build=False):
    t0 = time.time()
    spec = load_spec(prop)
    if spec is None:
        print("unknown property", prop)
        return 2
    if "custom" in spec:
        return spec["custom"](prop, tier, seed, replay, ncases)
    violations = []      # (kind, replay path, tail)
    known_hits = []
    notes = []
    build_fail = None

    # 1. harness
    if not no_build:
        rc, out = build_harness()
        if rc == 3:
            print("INFRA: virtual clock self-test failed:\n" + out)
            return 2
        if rc != 0:
            build_fail = ("harness", "the correspondence harness does not build against /repo's tree", out[-3000:])
    # 2. lean
    proof_ok = True
    lean_out = ""
    if not no_build:
        # the property module, every model/lemma/mutant module the spec names (a refuted-mutant module is not imported
        # by the property module, so it is named here to be re-checked on every run), and the model driver
        rc, lean_out = build_lean([spec["module"]] + [m for m in spec.get("model_modules", []) if m != spec["module"]] + ["trdriver"])
        if rc != 0:
            proof_ok = False
    # 3. audit
    thms = []
    bad_axioms = []
    forbidden = []
    if proof_ok:
        rc, thms, aout = audit(spec["module"])
        if rc != 0 or not thms:
            proof_ok = False
            lean_out += "\naudit failed:\n" + aout[-2000:]
        for t in thms:
            extra = [a for a in t["axioms"] if a not in STD_AXIOMS]
            if extra:
                bad_axioms.append((t["theorem"], extra))
        files = [os.path.join(LEAN, m.replace(".", "/") + ".lean") for m in [spec["module"]] + spec.get("lean_files", [])]
        forbidden = grep_forbidden(files)
    obligations = len(thms)
    discharged = len([t for t in thms if all(a in STD_AXIOMS for a in t["axioms"])]) if proof_ok else 0
    if not proof_ok:
        notes.append("proof obligations no longer check: lake build %s failed" % spec["module"])

    # 4. correspondence + monitors
    rng = random.Random((seed * 1000003) ^ int(hashlib.sha1(prop.encode()).hexdigest()[:8], 16))
    quick_n, thorough_n = spec.get("sizes", (400, 20000))
    n = ncases if ncases is not None else (quick_n if tier == "quick" else thorough_n)
    if (not proof_ok or build_fail) and tier == "quick":
        n = max(n, min(thorough_n, 5 * quick_n))     # §4: search harder for a failing input
    # the crates' source differs from the tree the models were last validated against (anchors.json): the tie between
    # model and code has to be re-established on this run, so the quick tier samples as the deep tier's little brother
    fp, fp0 = source_fingerprint(), baseline_fingerprint()
    drift = fp0 is not None and fp != fp0
    if drift and tier == "quick" and ncases is None and not replay:
        n = max(n, min(thorough_n, spec.get("drift_factor", DRIFT_FACTOR) * quick_n))
        notes.append("source of /repo/crates differs from the validated baseline (anchors.json): %d generated cases instead of %d" % (n, quick_n))
    cases = []
    if replay:
        r = json.load(open(replay))
        cases = [r["case"]] if "case" in r else []
        n = 0
    else:
        cases = corpus_cases(spec)
    ncorpus = len(cases)
    gen = spec["gen"]
    for i in range(n):
        cases.append(gen(rng, tier))
    stats = {"evaluations": 0, "agree": 0, "disagreements": 0, "monitor_failures": 0, "infra": 0, "protocol_only": 0}
    hist = {}
    traces = set()
    nontrivial = set()
    samples = []
    failing = []   # (case, ctx)
    if build_fail is None and os.path.exists(TRH) and os.path.exists(TRDRIVER):
        CH = 2000
        chunks = [cases[i:i + CH] for i in range(0, len(cases), CH)]

        def work(ix):
            return run_both(chunks[ix], "c%d" % ix)
        with ThreadPoolExecutor(max_workers=min(12, max(1, len(chunks)))) as ex:
            results = list(ex.map(work, range(len(chunks))))
        for ix, (impl, model, rcs) in enumerate(results):
            if rcs[0] or rcs[1]:
                notes.append("runner exit codes impl=%s model=%s %s %s" % rcs)
            for j, case in enumerate(chunks[ix]):
                ctx = evaluate(spec, case, impl.get(j), model.get(j))
                stats["evaluations"] += 1
                if ctx.infra:
                    stats["infra"] += 1
                    notes.append(ctx.infra)
                if ctx.protocol_only:
                    stats["protocol_only"] += 1
                if ctx.disagree:
                    stats["disagreements"] += 1
                if ctx.monitor:
                    stats["monitor_failures"] += 1
                if ctx.disagree or ctx.monitor:
                    failing.append((case, ctx))
                else:
                    stats["agree"] += 1
                ilines = impl.get(j, ([], []))[0]
                h = hashlib.sha1(("\n".join(ilines) + case["header"]).encode()).hexdigest()
                traces.add(h)
                tags = call_transitions(spec, case, ilines, impl.get(j, ([], []))[1])
                for tg in tags:
                    hist[tg] = hist.get(tg, 0) + 1
                if spec["nontrivial"](case, ilines, tags):
                    nontrivial.add(h)
                if len(samples) < 3 and j % 97 == 3:
                    samples.append({"case": case_text(j, case).splitlines(), "impl_log": ilines[:40]})
    elif build_fail is None:
        build_fail = ("binaries", "trh or trdriver missing", "")

    # 5. classify failures (cases on which an implementation-side monitor fired first: they carry a failing input)
    failing.sort(key=lambda cf: 0 if cf[1].monitor else 1)
    idx = 0
    reported_kinds = set()
    for case, ctx in failing[:50]:
        what = ctx.monitor[0] if ctx.monitor else "correspondence"
        k = match_known(prop, case, what)
        if k:
            known_hits.append(k)
            if ctx.monitor and ctx.disagree and "correspondence" not in reported_kinds:
                # the known finding explains the monitor, not a disagreement between model and code
                reported_kinds.add("correspondence")
                d = ctx.disagree
                payload = {"property": prop, "kind": "correspondence",
                           "broken": "%s: line %d model %r impl %r" % (spec["group"], d[0], d[1], d[2]),
                           "case": case, "seed": seed,
                           "note": "model and implementation disagree on a case that also matches a known finding"}
                violations.append(("correspondence", write_replay(prop, seed, idx, payload), " no-failing-input-found"))
                idx += 1
            continue
        if what in reported_kinds:
            continue
        reported_kinds.add(what)
        if ctx.monitor and what == "harness-hang":
            # every candidate that still hangs costs the watchdog's limit: few evaluations, short limit; the result is
            # confirmed with the full limit (else the original case is reported)
            small = shrink(spec, case, lambda c: c.monitor is not None and c.monitor[0] == what, budget=40, hang_ms=HANG_MS_NEXT)
            ctx2 = eval_single(spec, small)
            if not (ctx2.monitor and ctx2.monitor[0] == what):
                small, ctx2 = case, ctx
        elif ctx.monitor:
            small = shrink(spec, case, lambda c: c.monitor is not None and c.monitor[0] == what)
            ctx2 = eval_single(spec, small)
        if ctx.monitor:
            payload = {"property": prop, "kind": "monitor", "monitor": what,
                       "message": (ctx2.monitor or ctx.monitor)[1], "case": small,
                       "original_case": case, "seed": seed,
                       "model_vs_impl": ctx2.disagree and {"line": ctx2.disagree[0], "model": ctx2.disagree[1], "impl": ctx2.disagree[2]},
                       "replay": "./check %s --replay <this file>" % prop}
            p = write_replay(prop, seed, idx, payload)
            violations.append(("monitor", p, ""))
        else:
            small = shrink(spec, case, lambda c: c.disagree is not None)
            ctx2 = eval_single(spec, small)
            d = ctx2.disagree or ctx.disagree
            payload = {"property": prop, "kind": "correspondence",
                       "broken": "%s: line %d model %r impl %r" % (spec["group"], d[0], d[1], d[2]),
                       "case": small, "original_case": case, "seed": seed,
                       "note": "model and implementation disagree; no implementation-side monitor fired on this case",
                       "replay": "./check %s --replay <this file>" % prop}
            p = write_replay(prop, seed, idx, payload)
            violations.append(("correspondence", p, " no-failing-input-found"))
        idx += 1
    have_concrete = any(v[0] == "monitor" for v in violations)
    if not proof_ok and not have_concrete:
        payload = {"property": prop, "kind": "proof", "broken": "lake build %s" % spec["module"],
                   "theorem_or_module": spec["module"], "lean_output": lean_out[-4000:],
                   "searched": stats}
        violations.append(("proof", write_replay(prop, seed, "proof", payload), " no-failing-input-found"))
    if bad_axioms or forbidden:
        payload = {"property": prop, "kind": "audit", "bad_axioms": bad_axioms, "forbidden": forbidden}
        violations.append(("audit", write_replay(prop, seed, "audit", payload), " no-failing-input-found"))
    if build_fail and not have_concrete:
        payload = {"property": prop, "kind": "correspondence", "broken": build_fail[1], "output": build_fail[2]}
        violations.append(("harness-build", write_replay(prop, seed, "build", payload), " no-failing-input-found"))
    if have_concrete:
        # a concrete failing input subsumes the weaker reports
        violations = [v for v in violations if v[0] == "monitor"]

    # 6. thorough extras
    checker_runs = []
    if tier == "thorough" and proof_ok:
        for m in [spec["module"]] + spec.get("model_modules", []):
            rc, out = sh(["lake", "env", "leanchecker", m], cwd=LEAN, timeout=3600)
            checker_runs.append({"module": m, "rc": rc})
            if rc != 0:
                payload = {"property": prop, "kind": "leanchecker", "module": m, "output": out[-3000:]}
                violations.append(("leanchecker", write_replay(prop, seed, "leanchecker", payload), " no-failing-input-found"))

    # 7. evidence
    wall = time.time() - t0
    ev = {
        "property_id": prop, "tier": tier, "seed": seed, "level": "proof",
        "coverage": {
            "obligations": obligations, "discharged": discharged,
            "checker_cmd": "cd /verif/lean && lake build %s && lake env lean --run Audit.lean %s%s" % (
                spec["module"], spec["module"], " && lake env leanchecker %s" % spec["module"] if tier == "thorough" else ""),
            "trusted_base": ["Lean 4.33 kernel"] + sorted({a for t in thms for a in t["axioms"]}) + spec.get("trusted", []),
            "theorems": thms,
            "evaluations": stats["evaluations"],
            "distinct_nontrivial": len(nontrivial),
            "distinct_traces": len(traces),
            "rule": spec.get("rule", ""),
            "samples": samples or [{"case": case_text(0, c).splitlines()} for c in cases[:1]],
            "traces_validated_against_impl": stats["agree"],
            "disagreements_checked": stats["evaluations"],
            "disagreements": stats["disagreements"],
            "agree_at_protocol_level_only": stats["protocol_only"],
            "monitor_failures": stats["monitor_failures"],
            "corpus_cases": ncorpus,
            "transition_histogram": hist,
            "uncovered_transitions": [t for t in spec.get("all_transitions", []) if hist.get(t, 0) == 0],
            "leanchecker": checker_runs,
            "explanation": spec.get("explanation", ""),
            "source_fingerprint": {"repo_crates_sha256": fp, "validated_baseline": fp0, "matches_baseline": not drift},
        },
        "assumptions": spec.get("assumptions", []),
        "notes": notes[:20],
        "known_findings_hit": [k.get("text", "") for k in known_hits[:10]],
        "wall_s": round(wall, 2),
        "violations": len(violations),
    }
    os.makedirs(EVIDENCE, exist_ok=True)
    json.dump(ev, open(os.path.join(EVIDENCE, prop + ".json"), "w"), indent=1)

    seen_known = set()
    for k in known_hits:
        if k.get("text") not in seen_known:
            seen_known.add(k.get("text"))
            print("KNOWN-FINDING: property=%s %s" % (prop, k.get("text", "")))
    for kind, p, tail in violations:
        print("VIOLATION property=%s replay=%s%s" % (prop, p, tail))
    if stats["protocol_only"]:
        print("NOTE property=%s: on %d of %d cases the step-by-step model no longer corresponds to the code but the protocol-level "
              "model does; the property is shown through the protocol-level theorems (see evidence)" % (prop, stats["protocol_only"], stats["evaluations"]))
        notes.append("step-level transcription does not correspond on %d cases; protocol-level model corresponds on all of them" % stats["protocol_only"])
    print("%s %s: theorems %d/%d, cases %d (agree %d, disagree %d, monitor %d), nontrivial-distinct %d, %.1fs" % (
        prop, tier, discharged, obligations, stats["evaluations"], stats["agree"], stats["disagreements"],
        stats["monitor_failures"], len(nontrivial), wall))
    return 1 if violations else 0
