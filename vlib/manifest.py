#!/usr/bin/env python3
"""Regenerates MANIFEST.json from the registry (run after adding a property)."""
import json, os, sys
ROOT = os.path.dirname(os.path.dirname(os.path.abspath(__file__)))
sys.path.insert(0, ROOT)
from gen import registry

ALL = ["C%02d" % i for i in range(1, 21)]


def main():
    checks = []
    na = []
    for p in ALL:
        spec = registry.get(p)
        if spec is None:
            na.append({"property_id": p, "reason": registry.NOT_YET.get(p, "not yet claimed: model and correspondence for this property are still being built (see DESIGN.md §10)")})
            continue
        checks.append({
            "property_id": p,
            "quick_cmd": "./check %s --tier quick" % p,
            "thorough_cmd": "./check %s --tier thorough" % p,
            "evidence_file": "/verif/evidence/%s.json" % p,
            "replay_cmd_template": "./check %s --replay {path}" % p,
            "engine": "lean-proof+correspondence",
            "level_claimed": {
                "category": "proof",
                "text": spec.get("level_text", ""),
                "design_ref": spec.get("design_ref", "DESIGN.md §8 " + p),
            },
            "level_note": spec.get("level_note", ""),
            "technique": spec.get("technique", "Lean 4 theorems over an executable model (induction over all operation sequences) + differential correspondence check of model vs real code"),
        })
    hooks = json.load(open(os.path.join(ROOT, "hooks.json")))
    m = {
        "version": 1,
        "setup_cmd": "./setup.sh",
        "hooks": hooks,
        "engines": [{
            "name": "lean-proof+correspondence", "path": "/verif/check",
            "serves_properties": [c["property_id"] for c in checks],
            "kind_free_text": "Lean 4 machine-checked theorems over hand-written executable models (lean/TR); models tied to /repo by a differential correspondence check: Rust harness (harness/) drives the real middleware under a virtual clock and a manual poller, the compiled Lean driver runs the same operation file, event logs are diffed; implementation-side monitors search for concrete failing inputs",
        }],
        "checks": checks,
        "not_applicable": na,
        "notes": "See DESIGN.md. Proof = Lean kernel; correspondence = sampled. known_findings.json lists genuine defects (fixed ones suppress nothing).",
    }
    json.dump(m, open(os.path.join(ROOT, "MANIFEST.json"), "w"), indent=1)
    print("MANIFEST.json: %d checks, %d not_applicable" % (len(checks), len(na)))


if __name__ == "__main__":
    main()
