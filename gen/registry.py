"""property id -> spec (generator, monitors, Lean module, documentation strings)"""
import importlib

GROUPS = {
    "C20": "stack",
    "C13": "adaptive",
    "C08": "budget",
    "C06": "timelimiter",
    "C19": "chaos",
    "C17": "fallback",
    "C11": "coalesce",
    "C14": "backoff",
    "C16": "reconnect",
    "C12": "hedge",
    "C15": "ratelimiter",
    "C02": "ratelimiter",
    "C05": "retry",
    "C18": "health",
    "C10": "cache",
    "C01": "bulkhead", "C07": "bulkhead",
    "C03": "circuit", "C04": "circuit", "C09": "circuit",
}


NOT_YET = {}


def get(prop):
    g = GROUPS.get(prop)
    if g is None:
        return None
    mod = importlib.import_module("gen." + g)
    return mod.SPECS.get(prop)
