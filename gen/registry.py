"""property id -> spec (generator, monitors, Lean module, documentation strings)"""
import importlib

GROUPS = {
    "C01": "bulkhead", "C07": "bulkhead",
    "C03": "circuit", "C04": "circuit", "C09": "circuit",
}


NOT_YET = {}


def get(prop):
    g = GROUPS.get(prop)
    if g is None:
        return None
    mod = importlib.import_module("gen." + g)
    return mod.SPECS.get(prop)
