"""C08 — retry budgets under the baton scheduler: generator, monitors"""
import itertools
from gen.util import kvs, tparse


def mk_case(cfg, progs, sched):
    header = "budget " + " ".join("%s=%s" % kv for kv in cfg.items())
    ops = ["manual thread t=%d prog=%s" % (i, p) for i, p in enumerate(progs)]
    ops.append("manual sched s=%s" % ",".join(str(x) for x in sched))
    return {"header": header, "ops": ops}


def steps_upper(cfg, prog):
    cfg = effective(cfg)
    per = {"W": 3, "D": 4} if cfg["kind"] == "aimd" else {"W": 2, "D": 1}
    return sum(per[c] for c in prog)


def effective(cfg):
    """the configuration a header stands for — for budgets built through RetryBudgetBuilder (`chain=`) the monitors work
    it out themselves: setters in order, last of a kind wins, unnamed settings keep the documented defaults"""
    if "chain" not in cfg:
        return cfg
    items = [x for x in cfg["chain"].split(".") if x and x != "-"]
    if cfg.get("kind") == "aimd":
        e = {"kind": "aimd", "min": 10, "max": 1000, "dep": 1, "wd": 1, "fnum": 1, "fden": 2}
        key = {"n": "min", "x": "max", "d": "dep", "w": "wd"}
        for it in items:
            if it[0] in key:
                e[key[it[0]]] = int(it[1:])
            elif it[0] == "f":
                e["fnum"], e["fden"] = (int(x) for x in it[1:].split("_"))
        return {k: str(v) for k, v in e.items()}
    mx, ini = 100, None
    for it in items:
        if it[0] == "m":
            mx = int(it[1:])
        elif it[0] == "i":
            ini = int(it[1:])
    return {"kind": "token", "max": str(mx), "initial": str(mx if ini is None else ini)}


def gen_chain(rng, cfg):
    """the same configuration expressed as a builder chain: setters in a random order, some given twice (the last one
    counts), some left out where the default is what is wanted"""
    if cfg["kind"] == "token":
        items = ["m%d" % cfg["max"], "i%d" % cfg["initial"]]
        if rng.random() < 0.3:
            items.append("i%d" % rng.randint(0, cfg["max"] + 3))       # overridden below or by order
            items.append("i%d" % cfg["initial"])
        if rng.random() < 0.3:
            items.append("r%d" % rng.randint(1, 50))
        if rng.random() < 0.25:
            items = [x for x in items if not x.startswith("i")]         # initial = max_tokens at build()
        elif rng.random() < 0.35:
            # the initial balance is set while it EQUALS the capacity then in force (the default 100, or an earlier
            # max_tokens), and the capacity is raised afterwards: the bucket is funded with the initial balance given
            a = rng.choice([100, 100, 2, 3])
            b = a + rng.choice([1, 5, 400])
            pre = [] if a == 100 else ["m%d" % a]
            return {"kind": "token", "chain": ".".join(pre + ["i%d" % a, "m%d" % b])}
    else:
        items = ["n%d" % cfg["min"], "x%d" % cfg["max"], "d%d" % cfg["dep"], "w%d" % cfg["wd"], "f%d_%d" % (cfg["fnum"], cfg["fden"])]
        if rng.random() < 0.3:
            items.append("x%d" % rng.choice([2, 5, 50]))
            items.append("x%d" % cfg["max"])
    if rng.random() < 0.7:
        rng.shuffle(items)
        # a duplicated setter: keep the intended value last
        for k in ("i", "x"):
            vals = [x for x in items if x.startswith(k)]
            if len(vals) > 1:
                want = "i%d" % cfg["initial"] if k == "i" else "x%d" % cfg["max"]
                items = [x for x in items if x != want] + [want]
    out = {"kind": cfg["kind"], "chain": ".".join(items) or "-"}
    if "inner" in cfg:
        out["inner"] = cfg["inner"]
    return out


def gen_cfg(rng):
    if rng.random() < 0.5:
        mx = rng.choice([1, 2, 3, 5])
        # 12 %: an initial balance above the maximum (the constructor clamps it to the burst capacity)
        ini = rng.randint(0, mx) if rng.random() < 0.88 else mx + rng.randint(1, 3)
        return {"kind": "token", "max": mx, "initial": ini}
    mx = rng.choice([2, 3, 4, 8, 10])
    f = rng.choice([(1, 2), (1, 2), (3, 4), (1, 4), (1, 1), (0, 1)])
    mn = rng.randint(0, mx) if rng.random() < 0.93 else mx + rng.randint(1, 6)   # 7 %: inverted range (rejected at construction)
    return {"kind": "aimd", "min": mn, "max": mx, "dep": rng.choice([1, 1, 2, 3]),
            "wd": rng.choice([1, 1, 2, 3]), "fnum": f[0], "fden": f[1]}


def gen_aimd_regrow(rng, tier):
    """AIMD: one thread drains the budget and is refused (the limit shrinks), then several threads deposit at the same
    time while the limit is just below its maximum: the limit's regrowth and the balance cap race"""
    mx = rng.choice([2, 2, 3, 4])
    wd = rng.choice([1, 1, 2])
    f = rng.choice([(1, 2), (3, 4), (1, 4), (0, 1)])
    cfg = {"kind": "aimd", "min": rng.randint(0, mx - 1), "max": mx, "dep": rng.choice([1, 1, 2]), "wd": wd, "fnum": f[0], "fden": f[1]}
    drain = "W" * (mx // wd + rng.randint(1, 2)) + "D" * rng.randint(0, mx)
    nd = rng.choice([2, 2, 3])
    progs = [drain] + ["D" * rng.randint(1, 2) + rng.choice(["", "W"]) for _ in range(nd)]
    sched = [0] * steps_upper(cfg, drain)
    rest = sum(steps_upper(cfg, p) for p in progs[1:])
    while len(sched) < steps_upper(cfg, drain) + rest + 2:
        sched += [rng.randint(1, nd)] * rng.choice([1, 1, 1, 2])
    if rng.random() < 0.3:
        cfg = dict(cfg, inner=1)
    return mk_case(cfg, progs, sched)


def gen_drain(rng, tier):
    """a large bucket drained by one long run of withdrawals (fractions of a token left behind by each grant would
    add up to whole extra retries only after dozens of grants), a second thread depositing now and then"""
    mx = rng.choice([45, 64, 100, 120])
    if rng.random() < 0.6:
        cfg = {"kind": "token", "max": mx, "initial": rng.choice([mx, mx, mx - 3])}
    else:
        cfg = {"kind": "aimd", "min": rng.randint(0, 3), "max": mx, "dep": rng.choice([1, 2, 3]), "wd": rng.choice([1, 2, 3]), "fnum": 1, "fden": 2}
    nd = rng.randint(0, 4)
    progs = ["W" * (mx + rng.randint(2, 8)), "D" * nd + "W" * rng.randint(0, 3)]
    sched = []
    for _ in range(rng.randint(0, 12)):
        sched += [rng.randint(0, 1)] * rng.choice([1, 2, 5, 20])
    return mk_case(cfg, progs, sched)


def gen(rng, tier):
    if rng.random() < 0.04:
        return gen_drain(rng, tier)
    if rng.random() < 0.15:
        return gen_aimd_regrow(rng, tier)
    cfg = gen_cfg(rng)
    nt = rng.choice([2, 2, 3, 3, 4])
    progs = ["".join(rng.choice("WWD") for _ in range(rng.randint(1, 4))) for _ in range(nt)]
    total = sum(steps_upper(cfg, p) for p in progs)
    n = rng.randint(0, int(total * 1.3) + 2)
    # schedules with long same-thread runs and tight alternations
    sched = []
    while len(sched) < n:
        t = rng.randrange(nt + (1 if rng.random() < 0.05 else 0))
        sched += [t] * rng.choice([1, 1, 1, 2, 3])
    if rng.random() < 0.3:
        # finer than the modelled step: the scheduler may also preempt a thread inside `fetch_update`, between its
        # closure and the compare-exchange (monitor-only search: closures with side effects, stale reads)
        cfg = dict(cfg, inner=1)
        n = rng.randint(0, int(total * 2.2) + 2)
        while len(sched) < n:
            sched += [rng.randrange(nt)] * rng.choice([1, 1, 2])
    if rng.random() < 0.15:
        cfg = gen_chain(rng, cfg)
    return mk_case(cfg, progs, sched[:n])


def model_applies(case):
    return "inner=1" not in case["header"]


def canon_step(lines):
    """what the step-by-step transcription claims: turns, results, balance, limit"""
    return [l for l in lines if " trace-" not in l]


def canon_protocol(lines):
    """what the protocol-level model claims: the verdict of its checker on the observed value-level trace"""
    return [l for l in lines if " trace-" in l]


_EXH = None


def exhaustive_cases():
    """all schedules of 2 threads x 2 ops (token bucket) up to the length that can matter"""
    global _EXH
    if _EXH is None:
        out = []
        for cfg in ({"kind": "token", "max": 2, "initial": 1}, {"kind": "token", "max": 1, "initial": 1}):
            for p0, p1 in itertools.product(["WD", "DW", "WW", "DD"], repeat=2):
                total = steps_upper(cfg, p0) + steps_upper(cfg, p1)
                for sched in itertools.product([0, 1], repeat=min(total, 7)):
                    out.append(mk_case(cfg, [p0, p1], list(sched)))
        _EXH = out
    return _EXH


_exh_pos = [0]


def gen_thorough(rng, tier):
    if tier == "thorough" and _exh_pos[0] < len(exhaustive_cases()):
        c = exhaustive_cases()[_exh_pos[0]]
        _exh_pos[0] += 1
        return c
    return gen(rng, tier)


def parse_run(case, lines):
    cfg = effective(kvs(case["header"]))
    outs = {}
    bal = lim = None
    for l in lines:
        _, w = tparse(l)
        if not w:
            continue
        if w[0] == "th":
            outs[int(w[1])] = w[2].split(",") if len(w) > 2 and w[2] else []
        elif w[0] == "balance":
            bal = int(w[1])
        elif w[0] == "limit":
            lim = int(w[1])
    return cfg, outs, bal, lim


def mon_conservation(case, lines, meta):
    cfg, outs, bal, lim = parse_run(case, lines)
    if bal is None:
        return None
    granted = sum(o.count("1") for o in outs.values())
    deposits = sum(o.count("-") for o in outs.values())
    if any("panic" in o for o in outs.values()):
        return "a budget thread panicked"
    if cfg.get("kind") == "aimd":
        cost, amount, initial, mx = int(cfg["wd"]), int(cfg["dep"]), int(cfg["max"]), int(cfg["max"])
        mn = int(cfg["min"])
        if mn > mx and bal is not None and bal <= mx:
            # the modelled code rejects an inverted range at construction; a budget that accepts it is outside the model
            return "PINNED: an AIMD budget with min_budget %d > max_budget %d was constructed and used (balance %d within its maximum)" % (mn, mx, bal)
        if lim is not None and not (min(mn, mx) <= lim <= mx) and mn <= mx:
            return "AIMD limit %d outside [%d,%d]" % (lim, mn, mx)
    else:
        cost, amount, initial, mx = 1, 1, int(cfg["initial"]), int(cfg["max"])
        if initial > mx and bal > mx:
            return "token bucket built with initial_tokens %d above max_tokens %d holds %d tokens: the balance exceeds its configured maximum" % (initial, mx, bal)
        initial = min(initial, mx)      # what the bucket was funded with: never more than its burst capacity
    if granted * cost + bal > initial + deposits * amount:
        return "granted %d x cost %d + balance %d > initial %d + deposits %d x amount %d" % (granted, cost, bal, initial, deposits, amount)
    if bal > mx:
        return "balance %d exceeds its maximum %d" % (bal, mx)
    return None


def mon_linearizable(case, lines, meta):
    """token bucket: some one-at-a-time order of the threads' operations yields the same results and balance"""
    cfg, outs, bal, lim = parse_run(case, lines)
    if bal is None or cfg.get("kind") != "token":
        return None
    progs = {}
    for o in case["ops"]:
        w = o.split()
        if len(w) > 1 and w[1] == "thread":
            k = kvs(o)
            progs[int(k["t"])] = k.get("prog", "")
    seqs = []
    for t in sorted(progs):
        res = outs.get(t, [])
        if len(res) != len(progs[t]):
            return "thread %d: %d results for %d operations" % (t, len(res), len(progs[t]))
        seqs.append(list(zip(progs[t], res)))
    mx, init = int(cfg["max"]), min(int(cfg["initial"]), int(cfg["max"]))
    seen = set()

    def dfs(pos, tokens):
        key = (pos, tokens)
        if key in seen:
            return False
        seen.add(key)
        if all(pos[i] == len(seqs[i]) for i in range(len(seqs))):
            return tokens == bal
        for i in range(len(seqs)):
            if pos[i] < len(seqs[i]):
                op, r = seqs[i][pos[i]]
                if op == "W":
                    ok = tokens >= 1
                    if ("1" if ok else "0") != r:
                        continue
                    nt = tokens - 1 if ok else tokens
                else:
                    nt = min(tokens + 1, mx)
                np = pos[:i] + (pos[i] + 1,) + pos[i + 1:]
                if dfs(np, nt):
                    return True
        return False
    if not dfs(tuple(0 for _ in seqs), init):
        return "no one-at-a-time execution of the threads' operations gives results %s and balance %d" % (outs, bal)
    return None


def transitions(case, lines):
    tags = []
    cfg = kvs(case["header"])
    tags.append("kind-" + cfg.get("kind", "token"))
    if "chain" in cfg:
        tags.append("built-through-builder")
    if cfg.get("inner") == "1":
        tags.append("preempted-inside-fetch-update")
    for l in lines:
        _, w = tparse(l)
        if w and w[0] == "skip":
            tags.append("skip")
        if w and w[0] == "th" and len(w) > 2:
            for r in w[2].split(","):
                tags.append({"1": "withdraw-granted", "0": "withdraw-refused", "-": "deposit"}.get(r, "other"))
    return tags


def nontrivial(case, lines, tags):
    return "withdraw-granted" in tags and ("withdraw-refused" in tags or "deposit" in tags)


SPECS = {
    "C08": {
        "group": "budget", "module": "TR.Props.C08", "gen": gen_thorough,
        "monitors": [("c08-conservation", mon_conservation), ("c08-linearizable", mon_linearizable)],
        "transitions": transitions, "nontrivial": nontrivial, "model_applies": model_applies, "canon": canon_step, "canon_protocol": canon_protocol,
        "all_transitions": ["kind-token", "kind-aimd", "withdraw-granted", "withdraw-refused", "deposit", "skip", "preempted-inside-fetch-update", "built-through-builder"],
        "model_modules": ["TR.Model.Budget", "TR.Lemmas.Budget", "TR.Lemmas.BudgetCons", "TR.Model.BudgetTrace", "TR.Lemmas.BudgetTrace", "TR.Lemmas.BudgetTraceOuts", "TR.Mutants.DepositLoadStore"],
        "lean_files": ["TR.Model.Budget", "TR.Lemmas.Budget", "TR.Lemmas.BudgetCons", "TR.Model.BudgetTrace", "TR.Lemmas.BudgetTrace", "TR.Lemmas.BudgetTraceOuts"],
        "sizes": (500, 20000),
        "rule": "2..4 OS threads running programs of 1..4 try_withdraw/deposit calls on one real budget (token bucket or AIMD) with hooked "
                "atomics; the baton scheduler grants one atomic operation per schedule entry; random schedules (thorough tier first enumerates "
                "every schedule of 2 threads x 2 operations for the token bucket); model and code must agree on the turn trace, every "
                "try_withdraw result, the final balance and limit; non-trivial = a granted withdrawal plus a refusal or a deposit",
        "trusted": ["30% of the schedules also preempt inside fetch_update (between closure and compare-exchange): for those the step model does not apply and only the conservation / cap / linearizability monitors decide (search, not proof; the model treats a fetch_update with a pure closure as one step, which std's contract makes sound)",
                    "verif-hooks atomics wrappers + baton scheduler (one granted turn = one atomic operation); the observer hook reports each operation's value before/after (store observed through swap)",
                    "when the step-by-step model disagrees but the protocol-level checker accepts the observed trace, the case counts as agreeing (evidence: agree_at_protocol_level_only); the claim that ALL traces of the code satisfy the protocol is sampled, as the step correspondence is",
                    "relaxed atomics modelled as sequentially consistent per location (single-location coherence)",
                    "decrease factor generated as an exact dyadic rational"],
        "assumptions": ["u64 balances as unbounded Nat (no overflow: balances stay below max + amount)"],
        "level_text": "Theorems TR.Props.C08.*: for every configuration, every set of thread programs and every schedule of atomic steps "
                      "(any length): granted x cost + balance <= initial + deposits x amount; the balance never exceeds its maximum "
                      "(AIMD: the controller's limit stays in [min,max]); the run is linearizable: replaying the operations one at a time "
                      "in the order of their linearisation points reproduces every result and the balance. The model's step granularity is "
                      "tied to the code by the turn trace under the hooked atomics (a load/store deposit takes two turns, the model one). "
                      "Protocol level (trace_conservation, trace_conservation_prefix, trace_capped, trace_linearizable, trace_linearizable_outputs): the same three facts for EVERY "
                      "value-level trace of the atomics that the verified checker TR.Budget.checkTrace accepts, independent of how an implementation "
                      "sequences loads and retries; the harness records such a trace on every run and the checker decides it.",
        "level_note": "Trusted: Lean kernel; the transcription of budget.rs/aimd.rs at atomic-step granularity (sampled by the scheduler-driven "
                      "correspondence check); the hook wrappers and the baton scheduler; relaxed atomics treated as sequentially consistent per "
                      "location. No proof relies on ordering between two different atomics.",
        "technique": "Lean 4 invariant proof over all schedules of atomic steps + linearizability by ghost linearisation; differential check under a baton scheduler on hooked atomics",
    }
}
