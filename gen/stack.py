"""C20 — transparency, Tower readiness contract, listeners only observe: generator and implementation-side monitors.

Header: `stack layers=<outermost,…,innermost> inner=strict|climit|buffer [ready=<script>] [cl=<n>] [lp=<mask>]
[rec=<ms> recall=1] [lq=<n> lqinner=<plan>] [lqe=<n> lqat=<layer index>] [rl=<limit>:<period ms>:<fixed|log|counter>:<timeout ms>] [lpt=<mask>]`
(see harness/src/mw_stack.rs; `rl`: every `ratelimiter` layer works near its limit — a triggering configuration; `lpt`: the transitions
on which reconnect's `on_state_change` callback panics); `arrive … keep=1` + `release c`:
the caller keeps its finished call future. The key of the keyed layers (coalesce, cache) is the tag modulo 1000. Boundary `b<j>` is the outer boundary of layer j (0 = the one the harness drives),
`b<n>` the boundary of the inner service.
`cf<j>=<knob>:<value>/…` configures layer j (knobs: see harness/src/mw_stack.rs and `lcfg_of` below); without it a layer has the
configuration its name stands for.
"""
import random
import re
import zlib
from gen.util import kvs, tparse

THIRTEEN = ["bulkhead", "ratelimiter", "circuit", "retry", "timelimiter", "cache", "fallback", "hedge", "reconnect",
            "adaptive", "coalesce", "executor", "chaos"]
# name in the op language -> the middleware it is a configuration of
BASE = {n: n for n in THIRTEEN}
BASE.update({"timelimiter_nocancel": "timelimiter", "hedge1": "hedge", "hedge_fire": "hedge", "hedge_parallel": "hedge",
             "circuit_slow": "circuit", "bulkhead1": "bulkhead", "bulkhead1w": "bulkhead"})
VARIANTS = THIRTEEN + ["timelimiter_nocancel", "hedge1", "hedge_fire", "hedge_parallel"]
HEDGES_THAT_REPOLL = ("hedge", "hedge_fire", "hedge_parallel")

# The stacks of crates/tower-resilience/src/composition.rs (use_cases, patterns, ordering, anti_patterns,
# troubleshooting) and tower_primer.rs, outermost first, in this harness's layer names. Where the guide
# configures a hedge that fires (delay 10/50 ms, no_delay) both the quiet and the firing variant are listed.
DOC_STACKS = [
    ["timelimiter", "retry"],                                               # external API minimal; basic 2-layer composition
    ["timelimiter", "retry", "circuit", "timelimiter"],                     # external API standard
    ["fallback", "timelimiter", "retry", "circuit", "timelimiter"],         # external API full
    ["timelimiter", "retry", "circuit", "hedge_fire", "timelimiter"],       # external API with hedging
    ["timelimiter", "retry", "circuit", "hedge", "timelimiter"],
    ["timelimiter", "retry", "bulkhead"],                                   # database standard; queue producer
    ["timelimiter", "circuit", "bulkhead"],                                 # database replicas
    ["timelimiter", "retry", "circuit"],                                    # microservices standard; queue consumer
    ["timelimiter", "adaptive", "retry"],                                   # microservices with adaptive concurrency
    ["timelimiter", "hedge_fire"],                                          # latency-critical with hedging
    ["timelimiter", "hedge"],
    ["timelimiter", "hedge_parallel"],                                      # parallel hedging
    ["fallback", "timelimiter", "circuit"],                                 # caching layer standard; outbound pattern head
    ["timelimiter", "coalesce", "circuit"],                                 # caching layer with coalescing
    ["ratelimiter", "bulkhead", "timelimiter"],                             # inbound pattern / server-side order
    ["fallback", "timelimiter", "circuit", "retry", "reconnect"],           # outbound pattern
    ["cache", "circuit", "timelimiter"],                                    # read-through cache pattern
    ["fallback", "cache", "timelimiter", "circuit", "retry", "timelimiter"],  # client-side correct order
    ["retry", "timelimiter"],                                               # timeout inside retry; anti-pattern 8 (good)
    ["timelimiter", "retry", "timelimiter"],                                # both timeouts
    ["circuit", "retry"],                                                   # CB outside retry; tower primer
    ["retry", "circuit"],                                                   # retry outside CB
    ["fallback", "circuit"],                                                # anti-pattern 6 (good)
    ["circuit"], ["hedge_fire"], ["hedge"], ["retry"],                      # single-layer examples of the guide
    ["bulkhead", "ratelimiter"],                                            # error_types example
    ["cache", "circuit", "retry", "timelimiter"],                           # troubleshooting: 4-layer example
    ["cache", "circuit", "retry"],                                          # troubleshooting: manual composition
    ["cache", "timelimiter", "retry"],                                      # troubleshooting: limited ServiceBuilder depth
]


# ----------------------------------------------------------------------------- generator

def _script(rng, first=None):
    """per-inner-call steps `lat:out`; err1 = retried / reconnected where such a layer is present, err2 = never"""
    steps = []
    n = rng.choice([1, 1, 2, 3, 4])
    for i in range(n):
        lat = rng.choice([0, 0, 0, 5, 5, 20])
        if i == 0 and first is not None:
            out = first
        else:
            out = rng.choice(["ok", "ok", "ok", "ok", "err1", "err1", "err2"])
        steps.append("%d:%s" % (lat, out))
    return steps


QUIET = ["bulkhead", "ratelimiter", "circuit", "timelimiter", "fallback", "adaptive", "executor", "chaos", "coalesce"]


def _finish(ops, rounds=4):
    ops.append("settle")
    for _ in range(rounds):
        ops.append("adv 25")
        ops.append("settle")
    ops.append("probe listeners")


def gen_cache_same_key(rng):
    """two requests with the same cache key (tag mod 1000) whose inner calls overlap: both miss, each must get the
    response of its OWN inner call (transparency), whatever sits around the cache"""
    layers = [rng.choice(QUIET) for _ in range(rng.randint(0, 2))]
    layers.insert(rng.randint(0, len(layers)), "cache")
    t = rng.randint(1, 99)
    lp = rng.choice([0, 0, 1, 5])
    ops = ["arrive 1 tag=%d inner=%d:ok" % (t, rng.choice([5, 20])),
           "arrive 2 tag=%d inner=%d:ok" % (t + 1000, rng.choice([5, 5, 20]))]
    order = [1, 2]
    rng.shuffle(order)
    ops += ["poll %d" % order[0], "poll %d" % order[1]]
    _finish(ops)
    return {"header": "stack layers=%s inner=strict lp=%d" % (",".join(layers), lp), "ops": ops}


def gen_slow_listener(rng):
    """a listener that takes wall time (and perhaps panics) while slow-call detection is on: the time a listener takes
    is not call time, so the breaker must behave as without listeners"""
    # innermost: the listeners of layers BELOW it would run inside its call and legitimately count as call time
    layers = [rng.choice(QUIET) for _ in range(rng.randint(0, 2))] + ["circuit_slow"]
    ops = []
    for c in range(1, rng.randint(4, 6)):
        ops.append("arrive %d tag=%d inner=0:ok" % (c, c))
        ops.append("settle")
    _finish(ops, rounds=2)
    return {"header": "stack layers=%s inner=strict lp=%d ls=%d lsms=%d" % (
        ",".join(layers), rng.choice([0, 0, 2, 4]), rng.randint(1, 7), rng.choice([45, 90])), "ops": ops}


def _drain(ops, layers, nerr):
    """let everything complete: every timer of these configurations is <= 30 ms, except the one-hour hedge delay"""
    ops.append("settle")
    rounds = 2 * sum(len(kvs(o).get("inner", "").split(",")) for o in ops if o.startswith("arrive")) + 4
    hours = nerr + 1 if "hedge" in layers else 0
    for h in range(hours + 1):
        for _ in range(rounds if h == 0 else 4):
            ops.append("adv 25")
            ops.append("settle")
        if h < hours:
            ops.append("adv 3600000")
            ops.append("settle")
    ops.append("probe listeners")


def _some_stack(rng):
    r = rng.random()
    if r < 0.35:
        return [rng.choice(VARIANTS)]
    if r < 0.70:
        return list(rng.choice(DOC_STACKS))
    return [rng.choice(VARIANTS) for _ in range(rng.randint(2, 4))]


def gen_slow_recovery(rng):
    """the inner instance (`recall=1`: every instance of the inner service) needs `rec` ms after a call before it reports
    ready again (time-based `Pending`, with a timer wake-up), aimed at re-issued attempts: retry / reconnect back off for 5 ms, so with rec > 5 the attempt has to wait
    for readiness AFTER its back-off; time moves in steps of 5 ms so that the caller is polled in that window"""
    if rng.random() < 0.5:
        layers = [rng.choice(QUIET) for _ in range(rng.randint(0, 2))] + [rng.choice(["retry", "retry", "reconnect"])]
        layers += [rng.choice(QUIET) for _ in range(rng.randint(0, 1))]
    else:
        layers = list(rng.choice([d for d in DOC_STACKS if "retry" in d or "reconnect" in d]))
    inner = rng.choice(["strict", "strict", "climit"])
    header = "stack layers=%s inner=%s rec=%d" % (",".join(layers), inner, rng.choice([4, 8, 8, 20, 30]))
    if rng.random() < 0.6:
        # the whole service recovers, fresh clones included: every layer between the retry and the inner service leaves a
        # fresh clone behind with each call, which a per-instance recovery never meets
        header += " recall=1"
    if inner == "climit":
        header += " cl=%d" % rng.choice([1, 2, 16])
    header += " lp=%d" % rng.choice([0, 0, 3])
    ops = []
    nerr = 0
    for c in range(1, rng.randint(2, 3)):
        steps = ["%d:err1" % rng.choice([0, 0, 5])] + _script(rng)
        nerr += sum(1 for x in steps if "err" in x)
        ops.append("arrive %d tag=%d inner=%s%s" % (c, 10 + c, ",".join(steps), rng.choice(["", "", " how=held"])))
        ops.append("settle")
        for _ in range(rng.randint(2, 8)):
            ops.append("adv 5")
            ops.append("settle")
    _drain(ops, layers, nerr)
    return {"header": header, "ops": ops}


def gen_late_first_poll(rng):
    """the call future is created and then left un-polled for a long time (a batch of futures awaited one after the
    other, a future stored and driven later): nothing a layer does may be counted from `call()` — the wrapped call
    starts at the first poll, and so does every timer that guards it (the time limiter's one-hour timeout, the quiet
    hedge's one-hour delay). Requests run one after the other so that nothing else is in flight during the pause."""
    layers = _some_stack(rng)
    if rng.random() < 0.5 and not any(BASE[l] == "timelimiter" for l in layers):
        layers.insert(rng.randint(0, len(layers)), rng.choice(["timelimiter", "timelimiter_nocancel"]))
    inner = rng.choice(["strict", "strict", "climit"])
    header = "stack layers=%s inner=%s" % (",".join(layers), inner)
    if inner == "climit":
        header += " cl=%d" % rng.choice([1, 2, 16])
    header += " lp=%d" % rng.choice([0, 0, 5])
    ops = []
    nerr = 0
    for c in range(1, rng.randint(2, 3)):
        steps = _script(rng, rng.choice(["ok", "ok", "ok", "err2"]))
        nerr += sum(1 for x in steps if "err" in x)
        ops.append("arrive %d tag=%d inner=%s" % (c, 30 + c, ",".join(steps)))
        # Time first passes in small steps, as real time does (the caller is still not polled): an executor layer starts
        # the call eagerly on its runtime, and one jump over both a 20 ms latency and the one-hour timeout would let
        # the runtime pick the order in which the two expired timers' tasks run — an artefact of the virtual clock.
        ops += ["adv 25"] * (2 * len(steps) + 2)
        ops.append("adv %d" % rng.choice([3600000, 3600000, 3600000, 7200000, 3599990, 40]))
        sub = [o for o in ops if o.startswith("arrive %d " % c)]
        _drain(sub, layers, sum(1 for x in steps if "err" in x))
        ops += sub[1:]
    return {"header": header, "ops": ops}


# layers that emit completion events (after the wrapped call has returned), as the outermost layer of a probing stack;
# `bulkhead1` (one slot, full = rejected) is at its limit with every call
PROBING = ["bulkhead1", "bulkhead1", "bulkhead1", "bulkhead1w", "bulkhead", "circuit", "circuit", "timelimiter",
           "timelimiter_nocancel", "retry", "retry", "fallback", "hedge1", "hedge_fire"]
PROBE_FIRST = 900      # probe requests are numbered from here (id and tag)


def gen_probing_listener(rng):
    """a completion listener of the outermost layer that itself calls the service (what a call arriving on another
    thread while the listener runs would see): the probe made from inside the listener must end like the same probe
    made right after the step (twin). Requests run one after the other — nothing else is in flight when a request
    completes, so a one-slot bulkhead on top must admit the probe."""
    below = [rng.choice(VARIANTS) for _ in range(rng.choice([0, 0, 1, 1, 2, 3]))]
    layers = [rng.choice(PROBING)] + ["hedge1" if l == "hedge" else l for l in below]
    inner = rng.choice(["strict", "strict", "climit", "buffer"])
    header = "stack layers=%s inner=%s" % (",".join(layers), inner)
    if inner == "climit":
        header += " cl=%d" % rng.choice([1, 2, 16])
    header += " lq=%d lqinner=%s lp=%d" % (rng.choice([1, 2, 2, 3]), rng.choice(["0:ok", "0:ok", "5:ok", "0:err2"]),
                                           rng.choice([0, 0, 2, 7]))
    ops = []
    for c in range(1, rng.randint(2, 4)):
        steps = _script(rng)
        ops.append("arrive %d tag=%d inner=%s%s" % (c, 40 + c, ",".join(steps), rng.choice(["", "", " how=held"])))
        ops += ["settle", "manual probes"]
        for _ in range(2 * len(steps) + 3):
            ops += ["adv %d" % rng.choice([5, 25, 25]), "settle", "manual probes", "manual probes"]
    ops += ["probe probes", "probe listeners"]
    return {"header": header, "ops": ops}


KEYED = ["coalesce", "coalesce", "coalesce", "cache", "cache", "hedge1", "hedge_fire", "hedge"]


def gen_same_key_kept(rng):
    """requests that share a key (tag mod 1000: the key of coalesce and cache), made by callers that KEEP their finished call
    future (`keep=1`, a pinned future in a select loop, a future stored in a struct) and `release` it later or never: a
    finished call is not in flight and holds nothing — a later request with its key is forwarded like any other (unless a
    cache has the finished call's response). Mostly one after the other; sometimes overlapping (then coalesce legitimately
    joins them). The keyed layer is the outermost one in half of the cases: the future the caller keeps IS its future."""
    keyed = rng.choice(KEYED)
    above = [] if rng.random() < 0.5 else [rng.choice(QUIET + ["retry", "cache", "coalesce"]) for _ in range(rng.randint(1, 2))]
    below = [rng.choice(QUIET + ["retry", "hedge1"]) for _ in range(rng.choice([0, 0, 1, 2]))]
    layers = above + [keyed] + below
    inner = rng.choice(["strict", "strict", "strict", "climit", "buffer"])
    header = "stack layers=%s inner=%s" % (",".join(layers), inner)
    if inner == "climit":
        header += " cl=16"      # a kept ConcurrencyLimit future keeps its permit (tower's own behaviour): never the last one
    header += " lp=%d" % rng.choice([0, 0, 0, 3, 7])
    base = rng.sample(range(1, 99), 2)
    ops, kept, nerr, seen = [], [], 0, {}
    for c in range(1, rng.randint(3, 6)):
        b = base[0] if rng.random() < 0.8 else base[1]
        seen[b] = seen.get(b, 0) + 1
        steps = _script(rng, rng.choice(["ok", "ok", "ok", "err2", "err1"]))
        nerr += sum(1 for x in steps if "err" in x)
        keep = rng.random() < 0.7
        ops.append("arrive %d tag=%d inner=%s%s%s" % (c, b + 1000 * (seen[b] - 1), ",".join(steps), " keep=1" if keep else "",
                                                       rng.choice(["", "", " how=held"])))
        if keep:
            kept.append(c)
        if rng.random() < 0.2:
            continue                      # the next request overlaps this one
        ops.append("settle")
        for _ in range(2 * len(steps) + 1):
            ops += ["adv %d" % rng.choice([5, 25]), "settle"]
        if kept and rng.random() < 0.3:
            ops.append("release %d" % kept.pop(rng.randrange(len(kept))))
            ops.append("settle")
    _drain(ops, layers, nerr)
    if kept and rng.random() < 0.5:
        ops.insert(len(ops) - 1, "release %d" % rng.choice(kept))
        ops.insert(len(ops) - 1, "settle")
    return {"header": header, "ops": ops}


# layers with listeners on the call path (admission, rejection, retry, pass-through, attempt started; and, below the
# outermost layer, completion events as well): candidates for `lqat`
MIDCALL = ["chaos", "chaos", "chaos", "bulkhead", "ratelimiter", "circuit", "retry", "hedge1", "hedge_fire", "hedge_parallel",
           "timelimiter", "fallback", "cache"]


def gen_callpath_probe(rng):
    """a listener of ANY event of ANY layer that itself sends a request through the service (`lqe`, `lqat`): a diagnostic
    probe, a warm-up call, a metrics flush through the same client. The emitting call is still in flight, so what the probe
    is told is not compared — but it must come back, the emitting call must end as in the twin stack (whose probe is made
    after the step), and the listeners registered after the probing one must still be told the event. Sequential
    requests, plain inner service, no layer near a capacity limit (a one-slot bulkhead would legitimately tell the emitting call
    and the probe apart by who came first): the extra request itself influences nothing."""
    n = rng.choice([1, 1, 2, 2, 3, 4])
    layers = [rng.choice(VARIANTS) for _ in range(n)]
    at = rng.randrange(n)
    if rng.random() < 0.85:
        layers[at] = rng.choice(MIDCALL)
    layers = ["hedge1" if l == "hedge" else l for l in layers]
    inner = rng.choice(["strict", "strict", "strict", "climit", "buffer"])
    header = "stack layers=%s inner=%s" % (",".join(layers), inner)
    if inner == "climit":
        header += " cl=16"
    header += " lqe=%d lqat=%d lqinner=%s lp=%d" % (rng.choice([1, 2, 2, 3]), at, rng.choice(["0:ok", "0:ok", "5:ok", "0:err2"]),
                                                    rng.choice([0, 0, 4, 6]))
    ops = []
    for c in range(1, rng.randint(2, 4)):
        steps = _script(rng, rng.choice(["ok", "ok", "err1", "err2"]))
        ops.append("arrive %d tag=%d inner=%s%s" % (c, 50 + c, ",".join(steps), rng.choice(["", "", " how=held", " keep=1"])))
        ops += ["settle", "manual probes"]
        for _ in range(2 * len(steps) + 3):
            ops += ["adv %d" % rng.choice([5, 25, 25]), "settle", "manual probes", "manual probes"]
    ops += ["probe probes", "probe listeners"]
    return {"header": header, "ops": ops}


RL_WINDOWS = ["fixed", "log", "counter"]
# layers that may surround a rate limiter working near its limit: no racing hedges (every attempt takes a permit, and which
# attempt is served is the scheduler's choice), nothing that re-issues requests on the limiter's own rejection
RL_AROUND = ["bulkhead", "circuit", "timelimiter", "timelimiter_nocancel", "fallback", "adaptive", "executor", "chaos", "coalesce",
             "cache", "retry", "reconnect", "hedge1"]


def _rl(rng):
    period = rng.choice([20, 50])
    return "rl=%d:%d:%s:%d" % (rng.choice([1, 1, 2, 3]), period, rng.choice(RL_WINDOWS), rng.choice([0, 0, 0, 0, 10, period])), period


def gen_rate_window(rng):
    """a rate limiter working at its limit (`rl=`: 1-3 permits per 20 / 50 ms, all three window types, mostly fail-fast): requests
    one after the other use the window up, the next ones are rejected (nothing forwarded), and after one, two or three refresh
    periods the window has rolled over and the limiter is transparent again: the request is forwarded to an instance of the
    wrapped service that the limiter polled ready for it — whatever the limiter believed while the window was used up. The
    wrapped service has pending / failing readiness polls, or reserves capacity in `poll_ready` (ConcurrencyLimit, Buffer)."""
    above = [rng.choice(RL_AROUND) for _ in range(rng.choice([0, 0, 1, 1, 2]))]
    below = [rng.choice(RL_AROUND) for _ in range(rng.choice([0, 0, 0, 1, 2]))]
    layers = above + ["ratelimiter"] + below
    inner = rng.choice(["strict", "strict", "strict", "climit", "buffer"])
    rl, period = _rl(rng)
    header = "stack layers=%s inner=%s %s" % (",".join(layers), inner, rl)
    if inner == "climit":
        header += " cl=%d" % rng.choice([1, 2, 16])
    ops, nerr, polls = [], 0, []
    for c in range(1, rng.randint(4, 8)):
        steps = _script(rng, rng.choice(["ok", "ok", "ok", "ok", "err2", "err1"]))
        nerr += sum(1 for x in steps if "err" in x)
        p = rng.choice([1, 1, 1, 2])
        polls.append(p)
        ops.append("arrive %d tag=%d inner=%s%s%s" % (c, 60 + c, ",".join(steps), rng.choice(["", "", " how=held"]),
                                                     " polls=%d" % p if p > 1 else ""))
        ops.append("settle")
        gap = rng.choice([0, 0, 5, period // 2, period, period, period + 5, 2 * period, 2 * period + 5, 3 * period])
        while gap > 0:
            ops += ["adv %d" % min(gap, 25), "settle"]
            gap -= min(gap, 25)
    if inner == "strict" and rng.random() < 0.5:
        # pending / failing readiness polls of the wrapped service, some of them aimed at the later requests
        k = rng.randint(0, sum(polls))
        header += " ready=" + "r" * k + "".join(rng.choice("rrppe") for _ in range(rng.randint(1, 6)))
    header += " lp=%d" % rng.choice([0, 0, 0, 2, 5, 7])
    _drain(ops, layers, nerr)
    return {"header": header, "ops": ops}


def gen_reconnect_callbacks(rng):
    """reconnect reports through one callback per kind of news (`on_state_change`, `on_reconnect`), not through a listener list:
    both are observers. Connection failures (`err1`, retried after 5 ms, at most twice) with an `on_state_change` callback that
    panics on some transitions only (`lpt`: bit 0 Connected->Disconnected, bit 1 Disconnected->Reconnecting, bit 2 ->Connected)
    and / or a panicking `on_reconnect` (`lp` bit 3): the answers and what EACH callback is told must be those of the twin."""
    above = [rng.choice(QUIET + ["retry", "cache"]) for _ in range(rng.choice([0, 0, 1, 2]))]
    below = [rng.choice(QUIET) for _ in range(rng.choice([0, 0, 1]))]
    layers = above + ["reconnect"] + below
    inner = rng.choice(["strict", "strict", "climit"])
    header = "stack layers=%s inner=%s" % (",".join(layers), inner)
    if inner == "climit":
        header += " cl=%d" % rng.choice([1, 2, 16])
    header += " lp=%d lpt=%d" % (rng.choice([1, 2, 4, 5, 7, 8, 9, 15]), rng.choice([1, 2, 2, 3, 4, 5, 6, 7]))
    ops, nerr = [], 0
    for c in range(1, rng.randint(2, 4)):
        steps = ["%d:err1" % rng.choice([0, 0, 5]) for _ in range(rng.choice([0, 1, 1, 2, 3]))] + _script(rng)
        nerr += sum(1 for x in steps if "err" in x)
        ops.append("arrive %d tag=%d inner=%s%s" % (c, 70 + c, ",".join(steps), rng.choice(["", "", " how=held"])))
        ops.append("settle")
        for _ in range(2 * len(steps) + 1):
            ops += ["adv 5", "settle"]
        if rng.random() < 0.3:
            ops.append("probe listeners")
    _drain(ops, layers, nerr)
    return {"header": header, "ops": ops}


FB_STRATEGIES = ["value", "valuefn", "fromerr", "fromreq", "service", "exc", "exc"]
FB_PREDICATES = ["never", "never", "e1", "e2", "e2", "all", "unset"]
CONFIGURABLE = ["retry", "retry", "retry", "fallback", "fallback", "fallback", "hedge1", "hedge1", "hedge", "timelimiter",
                "timelimiter_nocancel", "bulkhead", "cache", "circuit", "adaptive", "chaos", "chaos", "reconnect", "reconnect", "executor",
                "ratelimiter", "coalesce"]


def _layer_knobs(rng, l, demand, nreq, all_ok):
    """A configuration of layer `l` at a boundary value of its knobs that still leaves the layer out of the way of suitable
    requests (`demand`: upper bound on the calls the case can make at any boundary; `all_ok`: no scripted call fails):
    retry without retries / with few, fallback with every strategy x a predicate that accepts or rejects, a hedge without
    room for a hedge or with a zero / huge delay, huge time limits, a one-slot bulkhead that waits, a one-entry cache, a circuit
    breaker whose thresholds the case cannot reach, a limiter whose limit cannot move, chaos with rates exactly 0, reconnect
    without a policy / without attempts. '' = the configuration the name stands for."""
    if l == "retry":
        parts = ["ma:%d" % rng.choice([0, 0, 0, 1, 1, 2, 3, 5])]
        if rng.random() < 0.3:
            parts.append("maf:1")
        if rng.random() < 0.4:
            parts.append("bo:%d" % rng.choice([0, 0, 5, 10]))
        if rng.random() < 0.35:
            parts.append("ro:" + rng.choice(["all", "all", "e2", "none", "e1"]))
        # the order of the builder's setters is not a configuration: the predicate installed BEFORE the back-off setter
        # (the order of the composition guide's consumer stack), and each of the three back-off setters
        if rng.random() < 0.45:
            parts.append("po:1")
        if rng.random() < 0.4:
            # (an exponential back-off only with few attempts: the case's `adv` budget is linear in the script's length)
            parts.append("bk:" + rng.choice(["fn", "fn", "exp"] if parts[0] in ("ma:0", "ma:1", "ma:2", "ma:3") else ["fn"]))
        return "/".join(parts)
    if l == "fallback":
        parts = ["st:" + rng.choice(FB_STRATEGIES), "hp:" + rng.choice(FB_PREDICATES)]
        if rng.random() < 0.3:
            parts.append("ho:1")
        return "/".join(parts)
    if l == "hedge1":
        parts = ["n:%d" % rng.choice([0, 0, 1])]
        if rng.random() < 0.6:
            parts.append("d:" + rng.choice(["0", "0", "5", "max", "none", "3600000"]))
        return "/".join(parts)
    if l == "hedge":
        r = rng.random()
        if r < 0.5:
            return "n:%d/d:%s" % (rng.choice([0, 0, 1]), rng.choice(["0", "5", "max", "none", "3600000"]))
        if all_ok and r < 0.8:
            return "n:%d/d:max" % rng.choice([2, 3])      # (a failing first attempt would wait for its hedge for ever)
        return "n:%d" % rng.choice([2, 3])
    if l in ("timelimiter", "timelimiter_nocancel"):
        return "to:" + rng.choice(["max", "max", "3600000", "7200000", "86400000000"])
    if l == "bulkhead":
        return "mc:%d" % rng.choice([1, 1, 1, max(nreq, 1), demand])
    if l == "cache":
        parts = ["sz:%d" % rng.choice([1, 1, 2])]
        if rng.random() < 0.6:
            parts.append("ttl:" + rng.choice(["0", "1", "5", "max"]))
        if rng.random() < 0.4:
            parts.append("ev:" + rng.choice(["lru", "lfu", "fifo"]))
        return "/".join(parts)
    if l == "circuit":
        r = rng.random()
        if r < 0.4:
            return "cb:%d:%d:%d" % (demand + 1, demand + 1, rng.choice([1, 50, 100]))    # never evaluated: one call short
        if r < 0.7:
            return "cb:%d:%d:101" % (rng.choice([1, 2, 4]), rng.choice([1, 1, 2]))        # a rate no window reaches
        return "cb:%d:%d:50" % (demand + 3, demand + 1)
    if l == "adaptive":
        return "lim:%d" % max(demand, 1)
    if l == "chaos":
        return rng.choice(["ef:0", "ef:0/lat:1", "ero:1", "ero:1/lat:1", "lat:1"])
    if l == "reconnect":
        return rng.choice(["pol:none", "pol:none", "ma:0", "ma:0", "ma:1", "ror:0", "ma:unl", "pol:none/ma:0"])
    if l == "executor":
        # every way of telling the layer "the runtime I am built on"
        return rng.choice(["ex:handle", "ex:new", "ex:new", "ex:cur"])
    return ""


def _off_runtime(rng, header, layers, ops, p=0.6):
    """Where the caller lives is not a configuration: under a stack whose OUTERMOST layer is the executor (it moves the work
    onto the runtime it was built on; nothing above it needs a reactor) requests may be made — `poll_ready`, `call`, first
    poll — from a plain OS thread outside any tokio context (`off=1`). Not with a time-based recovery of the scripted inner
    service (`rec=`: ITS `poll_ready` arms a tokio timer, which legitimately needs the runtime)."""
    if not layers or layers[0] != "executor" or " rec=" in header or rng.random() >= p:
        return ops
    return [o + " off=1" if o.startswith("arrive") and rng.random() < 0.7 else o for o in ops]


def _configure(rng, layers, scripts, p, rl_ok=True, probes=0):
    """-> header words ` cf<j>=…` (+ ` rl=…`): each configurable layer gets boundary knobs with probability p"""
    fan = 1
    knobs = {}
    nerr = sum(1 for st in scripts for x in st if not x.endswith(":ok"))
    all_ok = nerr == 0
    # the hedges first: their attempts multiply what the case can ask of every other layer
    for j, l in enumerate(layers):
        if l in ("hedge", "hedge1") and rng.random() < p:
            knobs[j] = _layer_knobs(rng, l, 0, len(scripts), all_ok)
    for j, l in enumerate(layers):
        if BASE.get(l) == "hedge":
            fan *= max(hedge_eff(l, layer_cf({"cf%d" % j: knobs.get(j, "")}, j))[0], 1)
    demand = fan * (probes + sum(sum(1 for x in st if not x.endswith(":ok")) + 1 for st in scripts))
    for j, l in enumerate(layers):
        if l not in ("hedge", "hedge1") and rng.random() < p:
            knobs[j] = _layer_knobs(rng, l, demand, len(scripts), all_ok)
    words = "".join(" cf%d=%s" % (j, k) for j, k in sorted(knobs.items()) if k)
    if rl_ok and "ratelimiter" in layers and not any(l in ("hedge_fire", "hedge_parallel") for l in layers) and rng.random() < p:
        # a limit the case can just reach: every permit of the (one-hour) window may be handed out, none refused
        words += " rl=%d:3600000:%s:%d" % (rng.choice([demand, demand, demand + 1]), rng.choice(RL_WINDOWS), rng.choice([0, 0, 10]))
    return words


def gen_configured(rng):
    """every layer has knobs, and for each value of each knob there are requests that must still pass straight through:
    1-3 layers, the first chosen one always at a boundary value of its knobs (the others half of the time), requests one
    after the other or overlapping, with outcomes aimed at the configuration: runs of retryable errors as long as the retry
    layer has attempts (on an error outcome with the attempts exhausted the LAST error must come back unchanged),
    both error kinds for the fallback predicates, connection failures for reconnect."""
    focus = rng.choice(CONFIGURABLE)
    others = [rng.choice(VARIANTS) for _ in range(rng.choice([0, 0, 1, 1, 2]))]
    layers = list(others)
    layers.insert(rng.randint(0, len(layers)), focus)
    inner = rng.choice(["strict", "strict", "strict", "climit", "buffer"])
    nreq = rng.choice([1, 1, 2, 3, 4])
    scripts = []
    for _ in range(nreq):
        r = rng.random()
        if r < 0.3:
            steps = ["%d:ok" % rng.choice([0, 0, 5, 20])]
        elif r < 0.6:
            # a run of failures (mostly of one kind), then perhaps a success
            k = rng.choice([1, 1, 2, 3, 4, 6])
            kind = rng.choice(["err1", "err1", "err2"])
            steps = ["%d:%s" % (rng.choice([0, 0, 5]), kind if rng.random() < 0.85 else rng.choice(["err1", "err2"])) for _ in range(k)]
            if rng.random() < 0.5:
                steps.append("%d:ok" % rng.choice([0, 5]))
        else:
            steps = _script(rng, rng.choice(["ok", "err1", "err2", "err2"]))
        scripts.append(steps)
    header = "stack layers=%s inner=%s" % (",".join(layers), inner)
    if inner == "climit":
        header += " cl=%d" % rng.choice([1, 2, 16])
    header += _configure(rng, layers, scripts, 0.5, rl_ok=True)
    j = layers.index(focus)
    if " cf%d=" % j not in header and focus not in ("ratelimiter", "coalesce"):
        header += _configure(rng, [focus if i == j else "" for i in range(len(layers))], scripts, 1.0, rl_ok=False)
    if inner == "strict" and rng.random() < 0.25:
        header += " ready=" + "".join(rng.choice("rrrrpp") for _ in range(rng.randint(1, 6)))
    header += " lp=%d" % rng.choice([0, 0, 0, 3, 5, 7])
    ops, nerr, kept = [], 0, []
    sequential = rng.random() < 0.7
    tags = rng.sample(range(1, 100), nreq)
    for i, steps in enumerate(scripts):
        c = i + 1
        nerr += sum(1 for x in steps if "err" in x)
        op = "arrive %d tag=%d inner=%s" % (c, tags[i], ",".join(steps))
        op += rng.choice(["", "", " how=held", " polls=2"])
        if inner != "climit" and rng.random() < 0.2:
            op += " keep=1"
            kept.append(c)
        ops.append(op)
        if sequential:
            ops.append("settle")
            for _ in range(2 * len(steps) + 2):
                ops += ["adv %d" % rng.choice([5, 5, 10, 25]), "settle"]
        elif rng.random() < 0.5:
            ops.append(rng.choice(["settle", "poll %d" % c, "adv 5"]))
    _drain(ops, layers, nerr)
    if kept and rng.random() < 0.5:
        ops.insert(len(ops) - 1, "release %d" % rng.choice(kept))
    return {"header": header, "ops": _off_runtime(rng, header, layers, ops)}


def gen_foreign_thread(rng):
    """a stack with the executor layer outermost, driven by callers that live outside the runtime (see `_off_runtime`): the
    layer must carry the runtime it was built on, however it was told which one that is; below it the layers of a
    `gen_configured` case (boundary values of their knobs), which all run on the runtime."""
    case = gen_configured(rng)
    header = case["header"]
    words = header.split()
    layers = words[1][len("layers="):].split(",")
    ops = [o.replace(" off=1", "") for o in case["ops"]]
    if layers[0] != "executor":
        # (the knobs `cf<j>` are numbered by position)
        header = re.sub(r" cf(\d+)=", lambda m: " cf%d=" % (int(m.group(1)) + 1), header)
        layers = ["executor"] + layers
        header = header.replace(words[1], "layers=" + ",".join(layers), 1)
        header += rng.choice(["", " cf0=ex:new", " cf0=ex:new", " cf0=ex:cur", " cf0=ex:handle"])
    return {"header": header, "ops": _off_runtime(rng, header, layers, ops, p=1.0)}


def gen_clone_panic(rng):
    """`Clone` of the wrapped service's error type is the wrapped service's code: it may unwind. A layer that copies results
    (coalesce, innermost here: its copy for the waiters is the first clone of the error) must still be out of the way of every
    LATER request — a request with the same key that arrives when nothing is in flight is forwarded as a call of its own and
    answered. Request 1 fails with an error whose first clone panics (`clonepanic=1`; its own answer is not predicted), then
    same-key and other requests follow, each after the previous one is over; every timer may expire at the end."""
    above = [rng.choice(["timelimiter", "bulkhead", "circuit", "fallback", "retry", "ratelimiter", "adaptive", "chaos", "cache", "executor"])
             for _ in range(rng.choice([0, 0, 1, 1, 2]))]
    layers = above + ["coalesce"]
    inner = rng.choice(["strict", "strict", "climit"])
    header = "stack layers=%s inner=%s" % (",".join(layers), inner)
    if inner == "climit":
        header += " cl=%d" % rng.choice([1, 2, 16])
    header += " lp=0"
    t = rng.randint(1, 99)
    ops = ["arrive 1 tag=%d inner=%d:%s clonepanic=1" % (t, rng.choice([0, 0, 3]), rng.choice(["err1", "err2", "err2"])),
           "settle", "adv 5", "settle"]
    if rng.random() < 0.5:
        ops += ["adv 25", "settle"]
    for c in range(2, rng.choice([3, 3, 4]) + 1):
        same = c == 2 or rng.random() < 0.5
        ops.append("arrive %d tag=%d inner=%d:%s%s" % (c, t + 1000 * (c - 1) if same else (t % 99) + c, rng.choice([0, 0, 3]),
                                                        rng.choice(["ok", "ok", "err2"]), rng.choice(["", "", " how=held", " polls=2"])))
        ops += ["settle", "adv 5", "settle"]
    for _ in range(3):
        ops += ["adv 25", "settle"]
    return {"header": header, "ops": ops}


def _fire_and_forget(rng, layers, ops):
    """Whether anybody waits for the answer is not a configuration either: a caller may drop the call future right after
    `call()` — never polled, before the runtime had a turn (`let _ = svc.call(req);`, an outer `select!` / timeout that has
    lost interest already): `arrive … gone=1`. A layer that moves the call into a task of its own (executor: "the spawned
    task continues to run to completion") must still forward the request exactly once; every other layer may do what it
    does when a caller is dropped. Mostly for stacks with such a layer, now and then for any stack."""
    if rng.random() >= (0.4 if "executor" in layers else 0.06):
        return ops
    return [o + " gone=1" if o.startswith("arrive") and " keep=1" not in o and rng.random() < 0.45 else o for o in ops]


def gen(rng, tier):
    case = _gen(rng, tier)
    if case["header"].startswith("stack "):
        own0 = random.Random(zlib.crc32(("\n".join(["cp", case["header"]] + case["ops"])).encode()))
        if own0.random() < 0.02:
            return gen_clone_panic(own0)
        # (a random stream of its own, derived from the case: the cases themselves stay what they were)
        own = random.Random(zlib.crc32(("\n".join([case["header"]] + case["ops"])).encode()))
        layers = [l for l in kvs(case["header"]).get("layers", "").split(",") if l]
        case["ops"] = _fire_and_forget(own, layers, case["ops"])
    return case


def _gen(rng, tier):
    r0 = rng.random()
    if 0.44 <= r0 < 0.56:
        return gen_configured(rng)
    if 0.56 <= r0 < 0.585:
        return gen_foreign_thread(rng)
    if 0.17 <= r0 < 0.24:
        return gen_probing_listener(rng)
    if 0.24 <= r0 < 0.30:
        return gen_same_key_kept(rng)
    if 0.30 <= r0 < 0.36:
        return gen_callpath_probe(rng)
    if 0.36 <= r0 < 0.41:
        return gen_rate_window(rng)
    if 0.41 <= r0 < 0.44:
        return gen_reconnect_callbacks(rng)
    if r0 < 0.04:
        return gen_cache_same_key(rng)
    if r0 < 0.08:
        return gen_slow_listener(rng)
    if r0 < 0.12:
        return gen_slow_recovery(rng)
    if r0 < 0.17:
        return gen_late_first_poll(rng)
    r = rng.random()
    doc = False
    if r < 0.30:
        layers = [rng.choice(VARIANTS)]
    elif r < 0.62:
        layers = list(rng.choice(DOC_STACKS))
        doc = True
    else:
        layers = [rng.choice(VARIANTS) for _ in range(rng.randint(2, 4))]
    inner = rng.choice(["strict", "strict", "climit", "buffer"])
    if doc and inner == "buffer" and any(BASE[l] in ("retry", "hedge") for l in layers) and rng.random() < 0.7:
        # retry / hedge demand a Clone error, which Buffer's BoxError is not: keep most documented stacks faithful
        inner = rng.choice(["strict", "climit"])
    header = "stack layers=%s inner=%s" % (",".join(layers), inner)
    if inner == "climit":
        header += " cl=%d" % rng.choice([1, 2, 2, 4, 16, 16])
    script = None
    if inner == "strict" and rng.random() < 0.55:
        n = rng.randint(1, 12)
        script = "".join(rng.choice("rrrrrrpppe") for _ in range(n))
    lp = 0 if rng.random() < 0.25 else rng.randint(1, 7)

    nreq = rng.choice([1, 1, 2, 2, 3, 3, 4, 5])
    tags = rng.sample(range(1, 100), nreq)
    if rng.random() < 0.15:
        # requests that share a key (tag mod 1000: coalesce, cache) and are still told apart by their tags
        tags = [tags[0] + 1000 * i if rng.random() < 0.7 else tags[i] for i in range(nreq)]
    # callers that keep their finished call future (`keep=1`), released at some later point or at the end of the case; not
    # over a small ConcurrencyLimit: tower's response future keeps its permit until it is dropped
    keeping = rng.random() < 0.3 and not (inner == "climit" and " cl=16" not in header)
    ops = []
    nerr = 0
    live = []
    kept = []
    for i in range(nreq):
        c = i + 1
        first = rng.choice(["ok", "ok", "ok", "ok", "ok", "err2", "err2", "err1", "err1"])
        steps = _script(rng, first)
        nerr += sum(1 for s in steps if "err" in s)
        op = "arrive %d tag=%d inner=%s" % (c, tags[i], ",".join(steps))
        if rng.random() < 0.3:
            op += " how=held"
        p = rng.choice([1, 1, 1, 2, 3])
        if p > 1:
            op += " polls=%d" % p
        if keeping and rng.random() < 0.6:
            op += " keep=1"
            kept.append(c)
        ops.append(op)
        live.append(c)
        if kept and rng.random() < 0.15:
            ops.append("release %d" % kept.pop(rng.randrange(len(kept))))
        x = rng.random()
        if x < 0.45:
            ops.append("settle")
        elif x < 0.60:
            ops.append("poll %d" % rng.choice(live))
        if rng.random() < 0.35:
            ops.append("adv %d" % rng.choice([1, 5, 5, 20]))
            if rng.random() < 0.5:
                ops.append("settle")
        if rng.random() < 0.04:
            ops.append("drop %d" % rng.choice(live))
        if rng.random() < 0.08:
            ops.append("probe listeners")
    if inner == "strict" and any(l in ("retry", "reconnect", "hedge_fire", "hedge_parallel") for l in layers) and rng.random() < 0.3:
        # aim a pending / failing poll_ready at a retry, reconnect attempt or hedged attempt: the arrivals'
        # own polls get `r`, the first re-poll meets the interesting entry
        first_polls = sum(int(kvs(o).get("polls", "1")) for o in ops if o.startswith("arrive"))
        script = "r" * rng.randint(max(0, first_polls - 1), first_polls + 1) + rng.choice(["e", "pe", "pr", "re", "ppr", "rpe"])
    if script:
        header += " ready=" + script
    if inner != "buffer" and rng.random() < 0.2:
        # time-based readiness: every instance stays `Pending` for that long after a call (see gen_slow_recovery).
        # Not behind Buffer: its worker owns ONE instance, so the recovery would delay every queued request and
        # legitimately trigger the latency-based layers (a firing hedge) for requests whose own call is fast.
        header += " rec=%d" % rng.choice([3, 8, 8, 20, 30])
        if rng.random() < 0.4:
            header += " recall=1"
    if "ratelimiter" in layers and not any(l in HEDGES_THAT_REPOLL for l in layers) and rng.random() < 0.3:
        # the rate limiter near its limit (a triggering configuration, see gen_rate_window)
        header += " " + _rl(rng)[0]
    if "reconnect" in layers and rng.random() < 0.5:
        # reconnect's two callbacks: `on_state_change` panics on some transitions only, `on_reconnect` (lp bit 3) panics
        lp |= rng.choice([0, 8, 8])
        header += " lpt=%d" % rng.randint(1, 7)
    header += " lp=%d" % lp
    if rng.random() < 0.35 and not any(o.startswith("drop") for o in ops):
        # boundary values of the layers' own knobs (see gen_configured)
        scripts = [kvs(o).get("inner", "0:ok").split(",") for o in ops if o.startswith("arrive")]
        header += _configure(rng, layers, scripts, 0.5, rl_ok=" rl=" not in header)
    _drain(ops, layers, nerr)
    return {"header": header, "ops": _off_runtime(rng, header, layers, ops)}


# ----------------------------------------------------------------------------- configured layers

BIG = 18446744073709551615000       # `max` = Duration::MAX, in ms: longer than any case


def _dur(v):
    return BIG if v == "max" else int(v) if str(v).isdigit() else 0


def layer_cf(cfg, j):
    """`cf<j>=<knob>:<value>/<knob>:<value>` -> {knob: value} (a value may contain `:`)"""
    out = {}
    for it in cfg.get("cf%d" % j, "").split("/"):
        k, sep, v = it.partition(":")
        if sep:
            out.setdefault(k, v)
    return out


def _pred(w):
    """which error kinds a configured predicate accepts: a function kind -> bool (`unset`: a fallback without a `handle`
    predicate handles every error)"""
    if w in ("all", "unset"):
        return lambda kd: True
    if w == "e1":
        return lambda kd: kd == 1
    if w == "e2":
        return lambda kd: kd == 2
    return lambda kd: False


def hedge_eff(name, cf):
    """(max attempts, delay in ms | None = the hedges start at once) of a hedge layer"""
    n, d = {"hedge": (2, 3600000), "hedge1": (1, 3600000), "hedge_fire": (2, 5), "hedge_parallel": (3, None)}[name]
    if "n" in cf:
        n = int(cf["n"]) if cf["n"].isdigit() else n
    if "d" in cf:
        d = None if cf["d"] == "none" or _dur(cf["d"]) == 0 else _dur(cf["d"])
    return n, d


def lcfg_of(name, cf, rl):
    """What one layer in one configuration is, as far as ONE request can tell (the python twin of `TR.Stack.lcfgOf`,
    written from the layers' documentation, used by the implementation-side oracle):
    ("wrap", name) forwards once, an error comes back as name(...); ("bare",) forwards once, nothing changed;
    ("guard", name, cap, wait) a capacity that cannot be reached while the case has made <= cap calls or the request took
    less than `wait`; ("limiter", name, timeout); ("retry", max, pred); ("fallback", strategy, pred); ("hedge", n, delay);
    ("reconnect", max | None, policy, retry); ("opaque",) not predicted."""
    num = lambda v, d: int(v) if str(v).isdigit() else d
    if name == "bulkhead":
        return ("guard", "bulkhead", num(cf.get("mc", ""), 100), _dur(cf["mw"])) if "mw" in cf else ("wrap", "bulkhead")
    if name == "bulkhead1":
        return ("guard", "bulkhead", 1, 0)
    if name == "bulkhead1w":
        return ("guard", "bulkhead", 1, 10)
    if name == "ratelimiter":
        # (a limiter that sees that the wait for a permit would exceed its timeout rejects at once: no `wait`)
        return ("guard", "ratelimiter", num((rl or "").split(":")[0], 100000), 0)
    if name == "circuit":
        if "cb" in cf:
            p = cf["cb"].split(":")
            thr = num(p[2], 50) if len(p) > 2 else 50
            return ("wrap", "circuit") if thr > 100 else ("guard", "circuit", max(num(p[1], 1000) if len(p) > 1 else 1000, 1) - 1, 0)
        return ("guard", "circuit", 999, 0)
    if name in ("timelimiter", "timelimiter_nocancel"):
        return ("limiter", "timelimiter", _dur(cf["to"]) if "to" in cf else 3600000)
    if name == "retry":
        return ("retry", num(cf.get("ma", ""), 3), cf.get("ro", "e1"))
    if name == "fallback":
        return ("fallback", cf.get("st", "value"), cf.get("hp", "never"))
    if name in ("hedge", "hedge1", "hedge_fire", "hedge_parallel"):
        return ("hedge",) + hedge_eff(name, cf)
    if name == "reconnect":
        ma = cf.get("ma", "2")
        return ("reconnect", None if ma == "unl" else num(ma, 2), cf.get("pol", "fixed") != "none", cf.get("ror", "1") == "1")
    if name == "adaptive":
        return ("guard", "adaptive", num(cf.get("lim", ""), 500), 0)
    if name in ("cache", "coalesce", "executor"):
        return ("wrap", name)
    if name == "chaos":
        return ("bare",)
    return ("opaque",)


def stack_cfgs(cfg, layers):
    return [lcfg_of(l, layer_cf(cfg, j), cfg.get("rl", "")) for j, l in enumerate(layers)]


def fanout_of(effs):
    f = 1
    for e in effs:
        if e[0] == "hedge":
            f *= max(e[1], 1)
    return f


def _wrap(e, name):
    return ("err", name + "(" + e[1], e[2], e[3], e[4] + ")")


FALLBACK_ANSWER = {"value": "ok:999999:tag=999999", "valuefn": "ok:999998:tag=999998", "fromerr": "ok:999997:tag=999997",
                   "fromreq": "ok:999996:tag=%s", "service": "ok:999995:tag=%s"}


def denote(effs, ctx, k, s):
    """What the stack `effs` (outermost first) makes of one request whose inner calls have the outcomes `s` (beyond the script:
    success), `k` inner calls having been made: (answer, inner calls made, outcomes left) or None = not predicted.
    answer: ("ok", ord) the response of the request's ord-th inner call | ("lit", text) | ("err", pre, kind, ord, post).
    ctx: tag, demand (upper bound on the calls at any boundary so far in the case), span (ms from arrival to answer)."""
    if not effs:
        if not s:
            return ("ok", k + 1), k + 1, []
        if s[0] == "ok":
            return ("ok", k + 1), k + 1, s[1:]
        if s[0].startswith("err") and s[0][3:].isdigit():
            return ("err", "", int(s[0][3:]), k + 1, ""), k + 1, s[1:]
        return None
    e, rest = effs[0], effs[1:]
    inner = lambda k, s: denote(rest, ctx, k, s)
    kind = e[0]
    if kind == "opaque":
        return None
    if kind in ("wrap", "guard", "limiter"):
        if kind == "guard" and not (ctx["demand"] <= e[2] or ctx["span"] < e[3]):
            return None
        if kind == "limiter" and not ctx["span"] < e[2]:
            return None
        r = inner(k, s)
        if r and r[0][0] == "err":
            return _wrap(r[0], e[1]), r[1], r[2]
        return r
    if kind == "bare":
        return inner(k, s)
    if kind == "retry":
        left, accepts = max(e[1], 1) - 1, _pred(e[2])
        while True:
            r = inner(k, s)
            if r is None or r[0][0] != "err" or left == 0 or not accepts(r[0][2]):
                return r
            left, k, s = left - 1, r[1], r[2]
    if kind == "fallback":
        r = inner(k, s)
        if r is None or r[0][0] != "err":
            return r
        if not _pred(e[2])(r[0][2]):
            return _wrap(r[0], "fallback"), r[1], r[2]
        if e[1] == "exc":
            return _wrap(_wrap(r[0], "mapped"), "fallback"), r[1], r[2]
        t = FALLBACK_ANSWER.get(e[1], FALLBACK_ANSWER["value"])
        return ("lit", t % ctx["tag"] if "%s" in t else t), r[1], r[2]
    if kind == "hedge":
        n, d = e[1], e[2]
        if n <= 1:
            r = inner(k, s)
            if r and r[0][0] == "err":
                return _wrap(r[0], "hedge!all_failed"), r[1], r[2]
            return r
        if d is None or not ctx["span"] < d:
            return None
        r = inner(k, s)
        return None if r is None or r[0][0] == "err" else r
    if kind == "reconnect":
        mx, policy, retry = e[1], e[2], e[3]
        att = 0
        for _ in range(len(s) + 2):
            r = inner(k, s)
            if r is None or r[0][0] != "err":
                return r
            if r[0][2] != 1:
                return _wrap(r[0], "reconnect"), r[1], r[2]
            att += 1
            if mx is not None and att > mx:
                return _wrap(r[0], "reconnect!max_attempts:%d" % att), r[1], r[2]
            if not policy:
                return _wrap(r[0], "reconnect!conn_failed"), r[1], r[2]
            if not retry:
                return _wrap(r[0], "reconnect!no_retry"), r[1], r[2]
            k, s = r[1], r[2]
        return None
    return None


def describe_cfg(layers, cfg):
    out = []
    for j, l in enumerate(layers):
        c = cfg.get("cf%d" % j)
        out.append("%s[%s]" % (l, c) if c else l)
    if "rl" in cfg:
        out.append("rl=" + cfg["rl"])
    return ",".join(out)


# ----------------------------------------------------------------------------- shared parsing

def _cfg(case):
    cfg = kvs(case["header"])
    layers = [l for l in cfg.get("layers", "").split(",") if l]
    return cfg, layers


def _requests(case):
    """id -> dict(tag, steps=[(lat,out)], how, polls, dropped)"""
    reqs = {}
    for o in case["ops"]:
        w = o.split()
        if not w:
            continue
        if w[0] == "arrive" and len(w) > 1 and w[1] not in reqs:
            k = kvs(o)
            steps = []
            for part in k.get("inner", "0:ok").split(","):
                lat, _, out = part.partition(":")
                steps.append((int(lat or 0), out))
            reqs[w[1]] = {"tag": k.get("tag", w[1]), "steps": steps, "how": k.get("how", "clone"),
                          "polls": int(k.get("polls", "1")), "dropped": k.get("gone") == "1", "keep": k.get("keep") == "1",
                          "off": k.get("off") == "1", "gone": k.get("gone") == "1", "clonepanic": k.get("clonepanic") == "1"}
        elif w[0] in ("drop",) and len(w) > 1 and w[1] in reqs:
            reqs[w[1]]["dropped"] = True
        elif w[0] == "dropall":
            for r in reqs.values():
                r["dropped"] = True
    return reqs


def wrap(layer, text):
    """what the layer's pass-through variant makes of the inner error text (fixed by running each layer alone)"""
    b = BASE.get(layer, layer)
    if b in ("retry", "chaos"):
        return text                       # the bare inner error: these two have no error type of their own
    return "%s(%s)" % (b, text)          # Inner / Service / ServiceError variant, rendered `<layer>(…)`


def chain(layers, text, call_error, cfg=None):
    """expected text of an inner error after it passed all layers, innermost first.
    `call_error`: the error of the (single) call; otherwise an error of poll_ready."""
    for j in reversed(range(len(layers))):
        l = layers[j]
        if call_error and BASE.get(l) == "hedge" and hedge_eff(l, layer_cf(cfg or {}, j))[0] <= 1:
            text = "hedge!all_failed(%s)" % text      # a single-attempt hedge reports its only failure as AllAttemptsFailed
        else:
            text = wrap(l, text)
    return text


def _kind(out):
    return int(out[3:]) if out.startswith("err") and out[3:].isdigit() else None


def triggered(layers, rq, cfg=None):
    """is some layer's protective condition triggered by this request's scripted outcomes? (`cfg`: the header — the
    layers' knobs `cf<j>` decide what triggers them: a retry layer without retries, a hedge without room for a hedge
    and a fallback whose predicate rejects the error are not triggered by anything)"""
    lat, out = rq["steps"][0]
    kd = _kind(out)
    for j, l in enumerate(layers):
        cf = layer_cf(cfg or {}, j)
        if l == "retry" and kd is not None and _pred(cf.get("ro", "e1"))(kd) and cf.get("ma", "3") not in ("0", "1"):
            return True
        if l == "reconnect" and out == "err1":
            return True
        if l == "fallback" and kd is not None and _pred(cf.get("hp", "never"))(kd):
            return True
        if BASE.get(l) == "hedge":
            n, d = hedge_eff(l, cf)
            if n >= 2 and (d is None or lat >= d or out != "ok"):
                return True
    return False


def fallback_may_answer(layers, rq, cfg):
    """may a fallback layer replace an error of this request (its predicate accepts one of the scripted error kinds)?"""
    kinds = {_kind(o) for _, o in rq["steps"]} - {None}
    for j, l in enumerate(layers):
        hp = layer_cf(cfg, j).get("hp", "never")
        # (a fallback for every error also handles what the layers below it produce themselves: a rejection, a timeout)
        if l == "fallback" and (hp in ("all", "unset") or any(_pred(hp)(k) for k in kinds)):
            return True
    return False


def hoarding_possible(cfg, layers):
    """A coalesce waiter keeps the inner instance it polled ready (and with it a ConcurrencyLimit permit / Buffer slot)
    for as long as it waits for its leader. When a hedge above coalesce issues the same request again, the copies are
    waiters; with few permits they can hold all of them while the leader's own next attempt (a hedge below) waits for
    one: a capacity deadlock of the composition (every call still honours the readiness contract). Requests may then
    stay unanswered; not a C20 violation, reported as an observation."""
    if cfg.get("inner", "strict") == "strict":
        return False
    for i, l in enumerate(layers):
        if l in HEDGES_THAT_REPOLL and "coalesce" in layers[i + 1:]:
            return True
    return False


def waiters_hoard(cfg, layers, reqs):
    """The same with requests that share a key by themselves: the waiters of a coalesce layer hold what their instances reserved
    while their leader's NEXT attempt — made by a retry / reconnect / hedge layer below the coalesce layer — waits for capacity."""
    if cfg.get("inner", "strict") == "strict" or "coalesce" not in layers:
        return False
    keys = [_key(rq["tag"]) for rq in reqs.values()]
    below = layers[layers.index("coalesce") + 1:]
    return len(set(keys)) < len(keys) and any(l in HEDGES_THAT_REPOLL or l in ("retry", "reconnect") for l in below)


def bulkhead_waiter_hoards(cfg, layers, reqs):
    """A request waiting for a FULL bulkhead (its protective condition: triggered) waits inside `call`, i.e. after its instance reserved
    capacity of the wrapped service in `poll_ready` (Tower allows a ready service to keep what it reserved). When the request that
    holds the bulkhead's permit needs capacity again — a further attempt made by a hedge / retry / reconnect layer below the bulkhead —
    and the wrapped service has few permits (ConcurrencyLimit / Buffer), each waits for what the other holds: a capacity deadlock of the
    composition in which every call honours the readiness contract (found by thorough seed 3: bulkhead(1) over hedge over
    ConcurrencyLimit(1)). Not a C20 clause; the wedge clause is not decided for such cases."""
    if cfg.get("inner", "strict") == "strict" or len(reqs) < 2:
        return False
    for i, l in enumerate(layers):
        if BASE.get(l, l) == "bulkhead" and any(BASE.get(x, x) in ("hedge", "retry", "reconnect") for x in layers[i + 1:]):
            return True
    return False


def layer_detaches(l):
    """does the layer run the wrapped call in a task of its own (so that it may outlive the caller's future / answer)?"""
    return BASE.get(l) in ("hedge", "executor") or l == "timelimiter_nocancel"


def _key(tag):
    """the key of the keyed layers (coalesce, cache) in the harness: the tag modulo 1000"""
    return int(tag) % 1000 if str(tag).isdigit() else tag


def keyed_interference(layers, reqs, lines, meta):
    """Requests for which the protective condition of a KEYED layer may hold — decided from the observable history alone,
    conservatively (a request listed here is only checked weakly, every other one in full):
    * coalesce ("an identical request is in flight"): another request with the same key whose call overlaps this one's —
      from its `call` at the top boundary to its answer (`result`) or its drop. A request whose answer has been delivered
      is NOT in flight, whether or not its caller still keeps the finished future. (Above coalesce a layer that runs the
      call in a task of its own — hedge, executor, time limiter without cancellation — keeps attempts in flight after the
      caller was answered or dropped: then every earlier same-key request counts as possibly in flight);
    * cache ("a response for the key is stored"): another request with the same key whose inner call completed `ok` before
      this request's (last) call at a cache boundary.
    -> {request id: set of same-key request ids}"""
    has_co = "coalesce" in layers
    detached = has_co and any(layer_detaches(l) for l in layers[:layers.index("coalesce")])
    cache_b = [j for j, l in enumerate(layers) if l == "cache"]
    if not (has_co or cache_b) or len(reqs) < 2:
        return {}
    by_key = {}
    for c, rq in reqs.items():
        by_key.setdefault(_key(rq["tag"]), []).append(c)
    if all(len(v) < 2 for v in by_key.values()):
        return {}
    tag2c = {rq["tag"]: c for c, rq in reqs.items()}
    INF = len(lines) + 1
    start, end, cache_call, ok_done = {}, {}, {}, {}
    for i, l in enumerate(lines):
        _, w = tparse(l)
        if len(w) >= 4 and w[1] == "call" and w[0][:1] == "b" and w[0][1:].isdigit():
            c = tag2c.get(w[3])
            if c is not None:
                if w[0] == "b0":
                    start.setdefault(c, i)
                if int(w[0][1:]) in cache_b:
                    cache_call[c] = i
        elif len(w) >= 3 and w[0] == "result":
            end.setdefault(w[1], i)
        elif len(w) >= 4 and w[0] == "inner_done" and w[3] == "ok":
            ok_done.setdefault(w[1], i)
    for pos, m in meta:
        w = m.split()
        if len(w) >= 2 and w[0] == "#drop" and pos >= 0:
            end.setdefault(w[1], pos)
    out = {}
    for cs in by_key.values():
        if len(cs) < 2:
            continue
        for c in cs:
            for q in cs:
                if q == c or q not in start:
                    continue
                overlap = has_co and c in start and start[q] < end.get(c, INF) and (detached or end.get(q, INF) > start[c])
                stored = c in cache_call and q in ok_done and ok_done[q] < cache_call[c]
                if overlap or stored:
                    out.setdefault(c, set()).update(cs)
    return out


def cache_hit_hoards(cfg, layers, reqs, lines, meta):
    """A request answered from the cache never calls the instance below the cache that its caller polled ready: what that
    instance reserved in `poll_ready` (a ConcurrencyLimit permit, a Buffer slot) stays reserved for as long as the caller
    keeps the service instance (`how=held`) — tower's contract, not a layer's doing. With few permits other requests may
    then wait for ever: an observation about the composition, like `hoarding_possible`."""
    if cfg.get("inner", "strict") == "strict" or "cache" not in layers:
        return False
    return any(rq["how"] == "held" for rq in reqs.values()) and bool(keyed_interference(layers, reqs, lines, meta))


def _rl_cfg(cfg):
    """`rl=<limit>:<period ms>:<window>:<timeout ms>` -> (limit, period, window, timeout) or None (the limiter is never at its limit)"""
    if "rl" not in cfg:
        return None
    p = cfg["rl"].split(":")
    num = lambda i, d: int(p[i]) if len(p) > i and p[i].isdigit() else d
    return num(0, 100000), num(1, 1000), (p[2] if len(p) > 2 else "fixed"), num(3, 0)


def rate_limiter_decisions(lines):
    """the decisions the rate limiters report through their listeners: [(line index, t, layer, 'acquired'|'rejected')]"""
    out = []
    for i, l in enumerate(lines):
        t, w = tparse(l)
        if len(w) >= 3 and w[0] == "rl" and w[1].isdigit():
            out.append((i, t, int(w[1]), w[2]))
    return out


def unjustified_rejection(cfg, lines):
    """The rate limiter's protective condition: the permits of the current window are used up. Necessary for that, whatever the
    window type: at least `limit` permits were handed out by this limiter within the last period (fixed window: since the
    window started; sliding log: entries younger than the period; sliding counter: the current bucket, younger than one period, plus
    the previous one, which began less than two periods before it) — so a rejection without them is a rejection of an
    untriggered limiter. (Whether every rejection that IS due happens is C02's business.)"""
    rl = _rl_cfg(cfg)
    if rl is None:
        return None
    limit, period, window, _ = rl
    span = 3 * period if window == "counter" else period
    dec = rate_limiter_decisions(lines)
    for i, t, j, what in dec:
        if what != "rejected":
            continue
        recent = sum(1 for _, t2, j2, w2 in dec if j2 == j and w2 == "acquired" and t - span < t2 <= t)
        if recent < limit:
            return ("line %d: the rate limiter (layer %d, %d permits per %d ms, %s window) rejected a request at t=%d although it had handed out only "
                    "%d permits in the %d ms before: its protective condition was not triggered" % (i, j, limit, period, window, t, recent, span))
    return None


def _results(lines):
    res = {}
    for l in lines:
        _, w = tparse(l)
        if w and w[0] == "result" and len(w) >= 3:
            res.setdefault(w[1], w[2])
    return res


def calls_bound(steps):
    """how many calls one request can cause at any one boundary, attempts side by side apart: a request is re-issued only
    after a call made for it has failed, and beyond its script every call succeeds"""
    return sum(1 for _, out in steps if out != "ok") + 1


def predictions(case, lines, meta):
    """For which requests is the answer determined by the layers' configurations and the request's own scripted outcomes —
    and what is it? -> {request id: (answer, inner calls, span, demand)}. Not predicted (those are checked by the weaker,
    configuration-independent clauses): requests that never were handed to the stack, requests that share a key under a
    cache / coalesce layer, cases in which a caller is dropped, readiness errors meeting re-issued attempts, a Buffer
    under racing attempts, and everything `denote` leaves open (racing hedges, limits that other requests may use up)."""
    cfg, layers = _cfg(case)
    reqs = _requests(case)
    effs = stack_cfgs(cfg, layers)
    reissues = any((e[0] == "retry" and e[1] >= 2) or e[0] == "reconnect" or (e[0] == "hedge" and e[1] >= 2) for e in effs)
    racing = any(e[0] == "hedge" and e[1] >= 2 for e in effs)
    if "e" in cfg.get("ready", "") and reissues:
        return {}
    if cfg.get("inner", "strict") == "buffer" and racing:
        return {}
    if any(o.split()[:1] in (["drop"], ["dropall"]) or (o.startswith("arrive") and (" gone=1" in o or " clonepanic=1" in o)) for o in case["ops"]):
        return {}
    tags = [rq["tag"] for rq in reqs.values()]
    if len(set(tags)) != len(tags):
        return {}
    keyed = any(l in ("cache", "coalesce") for l in layers)
    fan = fanout_of(effs)
    plan = [(0, x.partition(":")[2]) for x in cfg.get("lqinner", "0:ok").split(",")]
    probes = (int(cfg.get("lq", "0")) + int(cfg.get("lqe", "0"))) * calls_bound(plan) * fan
    tag2c = {rq["tag"]: c for c, rq in reqs.items()}
    arrived, called_at, out = [], {}, {}
    for i, l in enumerate(lines):
        t, w = tparse(l)
        if len(w) >= 4 and w[0] == "b0" and w[1] == "call" and w[3] in tag2c:
            c = tag2c[w[3]]
            called_at.setdefault(c, t)
            if c not in arrived:
                arrived.append(c)
        elif len(w) >= 3 and w[0] == "result" and w[1] in reqs:
            c = w[1]
            if c not in arrived:
                arrived.append(c)
            if c not in called_at or c in out:
                continue
            if keyed and any(q != c and _key(reqs[q]["tag"]) == _key(reqs[c]["tag"]) for q in reqs):
                continue
            demand = probes + sum(calls_bound(reqs[q]["steps"]) * fan for q in arrived)
            ctx = {"tag": reqs[c]["tag"], "demand": demand, "span": t - called_at[c]}
            r = denote(effs, ctx, 0, [o for _, o in reqs[c]["steps"]])
            if r is not None:
                out[c] = (r[0], r[1], ctx["span"], demand)
    return out


def render_answer(ans, tag, serials):
    ser = lambda o: serials[o - 1] if 0 < o <= len(serials) else "#%d" % o
    if ans[0] == "ok":
        return "ok:%s:tag=%s" % (ser(ans[1]), tag)
    if ans[0] == "lit":
        return ans[1]
    return "err:%sierr%d:%s%s" % (ans[1], ans[2], ser(ans[3]), ans[4])


# ----------------------------------------------------------------------------- monitors

def mon_readiness_contract(case, lines, meta):
    """every call reaches a ready instance; nothing panics; nothing is wedged"""
    reqs = _requests(case)
    res = _results(lines)
    for i, l in enumerate(lines):
        _, w = tparse(l)
        if not w:
            continue
        if w[0] == "inner_call":
            k = kvs(l)
            if k.get("ready") != "1":
                return "line %d: the inner service was called on an instance that had not observed readiness since its last call: %s" % (i, l)
        elif w[0] == "result" and len(w) >= 3 and w[2] == "panic":
            if reqs.get(w[1], {}).get("clonepanic") and any(out.startswith("err") for _, out in reqs[w[1]]["steps"]):
                continue        # `Clone` of the error of this request's inner call is scripted to unwind: the wrapped service's code
            cfg0, layers0 = _cfg(case)
            return ("line %d: request %s, sent through %s, panicked — no inner call is scripted to panic: the stack itself did (a call of a "
                    "Buffer / ConcurrencyLimit instance that had not reserved capacity — `poll_ready must be called first` —, or a layer that "
                    "cannot cope with its own configuration%s); the request was %s" % (
                        i, w[1], describe_cfg(layers0, cfg0),
                        ", or — this caller lives on a plain OS thread outside any tokio context (`off=1`) — an outermost executor layer "
                        "that does not carry the runtime it was built on" if reqs.get(w[1], {}).get("off") else "",
                        "forwarded to the wrapped service" if any(tparse(x)[1][:2] == ["inner_call", w[1]] for x in lines) else "never forwarded to the wrapped service"))
    # wedged requests: only decided when the case lets every timer expire after the last arrival
    # (>= 3 rounds of `adv >= 25` + `settle`; keeps shrunk cases meaningful)
    rounds = 0
    ops = [o.split() for o in case["ops"]]
    for j, w in enumerate(ops):
        if w and w[0] == "arrive":
            rounds = 0
        elif w and w[0] == "adv" and int(w[1]) >= 25 and j + 1 < len(ops) and ops[j + 1][:1] == ["settle"]:
            rounds += 1
    _, layers = _cfg(case)
    if "hedge" in layers:
        # the quiet hedge waits one hour for its second attempt whenever an attempt fails
        nerr = sum(1 for rq in reqs.values() for _, out in rq["steps"] if out.startswith("err"))
        hours = sum(1 for w in ops if w[:1] == ["adv"] and int(w[1]) >= 3600000)
        if hours < nerr + 1:
            rounds = 0
    if (rounds >= 3 and not hoarding_possible(kvs(case["header"]), layers) and not waiters_hoard(kvs(case["header"]), layers, reqs)
            and not bulkhead_waiter_hoards(kvs(case["header"]), layers, reqs)
            and not cache_hit_hoards(kvs(case["header"]), layers, reqs, lines, meta)):
        for c, rq in reqs.items():
            if not rq["dropped"] and c not in res:
                why = ""
                fin = [q for q, o in reqs.items() if q != c and _key(o["tag"]) == _key(rq["tag"]) and q in res and o["keep"]]
                if fin:
                    why = ("; request(s) %s with the same key had been answered and only their FINISHED futures are kept by their callers: "
                           "a finished call is not in flight, nothing may wait for it" % ",".join(fin))
                return "request %s (tag %s) never got an answer although every timer was let to expire (wedged)%s" % (c, rq["tag"], why)
    return None


def hang_message(case, lines, meta):
    """what a hung case (the harness's wall-clock watchdog fired) means for this property"""
    cfg, layers = _cfg(case)
    last, back = [], set()
    for l in lines:
        w = tparse(l)[1]
        if w[:1] == ["pstart"] and "in-listener" in w:
            last = w
        elif w[:1] == ["pback"] and len(w) > 1:
            back.add(w[1])
    if last and last[1] not in back and last[-1] == "mid":
        at = int(cfg.get("lqat", "0"))
        return ("listeners only observe: a listener of layer %d (%s) re-entered the service (it sent probe request %s through the stack "
                "from inside the listener) and the call never completes — neither the listener's request nor the call that emitted the "
                "event returns, and the listeners registered after it are never told the event (is the event emitted while a "
                "non-reentrant lock that the call path takes is held?)" % (at, layers[at] if at < len(layers) else "?", last[1]))
    return "a call through the stack %s never returns" % ",".join(layers)


_BLINE = re.compile(r"^b(\d+)$")


def _bevents(lines):
    """(line index, boundary, [kind, args…])"""
    for i, l in enumerate(lines):
        _, w = tparse(l)
        if len(w) >= 3:
            m = _BLINE.match(w[0])
            if m:
                yield i, int(m.group(1)), w[1:]


def mon_boundary_contract(case, lines, meta):
    """the contract monitor of the design, replayed at every boundary"""
    _, layers = _cfg(case)
    n = len(layers)
    ready = {}      # boundary -> {instance: bool}
    bad = None
    for i, b, w in _bevents(lines):
        st = ready.setdefault(b, {"0": False})
        who = "harness: the driver" if b == 0 else "layer %d (%s)" % (b - 1, layers[b - 1] if b - 1 < n else "?")
        msg = None
        if w[0] == "clone" and len(w) >= 3:
            if w[1] not in st:
                msg = "%s cloned unknown instance %s at boundary %d" % (who, w[1], b)
            elif w[2] in st:
                msg = "%s: instance id %s issued twice at boundary %d" % (who, w[2], b)
            st[w[2]] = False
        elif w[0] == "poll" and len(w) >= 3:
            if w[1] not in st:
                msg = "%s polled unknown instance %s at boundary %d" % (who, w[1], b)
            elif w[2] == "ready":
                st[w[1]] = True
            elif w[2] == "err":
                st[w[1]] = False
        elif w[0] == "call" and len(w) >= 3:
            if not st.get(w[1], False):
                msg = "line %d: %s called instance %s of its inner service (boundary %d, request tag %s) which had not observed readiness since its previous call (%s)" % (
                    i, who, w[1], b, w[2], "a fresh clone, or not polled ready again after its last call" if w[1] in st else "unknown instance")
            st[w[1]] = False
        if msg:
            if b == 0:
                return msg if msg.startswith("harness:") else "harness: " + msg
            if bad is None:
                bad = msg
    return bad


def detached_call_not_forwarded(case, lines):
    """The executor has no protective condition and runs the wrapped call in a task of its own, which "continues to run to
    completion when the response future is dropped": every call it receives (`b<j> call … <tag>`) is forwarded to its inner
    service exactly once (`b<j+1> call … <tag>`) by the end of the case (the runtime has a turn after every operation) —
    whether the caller polls the call future, drops it later (`drop`) or at once (`arrive … gone=1`)."""
    cfg, layers = _cfg(case)
    reqs = _requests(case)
    by_tag = {rq["tag"]: (c, rq) for c, rq in reqs.items()}
    for j, l in enumerate(layers):
        if BASE.get(l) != "executor":
            continue
        got, sent = {}, {}
        for i, b, w in _bevents(lines):
            if w[0] == "call" and len(w) >= 3 and b in (j, j + 1):
                d = got if b == j else sent
                d[w[2]] = d.get(w[2], 0) + 1
        for tag, n in got.items():
            if sent.get(tag, 0) != n and tag in by_tag:
                c, rq = by_tag[tag]
                how = ("its caller dropped the call future right after call(), before the first poll (gone=1)" if rq.get("gone")
                       else "its caller was dropped" if rq["dropped"] else "its caller kept polling")
                return ("request %s (tag %s) through %s: layer %d (executor) was called with it %d time(s) and forwarded it %d time(s) to its "
                        "inner service — the executor has no protective condition and its spawned task runs to completion whether or not "
                        "anybody waits for the answer (%s): exactly once per call" % (
                            c, tag, describe_cfg(layers, cfg), j, n, sent.get(tag, 0), how))
    return None


def mon_transparent(case, lines, meta):
    """untriggered: exactly one inner call, request unchanged, that call's outcome under the pass-through wrappers"""
    _, layers = _cfg(case)
    reqs = _requests(case)
    res = _results(lines)
    calls = {}      # tag -> [(c, serial)]
    for i, l in enumerate(lines):
        _, w = tparse(l)
        if w and w[0] == "inner_call" and len(w) >= 3:
            k = kvs(l)
            calls.setdefault(k.get("tag"), []).append((w[1], w[2]))
            rq = reqs.get(w[1])
            if rq is None and w[1].isdigit() and int(w[1]) >= PROBE_FIRST and k.get("tag") == w[1]:
                continue            # a probe call made by a listener (tag = id); its answer is checked below
            if rq is None:
                return "line %d: inner call for a request nobody made: %s" % (i, l)
            if k.get("tag") != rq["tag"]:
                return "line %d: request %s was made with tag %s but reached the inner service with tag %s" % (i, w[1], rq["tag"], k.get("tag"))
    for l in lines:
        _, w = tparse(l)
        if len(w) >= 3 and w[0] == "presult" and w[2].startswith("ok:"):
            # an ok answer to a listener's probe call is the answer of one of ITS inner calls
            tag = str(PROBE_FIRST + int(w[1]))
            m = re.match(r"^ok:(\d+):tag=(\d+)$", w[2])
            if not m or m.group(2) != tag or m.group(1) not in [k for _, k in calls.get(tag, [])]:
                return "probe call %s (tag %s) was answered %s, which is not the response of one of its inner calls %s" % (
                    w[1], tag, w[2], [k for _, k in calls.get(tag, [])])
    bad = unjustified_rejection(kvs(case["header"]), lines)
    if bad:
        return bad
    bad = detached_call_not_forwarded(case, lines)
    if bad:
        return bad
    rl_small = _rl_cfg(kvs(case["header"])) is not None and "ratelimiter" in layers
    keyed = keyed_interference(layers, reqs, lines, meta)
    cfg = kvs(case["header"])
    effs = stack_cfgs(cfg, layers)
    predicted = predictions(case, lines, meta)
    for c, rq in reqs.items():
        r = res.get(c)
        mine = calls.get(rq["tag"], [])
        if r is None or rq["dropped"] or rq.get("clonepanic"):
            continue
        if c in predicted:
            # the layers' configurations and the request's own outcomes determine the answer: forwarded exactly as often as
            # the configuration allows (once, unless a retry / reconnect layer may re-issue it and its calls fail), and the
            # answer is the last call's response or error, unchanged but for the pass-through variants (or what a fallback
            # that handles the error makes of it)
            ans, k, span, demand = predicted[c]
            exp = render_answer(ans, rq["tag"], [x for _, x in mine])
            if len(mine) != k or r != exp:
                outs = ",".join(o for _, o in rq["steps"])
                return ("request %s (tag %s, scripted outcomes of its inner calls: %s; beyond them success) through %s: no layer's protective "
                        "condition allows anything but forwarding it %d time(s) and answering %s (the %s inner call's outcome, unchanged but "
                        "for the pass-through variants) — it was forwarded %d time(s) (inner calls %s) and answered %s" % (
                            c, rq["tag"], outs, describe_cfg(layers, cfg), k, exp,
                            "last" if k > 1 else "one", len(mine), [x for _, x in mine], r))
            continue
        if rl_small and "ratelimiter!limited" in r and c not in keyed:
            # rejected by a rate limiter whose window is used up (justified: see above): a triggered layer. What is left of
            # transparency: the request was not forwarded (unless an earlier attempt of a retry / reconnect was), and every
            # layer above the limiter passes the rejection on like any error of its inner service
            if mine and not triggered(layers, rq, cfg):
                return "request %s (tag %s) was rejected by the rate limiter (%s) and yet reached the inner service (%d calls)" % (c, rq["tag"], r, len(mine))
            above = layers[:layers.index("ratelimiter")]
            # (a fallback above that handles every error, or a retry of every error, legitimately deals with the rejection too)
            absorbs = any((l == "fallback" and layer_cf(cfg, j).get("hp", "never") in ("all", "unset")) or
                          (l == "retry" and layer_cf(cfg, j).get("ro", "e1") == "all") for j, l in enumerate(above))
            if layers.count("ratelimiter") == 1 and not triggered(layers, rq, cfg) and not absorbs:
                exp = "err:" + chain(layers[:layers.index("ratelimiter")], "ratelimiter!limited", True, cfg)
                if r != exp:
                    return "request %s (tag %s) was rejected by the rate limiter: expected %s, got %s" % (c, rq["tag"], exp, r)
            continue
        if fallback_may_answer(layers, rq, cfg):
            continue            # (what a fallback makes of an error it handles is checked where the answer is predicted)
        if c in keyed:
            # a keyed layer may legitimately answer with the response of a same-key request's call (coalesced / cached)
            if r.startswith("ok:"):
                m = re.match(r"^ok:(\d+):tag=(\d+)$", r)
                same = {reqs[q]["tag"] for q in keyed[c]}
                if not m or m.group(2) not in same or m.group(1) not in [k for _, k in calls.get(m.group(2), [])]:
                    return "request %s (tag %s) was answered %s, which is not the response of an inner call made for its key (requests %s)" % (
                        c, rq["tag"], r, sorted(keyed[c]))
            continue
        if r == "notready" or r.startswith("readyerr:"):
            if mine:
                return "request %s was answered %s but reached the inner service (%d calls)" % (c, r, len(mine))
            continue
        if r.startswith("ok:"):
            # in every case (triggered or not) an ok answer is the answer of one of this request's own inner calls
            m = re.match(r"^ok:(\d+):tag=(\d+)$", r)
            if not m or m.group(2) != rq["tag"] or m.group(1) not in [k for _, k in mine]:
                return "request %s (tag %s) was answered %s, which is not the response of one of its inner calls %s" % (c, rq["tag"], r, [k for _, k in mine])
        if triggered(layers, rq, cfg):
            continue
        if len(mine) != 1:
            return "request %s (tag %s, no layer triggered) caused %d inner calls, expected exactly one" % (c, rq["tag"], len(mine))
        k = mine[0][1]
        lat, out = rq["steps"][0]
        if out == "ok":
            exp = "ok:%s:tag=%s" % (k, rq["tag"])
        else:
            exp = "err:" + chain(layers, "i%s:%s" % (out, k), True, cfg)
        if r != exp:
            return "request %s (tag %s, no layer triggered): expected %s, got %s" % (c, rq["tag"], exp, r)
    return None


def mon_readiness_errors(case, lines, meta):
    """a failed poll_ready of the inner service surfaces as a readiness error and no call is made for it"""
    cfg, layers = _cfg(case)
    if cfg.get("inner", "strict") != "strict":
        return None
    n = len(layers)
    res = _results(lines)
    exp = "readyerr:" + chain(layers, "ierr9:0", False, cfg)
    words = [tparse(l)[1] for l in lines]
    inner_err = 0
    surfaced_at_b0 = 0
    called = set()
    for i, w in enumerate(words):
        if not w:
            continue
        if w[0] == "inner_call":
            called.add(w[1])
        if w[0] == "b%d" % n and w[1] == "poll" and w[3] == "err":
            inner_err += 1
        if w[0] == "b0" and w[1] == "poll" and w[3] == "err":
            surfaced_at_b0 += 1
            nxt = words[i + 1] if i + 1 < len(words) else []
            if not (len(nxt) >= 3 and nxt[0] == "result" and nxt[2].startswith("readyerr:")):
                return "line %d: poll_ready of the stack failed but the caller was not answered with the readiness error (next: %s)" % (i, " ".join(nxt))
            if nxt[2] != exp:
                return "line %d: readiness error surfaced as %s, expected %s" % (i, nxt[2], exp)
            if nxt[1] in called:
                return "line %d: request %s got a readiness error and yet reached the inner service" % (i, nxt[1])
            # the failure must come from the inner service: walk down the chain of polls just before
            j, b = i - 1, 1
            while b <= n:
                if j < 0 or words[j][:2] != ["b%d" % b, "poll"] or words[j][3] != "err":
                    return "line %d: readiness error at the top without a failing poll_ready at boundary %d" % (i, b)
                j, b = j - 1, b + 1
        if w[0] == "result" and len(w) >= 3 and w[2].startswith("readyerr:"):
            prev = words[i - 1] if i > 0 else []
            if not (prev[:2] == ["b0", "poll"] and prev[3] == "err"):
                return "line %d: %s without a failing poll_ready" % (i, " ".join(w))
    # every failed poll_ready of the inner service ends exactly one request with that error
    # (inside a retry / reconnect attempt it is returned as the call's error; a hedge may win with another attempt)
    seen = sum(1 for r in res.values() if "ierr9:0" in r)
    dropped = any(r["dropped"] for r in _requests(case).values())
    for j, l in enumerate(layers):
        cf = layer_cf(cfg, j)
        if (l == "fallback" and cf.get("hp", "never") in ("all", "unset")) or (l == "retry" and cf.get("ro", "e1") == "all" and cf.get("ma", "3") not in ("0", "1")):
            return None     # a fallback that handles every error / a retry of every error legitimately absorbs a readiness error met by an attempt
    if "coalesce" in layers and keyed_interference(layers, _requests(case), lines, meta):
        return None         # a coalesced request shares its leader's answer, the readiness error included
    if any(l in HEDGES_THAT_REPOLL for l in layers) or dropped:
        if seen > inner_err:
            return "%d answers carry the readiness error but the inner service failed poll_ready only %d times" % (seen, inner_err)
    elif seen != inner_err:
        return "the inner service failed poll_ready %d times but %d answers carry the readiness error" % (inner_err, seen)
    return None


def raced(layers, rq):
    """do several attempts for this request run side by side (so that which one answers is the scheduler's choice)?"""
    lat, out = rq["steps"][0]
    return any(l == "hedge_parallel" or (l == "hedge_fire" and (lat >= 5 or out != "ok")) or (l == "hedge" and out != "ok")
               for l in layers)


_SERIAL = re.compile(r"^ok:\d+|ierr(\d):\d+")


def _modulo_serial(r):
    return _SERIAL.sub(lambda m: "ierr%s:*" % m.group(1) if m.group(1) else "ok:*", r)


def mon_listeners(case, lines, meta):
    """listeners only observe: same answers with and without panicking listeners, every listener sees every event"""
    cfg, layers = _cfg(case)
    reqs = _requests(case)
    callpath = cfg.get("lqe", "0") != "0"
    mid = set()         # probes made by a call-path listener: the emitting call is in flight, their outcome is not compared
    for i, l in enumerate(lines):
        _, w = tparse(l)
        if not w:
            continue
        if w[0] == "pstart" and len(w) >= 4 and w[3] == "mid":
            mid.add(w[1])
        if w[0] == "twin-mismatch":
            rq = reqs.get(w[1])
            if callpath and len(w) > 3 and _modulo_serial(w[2]) == _modulo_serial(w[3]):
                # the probe made inside a call-path listener takes its inner serial number before the emitting call's own
                # inner call, the twin's probe (made after the step) after it: same answers up to the serial
                continue
            if rq and len(w) > 3 and raced(layers, rq) and _modulo_serial(w[2]) == _modulo_serial(w[3]):
                # Racing hedged attempts: which attempt's response is delivered first is decided by the order in which
                # tokio runs tasks that became runnable at one instant; the two stacks share one runtime and the one
                # polled first has its tasks first in the run queue (swapping the two swaps the answers). Same kind of
                # answer, same payload, a different one of the request's own inner calls: not a listener effect.
                continue
            return "line %d: request %s is answered %s with panicking listeners (mask %s) and %s without" % (
                i, w[1], w[2], kvs(case["header"]).get("lp"), w[3] if len(w) > 3 else "?")
        if w[0] == "presult" and len(w) >= 3 and w[1] in mid:
            tw = kvs(l).get("twin", "?")
            if w[2] == "pending" and tw not in ("pending", "none", "?"):
                return ("line %d: the request a listener of layer %s (%s) sent through the service from inside the listener (probe %s) never "
                        "completes; the same request made right after that step ends %s" % (
                            i, cfg.get("lqat", "0"), layers[int(cfg.get("lqat", "0"))] if int(cfg.get("lqat", "0")) < len(layers) else "?", w[1], tw))
            continue
        if w[0] == "presult" and len(w) >= 3:
            tw = kvs(l).get("twin", "?")
            if _modulo_serial(w[2]) != _modulo_serial(tw):
                return ("line %d: probe call %s, made from inside a completion listener of the outermost layer (%s), ends %s; the same call "
                        "made right after that step ends %s: a call's outcome depends on what a listener does (is something of the finished "
                        "call still held while its completion listeners run?)" % (i, w[1], layers[0] if layers else "?", w[2], tw))
        if w[0] == "probe" and len(w) >= 3 and w[1] == "listeners":
            counts = w[2].split(",")
            if len(set(counts)) != 1:
                return "line %d: the three listeners were invoked %s times (a panicking listener kept others from being called?)" % (i, w[2])
            tw = kvs(l).get("twin")
            if callpath and any(l2 in HEDGES_THAT_REPOLL for l2 in layers):
                # racing hedged attempts + a probe made at a different moment than the twin's: how many attempts are
                # started / cancelled (and with them how many events are emitted) is the scheduler's choice
                tw = None
            if tw is not None and tw != w[2]:
                return "line %d: listener counts %s with panicking listeners, %s without" % (i, w[2], tw)
            k = kvs(l)
            if "cb" in k and "twincb" in k and k["cb"] != k["twincb"]:
                return ("line %d: reconnect's `on_reconnect` callback was told %s reconnect attempts, %s in the twin stack whose callbacks do not "
                        "panic (lp=%s, `on_state_change` panics on transitions lpt=%s): a panicking callback kept another observer from "
                        "receiving an event" % (i, k["cb"], k["twincb"], cfg.get("lp"), cfg.get("lpt", "7")))
    return None


# ----------------------------------------------------------------------------- coverage

def transitions(case, lines, meta=None):
    cfg, layers = _cfg(case)
    reqs = _requests(case)
    res = _results(lines)
    tags = ["layer-" + l for l in sorted(set(layers))]
    tags += ["mw-" + b for b in sorted({BASE.get(l, l) for l in layers})]
    tags.append("inner-" + cfg.get("inner", "strict"))
    tags.append("depth-%d" % min(len(layers), 5))
    if layers in DOC_STACKS:
        tags.append("documented-stack")
    if hoarding_possible(cfg, layers):
        tags.append("hedge-over-coalesce-over-reserving-inner")
        if any(c not in res and not rq["dropped"] for c, rq in reqs.items()):
            tags.append("capacity-deadlock-observed")
    if cfg.get("rec", "0") != "0":
        tags.append("inner-recovery")
        if cfg.get("recall") == "1":
            tags.append("inner-recovery-all-instances")
    rl = _rl_cfg(cfg) if "ratelimiter" in layers else None
    if rl:
        tags += ["rl-near-limit", "rl-window-" + rl[2]]
        if rl[3] > 0:
            tags.append("rl-waits")
        dec = rate_limiter_decisions(lines)
        for i, t, j, what in dec:
            if what == "rejected":
                tags.append("rl-rejected")
            elif any(w2 == "rejected" and j2 == j and i2 < i for i2, _, j2, w2 in dec):
                tags += ["rl-forwards-after-rollover", "rl-forwards-after-rollover-" + rl[2]]
    if "reconnect" in layers:
        lp, lpt = int(cfg.get("lp", "0")), int(cfg.get("lpt", "7"))
        for l in lines:
            k = kvs(l)
            if " probe listeners " in " " + l and k.get("cb", "0") != "0":
                tags.append("reconnect-attempt-reported")
                if lp & 7 and lpt & 2:
                    tags.append("state-change-callback-panics-on-reconnecting")
                if lp & 7 and not lpt & 2:
                    tags.append("state-change-callback-panics-on-other-transitions")
                if lp & 8:
                    tags.append("on-reconnect-callback-panics")
    if cfg.get("lp", "0") != "0":
        tags.append("listener-panic")
    if cfg.get("lp") in ("7", "15"):
        tags.append("all-listeners-panic")
    n = len(layers)
    ncalls = {}
    inflight = set()
    maxfl = 0
    for l in lines:
        _, w = tparse(l)
        if not w:
            continue
        if w[0] == "inner_call":
            ncalls[w[1]] = ncalls.get(w[1], 0) + 1
            inflight.add(w[2])
            maxfl = max(maxfl, len(inflight))
        elif w[0] in ("inner_done", "inner_drop"):
            inflight.discard(w[2])
            if w[0] == "inner_drop":
                tags.append("inner-dropped")
        elif w[0] == "b%d" % n and w[1] == "poll":
            if w[3] == "pending":
                tags.append("readiness-pending")
            elif w[3] == "err":
                tags.append("readiness-error")
        elif w[0] == "probe":
            tags.append("probe")
        elif w[0] == "twin-mismatch":
            tags.append("twin-race-winner-differs")
        elif w[0] == "pstart" and w[-1] == "mid":
            if "in-listener" in w:
                at = int(cfg.get("lqat", "0"))
                tags.append("callpath-probe")
                tags.append("callpath-probe-in-" + BASE.get(layers[at], layers[at]))
        elif w[0] == "pstart":
            tags.append("listener-probe")
            tags.append("listener-probe-over-" + BASE.get(layers[0], layers[0]))
        elif w[0] == "presult" and len(w) >= 3:
            tags.append("probe-ok" if w[2].startswith("ok:") else "probe-err" if w[2].startswith("err:") else "probe-" + w[2].split(":")[0])
    if maxfl >= 2:
        tags.append("concurrent-inner-calls")
    # a future left un-polled for (about) the one-hour timeout / hedge delay after `call()`
    pause, waiting = {}, set()
    for o in case["ops"]:
        w = o.split()
        if w[:1] == ["arrive"] and len(w) > 1:
            waiting.add(w[1])
            pause[w[1]] = 0
        elif w[:1] == ["adv"] and len(w) > 1:
            for c in waiting:
                pause[c] += int(w[1])
        elif w[:1] == ["settle"]:
            waiting.clear()
        elif w[:1] == ["poll"] and len(w) > 1:
            waiting.discard(w[1])
    if any(v >= 3599990 for v in pause.values()):
        tags.append("late-first-poll")
        if any(BASE.get(l) == "timelimiter" for l in layers):
            tags.append("late-first-poll-timelimiter")
    keyed = keyed_interference(layers, reqs, lines, meta or [])
    if any(o.split()[:1] == ["release"] for o in case["ops"]):
        tags.append("finished-future-released")
    order = list(reqs)
    for c, rq in reqs.items():
        r = res.get(c, "none")
        if rq["keep"]:
            tags.append("finished-future-kept")
        earlier = [q for q in order[:order.index(c)] if _key(reqs[q]["tag"]) == _key(rq["tag"])]
        if earlier:
            tags.append("same-key")
            kl = [l for l in ("coalesce", "cache") if l in layers]
            if c in keyed:
                tags += ["same-key-joined-or-cached-" + l for l in kl]
            else:
                tags += ["same-key-forwarded-" + l for l in kl]
                if any(reqs[q]["keep"] for q in earlier):
                    tags += ["same-key-after-kept-finished-" + l for l in kl]
        if rq["how"] == "held":
            tags.append("held-instance")
        if rq["polls"] > 1:
            tags.append("multi-poll")
        if rq["dropped"]:
            tags.append("dropped")
        k = ncalls.get(c, 0)
        trig = triggered(layers, rq, cfg)
        if k > 1 and any(l in ("retry", "reconnect") for l in layers) and rq["steps"][0][1] == "err1":
            tags.append("retried")
        if k > 1 and any(BASE.get(l) == "hedge" for l in layers):
            tags.append("hedged")
        if r.startswith("ok:"):
            tags.append("ok-triggered" if trig else "ok-transparent")
        elif r.startswith("err:"):
            tags.append("err-triggered" if trig else "err-transparent")
            if "ierr9:0" in r:
                tags.append("readiness-error-in-attempt")
        elif r.startswith("readyerr:"):
            tags.append("readyerr")
        elif r == "notready":
            tags.append("notready")
    if "inner-recovery" in tags and "retried" in tags and "readiness-pending" in tags:
        tags.append("recovery-pending-under-retry")
    tags += config_tags(case, lines, meta or [], cfg, layers, reqs, res, ncalls)
    return tags


def config_tags(case, lines, meta, cfg, layers, reqs, res, ncalls):
    """coverage of the layers' own knobs: which boundary values were exercised, and with which kind of request"""
    tags = []
    pred = predictions(case, lines, meta)
    for c, rq in reqs.items():
        if rq.get("gone"):
            tags.append("caller-gone-before-first-poll")
            if any(BASE.get(l) == "executor" for l in layers) and ncalls.get(c, 0) >= 1:
                tags.append("caller-gone-executor-still-forwards")
        if rq.get("clonepanic") and res.get(c) == "panic":
            tags.append("error-clone-panics")
            if any(q != c and _key(o["tag"]) == _key(rq["tag"]) and res.get(q, "").startswith(("ok:", "err:")) for q, o in reqs.items()):
                tags.append("error-clone-panics-later-same-key-request-answered")
        if rq.get("off"):
            tags.append("caller-outside-runtime")
            if c in pred and c in res:
                tags.append("caller-outside-runtime-answer-predicted")
    for c, (ans, k, span, demand) in pred.items():
        tags.append("answer-predicted")
        if k > 1:
            tags.append("answer-predicted-after-%s" % ("retries" if k > 1 else "one-call"))
        if ans[0] == "lit":
            tags.append("answer-predicted-fallback-value")
    kinds_of = lambda c: [_kind(o) for _, o in reqs[c]["steps"]]
    for j, l in enumerate(layers):
        cf = layer_cf(cfg, j)
        if not cf and not (l == "ratelimiter" and "rl" in cfg):
            continue
        b = BASE.get(l, l)
        tags.append("cfg-" + b)
        answered = [c for c in reqs if c in res and c in pred]
        if l == "retry":
            ma = cf.get("ma", "3")
            tags.append("cfg-retry-ma" + (ma if ma in ("0", "1") else "n"))
            if cf.get("maf") == "1":
                tags.append("cfg-retry-max-attempts-fn")
            if cf.get("bo") == "0":
                tags.append("cfg-retry-zero-backoff")
            if "ro" in cf:
                tags.append("cfg-retry-predicate-" + cf["ro"])
            if "bk" in cf:
                tags.append("cfg-retry-backoff-setter-" + cf["bk"])
            if cf.get("po") == "1" and cf.get("ro", "e1") != "all":
                tags.append("cfg-retry-predicate-first")
                if any(kinds_of(c)[0] is not None and not _pred(cf.get("ro", "e1"))(kinds_of(c)[0]) for c in answered):
                    tags.append("cfg-retry-predicate-first-rejected-error")
            accepts = _pred(cf.get("ro", "e1"))
            for c in answered:
                ks = kinds_of(c)
                if ks[0] is not None and accepts(ks[0]):
                    n = max(int(ma) if ma.isdigit() else 3, 1)
                    if ma in ("0", "1"):
                        tags.append("cfg-retry-no-retries-on-retryable-error")
                    elif pred[c][1] >= n and pred[c][0][0] == "err" and len(layers) == 1:
                        tags.append("cfg-retry-attempts-exhausted-last-error")
        elif l == "fallback":
            st, hp = cf.get("st", "value"), cf.get("hp", "never")
            tags.append("cfg-fallback-" + st)
            for c in answered:
                ks = [k for k in kinds_of(c)[:1] if k is not None]
                if not ks:
                    tags.append("cfg-fallback-%s-success" % st)
                elif _pred(hp)(ks[0]):
                    tags.append("cfg-fallback-%s-handled" % st)
                else:
                    tags.append("cfg-fallback-%s-rejected" % st)
            if cf.get("ho") == "1":
                tags.append("cfg-fallback-predicate-first")
            if hp == "unset":
                tags.append("cfg-fallback-no-predicate")
        elif b == "hedge":
            n, d = hedge_eff(l, cf)
            tags.append("cfg-hedge-n%s" % (n if n <= 1 else "n"))
            if "d" in cf:
                tags.append("cfg-hedge-delay-" + ("zero" if d is None else "max" if d >= BIG else "ms"))
            if answered and n <= 1:
                tags.append("cfg-hedge-no-room-answered")
        elif b == "timelimiter":
            tags.append("cfg-timelimiter-" + ("max" if cf.get("to") == "max" else "huge"))
        elif l == "bulkhead":
            tags.append("cfg-bulkhead-" + ("one-slot-waits" if cf.get("mc") == "1" else "slots"))
        elif l == "cache":
            if cf.get("sz") == "1":
                tags.append("cfg-cache-one-entry")
            if "ttl" in cf:
                tags.append("cfg-cache-ttl-" + cf["ttl"])
        elif l == "ratelimiter":
            if any(c in pred for c in reqs):
                tags.append("cfg-ratelimiter-limit-reached-not-exceeded")
        elif l == "circuit":
            tags.append("cfg-circuit-cannot-trip")
            if any(ks and ks[0] is not None for ks in (kinds_of(c) for c in answered)):
                tags.append("cfg-circuit-cannot-trip-failing-calls")
        elif l == "adaptive":
            tags.append("cfg-adaptive-fixed-limit")
        elif l == "chaos":
            tags.append("cfg-chaos-" + ("no-error-fn" if cf.get("ef") == "0" else "error-fn-first" if cf.get("ero") == "1" else "latency-bounds"))
        elif l == "reconnect":
            tags.append("cfg-reconnect-" + ("no-policy" if cf.get("pol") == "none" else "max-attempts-" + cf["ma"] if "ma" in cf else "no-retry"))
            if any(kinds_of(c)[0] == 1 for c in answered):
                tags.append("cfg-reconnect-connection-failure-predicted")
        elif l == "executor":
            tags.append("cfg-executor-" + cf.get("ex", "handle"))
    return tags


def nontrivial(case, lines, tags):
    return any(t in ("retried", "hedged", "readiness-pending", "readiness-error", "held-instance", "listener-panic",
                     "err-transparent", "concurrent-inner-calls") for t in tags) or any(t.startswith("depth-") and t != "depth-1" for t in tags)


ALL_TR = (["layer-" + l for l in VARIANTS] + ["mw-" + l for l in THIRTEEN] +
          ["inner-strict", "inner-climit", "inner-buffer", "depth-1", "depth-2", "depth-3", "depth-4", "depth-5",
           "documented-stack", "listener-panic", "all-listeners-panic", "readiness-pending", "readiness-error",
           "readiness-error-in-attempt", "readyerr", "notready", "concurrent-inner-calls", "held-instance", "multi-poll",
           "dropped", "inner-dropped", "retried", "hedged", "ok-transparent", "err-transparent", "ok-triggered", "err-triggered", "probe",
           "inner-recovery", "inner-recovery-all-instances", "recovery-pending-under-retry", "late-first-poll", "late-first-poll-timelimiter",
           "listener-probe", "probe-ok", "probe-err", "finished-future-kept", "finished-future-released", "same-key",
           "same-key-joined-or-cached-coalesce", "same-key-joined-or-cached-cache", "same-key-forwarded-coalesce", "same-key-forwarded-cache",
           "same-key-after-kept-finished-coalesce", "same-key-after-kept-finished-cache", "callpath-probe"] +
          ["listener-probe-over-" + l for l in ("bulkhead", "circuit", "timelimiter", "retry", "fallback", "hedge")] +
          ["callpath-probe-in-" + l for l in ("chaos", "bulkhead", "ratelimiter", "circuit", "retry", "hedge", "timelimiter", "fallback")] +
          ["rl-near-limit", "rl-waits", "rl-rejected", "rl-forwards-after-rollover"] + ["rl-window-" + w for w in RL_WINDOWS] +
          ["rl-forwards-after-rollover-" + w for w in RL_WINDOWS] +
          ["reconnect-attempt-reported", "state-change-callback-panics-on-reconnecting", "state-change-callback-panics-on-other-transitions",
           "on-reconnect-callback-panics"] +
          ["answer-predicted", "answer-predicted-after-retries", "answer-predicted-fallback-value"] +
          ["cfg-" + l for l in ("retry", "fallback", "hedge", "timelimiter", "bulkhead", "cache", "ratelimiter", "circuit", "adaptive", "chaos",
                                "reconnect", "executor")] +
          ["cfg-retry-ma0", "cfg-retry-ma1", "cfg-retry-man", "cfg-retry-max-attempts-fn", "cfg-retry-zero-backoff", "cfg-retry-predicate-all",
           "cfg-retry-predicate-none", "cfg-retry-predicate-e2", "cfg-retry-no-retries-on-retryable-error", "cfg-retry-attempts-exhausted-last-error"] +
          ["cfg-fallback-%s-%s" % (st, x) for st in ("value", "valuefn", "fromerr", "fromreq", "service", "exc") for x in ("success", "handled", "rejected")] +
          ["cfg-fallback-predicate-first", "cfg-fallback-no-predicate", "cfg-hedge-n0", "cfg-hedge-n1", "cfg-hedge-nn", "cfg-hedge-delay-zero",
           "cfg-hedge-delay-max", "cfg-hedge-delay-ms", "cfg-hedge-no-room-answered", "cfg-timelimiter-max", "cfg-timelimiter-huge",
           "cfg-bulkhead-one-slot-waits", "cfg-cache-one-entry", "cfg-cache-ttl-0", "cfg-cache-ttl-max", "cfg-ratelimiter-limit-reached-not-exceeded",
           "cfg-circuit-cannot-trip", "cfg-circuit-cannot-trip-failing-calls", "cfg-adaptive-fixed-limit", "cfg-chaos-no-error-fn",
           "cfg-chaos-error-fn-first", "cfg-chaos-latency-bounds", "cfg-reconnect-no-policy", "cfg-reconnect-max-attempts-0",
           "cfg-reconnect-no-retry", "cfg-reconnect-connection-failure-predicted", "cfg-executor-handle", "cfg-executor-new",
           "cfg-executor-cur", "cfg-retry-backoff-setter-fn", "cfg-retry-backoff-setter-exp", "cfg-retry-predicate-first",
           "cfg-retry-predicate-first-rejected-error", "caller-outside-runtime", "caller-outside-runtime-answer-predicted",
           "caller-gone-before-first-poll", "caller-gone-executor-still-forwards", "error-clone-panics",
           "error-clone-panics-later-same-key-request-answered"])

LEVEL_NOTE = ("Trusted: Lean kernel; the transcription of each layer's call path as a transducer between boundary event streams in "
              "TR.Model.Stack (validated only by the sampled correspondence check); tower's BoxCloneService / MapErr adapters and the Tap "
              "wrapper of the harness forward poll_ready / call / clone unchanged; catch_unwind itself; that no lock is poisoned by a "
              "listener panic is observed, not modelled; the harness (virtual clock, manual poller) and the python monitors.")

def canon_boundary(lines):
    """what the Lean stack model reproduces: every boundary event, plus its own verdicts, plus the answer of every request
    (`result c …`: the model driver prints the answer `TR.Stack.denote` predicts from the layers' configurations and the
    request's scripted outcomes wherever it predicts one, and repeats the observed answer where it does not)"""
    out = []
    for l in lines:
        w = l.split()
        if len(w) >= 2 and (w[1].startswith("b") and w[1][1:].isdigit() or w[1] in ("not-allowed", "contract-violated")):
            out.append(l)
        elif len(w) >= 4 and w[1] == "result":
            out.append(" ".join(w[:3]) + " " + "_".join(w[3:]))
    return out


SPECS = {
    "C20": {
        "group": "stack",
        "module": "TR.Props.C20",
        "gen": gen,
        # the listener monitor comes first: a difference between the stack with panicking listeners and its twin
        # without is a listener effect, whatever else it looks like (a panic, a missing call, …)
        "monitors": [("c20-listeners-observe", mon_listeners),
                     ("c20-readiness-contract", mon_readiness_contract),
                     ("c20-boundary-contract", mon_boundary_contract),
                     ("c20-transparent", mon_transparent),
                     ("c20-readiness-errors-surface", mon_readiness_errors)],
        # only the lines the Lean model reproduces are compared; until the model driver exists the monitors decide alone
        "canon": canon_boundary,
        "hang_message": hang_message,
        "transitions": transitions,
        "nontrivial": nontrivial,
        "all_transitions": ALL_TR,
        "model_modules": ["TR.Model.Stack", "TR.Model.Listeners", "TR.Lemmas.Stack"],
        "lean_files": ["TR.Model.Stack", "TR.Model.Listeners", "TR.Lemmas.Stack", "TR.Model.TimeLimiter", "TR.Lemmas.TimeLimiter",
                       "TR.Model.Coalesce", "TR.Lemmas.Coalesce"],
        "sizes": (600, 20000),
        "rule": "each of the thirteen middleware alone (plus timelimiter without cancellation, single-attempt / firing / parallel hedge), the "
                "stacks of composition.rs and tower_primer.rs, and random stacks of 2-4 layers, over a strict contract-checking inner service "
                "(readiness scripts with pending and failing polls), tower ConcurrencyLimit and tower Buffer; 1-5 requests with distinct tags, "
                "ok / non-retried / retried error outcomes, latencies 0/5/20 ms, callers on clones or on one held instance with 1-3 readiness "
                "polls, listener panic masks 0..7 checked against a twin stack without panics; inner instances that stay Pending for 3-30 ms of "
                "virtual time after every call (aimed at retry / reconnect attempts, 5 ms steps); call futures first polled an hour after call() "
                "(sequential requests, time limiter in both modes forced into half of these stacks); a completion listener of the outermost layer "
                "(bulkhead incl. one-slot reject / bounded-wait, circuit, time limiter, retry, fallback, hedge) that itself drives 1-3 probe calls "
                "through a clone of the stack, compared with the same probes made right after the step in the twin; callers that keep their FINISHED "
                "call future (keep=1) and release it later or never, on every stack, with requests that share a key (tag mod 1000: coalesce, cache) "
                "one after the other and overlapping; a listener of ANY event of ANY one layer (admission, rejection, retry, pass-through, attempt "
                "started, and below the top also completion) that sends 1-3 requests through the whole stack from inside the listener (must come "
                "back; outer answers and listener counts as in the twin); a hung case is cut off by the harness's wall-clock watchdog and reported "
                "as a failing input; a rate limiter working AT its limit (rl=: 1-3 permits per 20/50 ms, fixed / sliding-log / sliding-counter window, "
                "fail-fast or waiting) with sequential requests that use the window up, are rejected, and follow after 0-3 refresh periods, over pending / "
                "failing readiness polls and reserving inner services (a rejection needs `limit` permits handed out within the window span); reconnect "
                "with BOTH callbacks registered, `on_state_change` panicking on a subset of the transitions (lpt) and / or a panicking `on_reconnect` "
                "(lp bit 3), what each callback is told compared with the twin; every layer's OWN knobs at boundary values that must still leave "
                "it out of the way of suitable requests (cf<j>=: retry max_attempts 0/1/n incl. max_attempts_fn, zero back-off, predicates all / "
                "none / other kind, runs of retryable failures as long as the attempts; fallback all six strategies x predicate accepting / rejecting / "
                "not set, either builder order; hedge max_hedged_attempts 0/1/n with zero / no / huge / Duration::MAX delay; time limits of hours and "
                "Duration::MAX; one-slot bulkhead that waits; one-entry cache with TTL 0 / 1 ms / MAX; a rate limit the case just reaches; circuit-breaker "
                "thresholds the case cannot reach; adaptive limit with min = max; chaos rates exactly 0 with / without error_fn; reconnect without policy / "
                "max_attempts 0 / no retry / unlimited; executor on an explicit handle) — the answer and the number of inner calls of every request "
                "whose fate is determined by configuration + scripted outcomes are predicted, by the Lean model (`denote`, compared line by line) and "
                "independently by the monitor; the answer of every call future at every boundary is logged (`ret`) and replayed through the per-layer "
                "acceptor of answers; distinct = distinct implementation log; "
                "non-trivial = a stack of >= 2 layers or a retry/hedge/readiness-pending/readiness-error/held-instance/listener-panic event",
        "trusted": ["transcription of the layers' call paths in TR.Model.Stack (sampled by the correspondence check)",
                    "harness: Tap at every boundary, strict inner service, twin stack, clock_gettime interposition, manual poller", "python monitors"],
        "assumptions": ["one poll of one call future is atomic (single-threaded runtime)",
                        "the caller of the stack honours the readiness contract (asserted at boundary 0)"],
        "level_text": "Theorems TR.Props.C20.{layer_contract,stack_contract,forwards_received,fresh_clone_rejected,recall_without_poll_rejected,"
                      "every_listener_runs,outcome_independent_of_listeners,no_catch_violates}: the bookkeeping all thirteen layers share (which inner "
                      "instance each outer instance holds; instances moved into requests by mem::replace, armed by take-over or by the layer's own "
                      "readiness poll) is a guarded transition system; for ANY number of layers and ANY interleaving of boundary events it can perform, "
                      "if the caller honours the readiness contract then every boundary does (induction over boundaries), and every inner call carries the "
                      "tag of a received outer call; emit runs every listener exactly once in order and no panic escapes, so outcomes do not depend on "
                      "listeners. {not_ready_polls_never_license,retry_after_pending_poll_rejected}: poll_ready answers other than Ready(Ok) - Pending for any "
                      "stretch, errors - never license a call; {listener_sees_final_state,release_after_emit_violates}: on a completion path that releases what "
                      "the finished call holds before it emits, a call made from inside / during a listener is admitted iff the same call right after the step is; "
                      "timelimiter_untriggered_never_times_out: a wrapped call faster than its timeout is never answered Timeout, however late the future is "
                      "first polled (timer counts from the first poll, both modes). coalesce_finished_call_is_not_joined (over the C11 model, from any state): "
                      "the poll that completes a leader frees its key in that step, a later same-key request is forwarded as a call of its own - whether the "
                      "finished future is kept or not is not even expressible; {reentrant_listener_only_observes,emit_under_lock_hangs,"
                      "chaos_emit_inside_rng_lock_violates}: on every call path that never emits while holding its non-reentrant lock a listener that sends a "
                      "request through the service changes nothing, and every path that does emit under the lock hangs with such a listener. "
                      "{ready_answer_needs_inner_ready,no_ready_answer_without_inner_poll,ready_without_inner_poll_rejected}: in every state of every layer a "
                      "ready answer of poll_ready needs the held inner instance to have just answered ready, and after any outer event (a call the layer "
                      "rejected itself included) it needs a new inner poll - what a layer believes about its own window is no substitute. "
                      "{every_callback_told,shared_guard_stops_at_first_panic,shared_guard_violates}: with one unwind guard per callback every callback that a "
                      "moment of the call path is reported to is told, for any callbacks and any panicking subset; under a shared guard the first panic is the "
                      "last invocation. TRANSPARENCY: TR.Stack.denote says what a stack of layers IN GIVEN CONFIGURATIONS makes of one request with given inner "
                      "outcomes (answer + number of inner calls); {retry_without_retries_is_transparent,retry_attempts_bounded_last_answer,retry_exhausts_attempts,"
                      "fallback_success_passes,fallback_rejected_error_passes_unchanged,fallback_accepted_error_gets_strategy,hedge_without_room_forwards_once,"
                      "hedge_not_due_is_transparent,unreachable_limit_is_transparent,reconnect_without_reconnects_forwards_once,"
                      "retry_rejected_error_passes_unchanged,retry_success_passes,retry_configuration_is_order_free (the order of the builder's setters "
                      "and the choice of back-off setter are not a configuration),executor_is_transparent_however_built (no protective condition, "
                      "whichever constructor and wherever the caller's thread lives)} are the per-layer facts, "
                      "untriggered_stack_is_transparent the induction over ANY list of layers: forwarded exactly once, that call's answer inside exactly the "
                      "pass-through variants. Over the OBSERVED log with answer events (acceptor RSt, conditional on acceptance like the contract theorems): "
                      "{layer_forwards_at_most_once,answers_never_outnumber_calls,layer_answer_made_of_inner_answer,passthrough_answer_is_inner_answer,"
                      "retry_answer_is_an_attempts_answer,fallback_answer_rule} per layer and {stack_forwards_at_most_once,stack_answers_explained} by induction "
                      "over the boundaries. {readiness_error_surfaces,readiness_error_not_invented,contract_with_error_surfacing}: a readiness error of a held "
                      "inner instance must be handed up at once and is never invented (acceptor YSt refines LSt). ALL acceptor theorems are of the form "
                      "'accepted => property': that the real layers' logs are accepted is what the correspondence check establishes. The model is tied to the code by replaying the boundary events the real stacks produce (Tap at every boundary) through it: "
                      "an event the idiom cannot perform is a disagreement. Exactly-once forwarding, result wrappers, readiness errors surfacing and the "
                      "twin-stack listener comparison (answers, listener counts, and the probe calls made by a re-entrant completion listener vs. right "
                      "after the step) are decided by implementation-side monitors (not theorems).",
        "level_note": LEVEL_NOTE,
    }
}
