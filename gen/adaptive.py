"""C13 — adaptive limiter: generators (limit algorithms under the baton scheduler + the service under
the poller), implementation-side monitors"""
import os
from gen.util import kvs, tparse, pick_outcome


def _weak_hook():
    """does the repository copy under test offer the weak-failure hook (`set_weak_fail_hook` in core's verif.rs)? Only then
    can the harness make a `compare_exchange_weak` fail spuriously in an `f<tid>` turn (harness/build.rs looks at the same file)"""
    p = os.path.join(os.environ.get("VERIF_REPO", "/repo"), "crates", "tower-resilience-core", "src", "verif.rs")
    try:
        with open(p) as f:
            return "pub fn set_weak_fail_hook" in f.read()
    except OSError:
        return False


_WEAK = _weak_hook()


def _weaken(rng, sched, nt, kind):
    """turns in which a `compare_exchange_weak` fails spuriously (`f<tid>`; Vegas's update of min_rtt is the only weak
    compare-exchange): after a turn of a thread, one or more such turns of the same thread — a thread that has just loaded
    min_rtt is in front of the compare-exchange —, and a few anywhere (ordinary turns unless the thread is there)"""
    if not _WEAK or kind != "vegas":
        return [str(x) for x in sched]
    p = rng.choice([0.0, 0.1, 0.25, 0.5])
    out = []
    for x in sched:
        if x < nt and rng.random() < 0.05:
            out.append("f%d" % x)
            continue
        out.append(str(x))
        if x < nt and rng.random() < p:
            out += ["f%d" % x] * rng.choice([1, 1, 2, 3])
        if rng.random() < 0.02:
            out.append("f%d" % rng.randrange(nt + 1))
    return out


# ----------------------------------------------------------------------------- part A: limit algorithms

_USIZE_MAX = 2 ** 64 - 1
# `N<c>`: record_successes(n) with a count at which the usize arithmetic saturates (`TR.Limit.succsCount`)
_HUGE_COUNTS = "abcde"


def _cfg(rng, service):
    kind = rng.choice(["aimd", "vegas"])
    if not service and rng.random() < 0.2:
        kind = "ctl"           # the bare AimdController (record_successes, reset, Clone, config)
    if service:
        mn = rng.choice([1, 1, 1, 2, 2, 0]) if rng.random() < 0.9 else 3
        mx = mn + rng.choice([0, 1, 1, 2, 3, 4])
        mx = max(mx, 1)
    else:
        mn = rng.choice([0, 1, 1, 2, 3, 5])
        mx = mn + rng.choice([0, 1, 2, 4, 8, 20, 100])
    initial = rng.choice([mn, mx, mx, (mn + mx) // 2, max(0, mn - 1), mx + 2, rng.randint(mn, mx)])
    # the decrease factor fnum/fden as an f64: dyadic (the product is exact) or not (0.7, 1/3, 0.58: two roundings and a
    # truncation, which the model transcribes exactly — `TR.Limit.f64Dec`)
    fden = rng.choice([1, 2, 2, 4, 8, 10, 10, 3, 7, 100])
    fnum = rng.choice([0, fden, fden // 2, rng.randint(0, fden), rng.randint(0, fden)])
    alpha = rng.choice([0, 1, 1, 2, 3])
    beta = alpha + rng.choice([0, 1, 2, 3])
    thr = rng.choice([0, 1, 2, 3, 5, 9]) if not service else rng.choice([0, 1, 2, 3, 5, 10])
    inc = rng.choice([1, 1, 2, 3])
    if rng.random() < (0.12 if service else 0.2):
        # `increase_by` is any usize: a step so large that `current + increase_by` (or `increase_by * n`) does not fit a
        # usize — the sum saturates, the clamp to max_limit comes after (`TR.Limit.aimdSuccNewSat_eq`); the values around
        # the point where the sum first overflows included
        inc = rng.choice([_USIZE_MAX, _USIZE_MAX, _USIZE_MAX - 1, _USIZE_MAX - rng.randint(0, mx + 3), _USIZE_MAX - initial,
                          min(_USIZE_MAX, _USIZE_MAX - initial + 1), 2 ** 63, 2 ** 63 + rng.randint(0, 3), _USIZE_MAX // 2, 2 ** 32,
                          rng.choice([2 ** 31, 2 ** 33, 2 ** 62])])
    h = "kind=%s min=%d max=%d initial=%d inc=%d fnum=%d fden=%d thr_ms=%d alpha=%d beta=%d" % (
        kind, mn, mx, initial, inc, fnum, fden, thr, alpha, beta)
    # the construction path: the algorithm's own builder (what older op files meant), `Aimd::new(AimdConfig…)` /
    # `Vegas::new(…)` / `AimdConfig::new().with_…`, or the builders handed out by `AdaptiveLimiterLayer::builder()`
    via = rng.choice(["builder", "builder", "new", "layer"])
    if via != "builder":
        h += " via=" + via
    return kind, h


def _prog(rng, n, kind, extra=0.0):
    """`extra`: share of the entry points beside record_success / record_failure / limit(): `X` record_dropped, `m` / `M`
    min_limit() / max_limit(); on the bare controller also `N<k>` record_successes(k), `R` reset(), `K` clone()"""
    s = ""
    for _ in range(n):
        r = rng.random()
        if extra > 0 and rng.random() < extra:
            if kind == "ctl" and rng.random() < 0.7:
                s += rng.choice(["N%d" % rng.choice([0, 1, 2, 2, 3, 5, 9]), "N%d" % rng.choice([2, 3, 9]), "R", "K",
                                 "N" + rng.choice(_HUGE_COUNTS + "259")])
            else:
                s += rng.choice(["X", "m", "M"])
            continue
        if r < 0.55:
            d = rng.choice([0, 1, 2, 3, 0, 1, 2, 3, 0, 1, 2, 3, 4, 5, 6, 7, 8, 9]) if kind == "vegas" else rng.choice([0, 1, 2, 3, 7, 4, 9])
            s += "S%d" % d
        elif r < 0.75:
            s += "F"
        else:
            s += "L"
    return s


# atomic steps of one operation run alone (upper bound), used only to size schedules
def _steps(prog, kind):
    return ((10 if kind == "vegas" else 2) * prog.count("S") + 2 * prog.count("F") + prog.count("L") + 2 * prog.count("N")
            + 5 * prog.count("K") + sum(prog.count(ch) for ch in "XmMR"))


def gen_limit(rng, tier):
    kind, h = _cfg(rng, False)
    ops = []
    extra = (rng.choice([0.3, 0.5, 0.7]) if kind == "ctl" else rng.choice([0.0, 0.0, 0.1, 0.25]))
    if kind == "ctl" and rng.random() < 0.5:
        # batches of successes just below the ceiling: the SUM must be clamped
        ops.append("manual warm prog=%s" % "".join(rng.choice(["F", "N1", "N2", "N3", "N9", "L", "S0", "N" + rng.choice(_HUGE_COUNTS + "0")])
                                                   for _ in range(rng.randint(2, 8))))
    if kind == "vegas" and rng.random() < 0.85:
        # Vegas adjusts only from the 10th sample on: straddle the threshold
        n = rng.choice([7, 8, 9, 9, 10, 12])
        d = rng.choice([0, 1, 1, 2, 7])
        w = "".join("S%d" % (d if rng.random() < 0.8 else rng.choice([0, 1, 2, 3])) for _ in range(n))
        ops.append("manual warm prog=%s%s" % (w, "L" if rng.random() < 0.5 else ""))
    elif rng.random() < 0.3:
        ops.append("manual warm prog=%s" % _prog(rng, rng.randint(1, 4), kind, extra))
    for _ in range(rng.choice([1, 1, 2, 3])):
        nt = rng.choice([1, 2, 2, 2, 3, 3])
        progs = [_prog(rng, rng.choice([0, 1, 1, 2, 2, 3, 4]), kind, extra) for _ in range(nt)]
        for t, p in enumerate(progs):
            ops.append("manual thread t=%d prog=%s" % (t, p))
        total = sum(_steps(p, kind) for p in progs)
        ln = rng.choice([0, total // 2, total, total + 3, rng.randint(0, total + 2)])
        sched = []
        mode = rng.random()
        for _ in range(ln):
            if rng.random() < 0.04:
                sched.append(nt + rng.choice([0, 1]))       # a turn for a thread that does not exist
            elif mode < 0.3 and sched and rng.random() < 0.6:
                sched.append(sched[-1])                     # runs of one thread
            else:
                sched.append(rng.randrange(nt))
        ops.append("manual sched s=%s" % ",".join(_weaken(rng, sched, nt, kind)))
    return {"header": "limit " + h, "ops": ops}


# ----------------------------------------------------------------------------- part B: the service

def _held_window(rng, ops):
    """reads between the completion of a call and the moment its caller lets go of the finished future"""
    r = rng.random()
    if r < 0.45:
        ops.append("probe in_flight")
    if r < 0.30 or r > 0.85:
        ops.append("probe limit")
        ops.append("probe ready")


# atomic turns of one thread operation run alone (upper bound), used only to size schedules
def _tsteps(prog, kind):
    fb = 11 if kind == "vegas" else 2
    n = 0
    for ch in prog:
        n += {"A": 7, "E": 7, "P": 7, "C": 5 + fb, "D": 2, "I": 2, "S": 1 + fb, "F": 3, "L": 2}.get(ch, 0)
    return n


def _thread_round(rng, ops, kind):
    """clones of the service on 2-3 OS threads under a schedule of atomic-operation turns (the service's own atomics are
    hooked: `in_flight` fetch_add / fetch_sub, the loads of `poll_ready`, the `current_limit` mirror), then reads"""
    nt = rng.choice([2, 2, 2, 3])
    shape = rng.random()
    progs = []
    if shape < 0.4:
        # every thread starts k calls, then ends them (complete / fail / panic / drop): releases of different threads overlap
        for _ in range(nt):
            k = rng.choice([1, 1, 2, 3])
            acq = "".join(rng.choice(["A", "A", "A", "E", "P"]) for _ in range(k))
            rel = "".join(rng.choice(["C", "C", "C", "D"]) for _ in range(k))
            progs.append(acq + rel + ("I" if rng.random() < 0.3 else ""))
    else:
        for _ in range(nt):
            n = rng.choice([0, 1, 2, 3, 4, 5, 7])
            p = ""
            for _ in range(n):
                r = rng.random()
                if r < 0.32:
                    p += "A"
                elif r < 0.42:
                    p += "E"
                elif r < 0.47:
                    p += "P"
                elif r < 0.72:
                    p += "C"
                elif r < 0.82:
                    p += "D"
                elif r < 0.90:
                    p += "I"
                else:
                    p += rng.choice(["S9", "S7", "F", "L", "L"])
            progs.append(p)
    for t, p in enumerate(progs):
        ops.append("manual thread t=%d prog=%s" % (t, p))
    total = sum(_tsteps(p, kind) for p in progs)
    sched = []
    mode = rng.random()
    if shape < 0.4 and rng.random() < 0.7:
        # the acquisitions one thread after the other, then turn by turn
        for t, p in enumerate(progs):
            k = sum(1 for ch in p if ch in "AEP")
            sched += [t] * (7 * k)
        rest = total - len(sched) + 4
        if mode < 0.6:
            sched += [i % nt for i in range(max(0, rest))]
        else:
            sched += [rng.randrange(nt) for _ in range(max(0, rest))]
    else:
        ln = rng.choice([0, total // 2, total, total + 3, rng.randint(0, total + 2)])
        for i in range(ln):
            if rng.random() < 0.03:
                sched.append(nt + rng.choice([0, 1]))       # a turn for a thread that does not exist
            elif mode < 0.25:
                sched.append(i % nt)                        # turn by turn
            elif mode < 0.5 and sched and rng.random() < 0.6:
                sched.append(sched[-1])                     # runs of one thread
            else:
                sched.append(rng.randrange(nt))
    ops.append("manual sched s=%s" % ",".join(_weaken(rng, sched, nt, kind)))
    ops.append("probe in_flight")
    if rng.random() < 0.6:
        ops.append("probe limit")
        ops.append("probe ready")


_SVC_OPS = ("arrive ", "probe ", "manual check", "manual ready", "manual thread", "manual sched", "manual warm")


def _tag_svc(ops, n0, k):
    """the operations ops[n0:] are made on service k of the layer"""
    if k:
        for i in range(n0, len(ops)):
            if ops[i].startswith(_SVC_OPS) and " svc=" not in ops[i]:
                ops[i] += " svc=%d" % k


def gen_service(rng, tier):
    kind, h = _cfg(rng, True)
    ops = []
    # construction paths: the service over the `Algorithm` enum or over the concrete Aimd / Vegas; the layer made by
    # `AdaptiveLimiterLayer::new` or by `into_layer()`; service 0 built from the layer value or from a clone of it
    if rng.random() < 0.3:
        h += " alg=direct"
    if rng.random() < 0.3:
        h += " lay=into"
    if rng.random() < 0.25:
        h += " lclone=1"
    # several services built from the one layer value (odd ones from a clone of it, taken before any service existed and
    # used after services were built from the original): they share the algorithm, nothing else
    nsvc = rng.choice([1, 1, 1, 1, 2, 2, 3])
    # in_flight() read after every single operation
    ifl = rng.random() < 0.12
    # callers that keep the finished call future alive (`keep=1`: a pinned future polled by reference, select! over
    # &mut fut) and drop it later (`release c`), in none / some / most / all of the calls of a case
    keepp = rng.choice([0.0, 0.0, 0.25, 0.5, 0.8, 1.0])
    if keepp > 0 and rng.random() < 0.4:
        # few slots, fixed limit: finished futures that are still held must not occupy them
        lim = rng.choice([1, 1, 2, 3])
        hw = h.split()
        hw = [("min=%d" % lim) if w.startswith("min=") else ("max=%d" % lim) if w.startswith("max=") else w for w in hw]
        h = " ".join(hw)
    # persistent handles over an inner service that is not ready at once: `manual ready h= rdy=r|p|e` (one poll_ready,
    # the inner answer scripted per poll), `arrive … h=<h>` (the caller uses that handle), in none / some / many steps
    hp = rng.choice([0.0, 0.0, 0.12, 0.25, 0.4])
    # rounds of OS threads using clones of the service under a schedule of atomic-operation turns
    tp = rng.choice([0.0, 0.0, 0.0, 0.05, 0.1])
    if tp > 0 and rng.random() < 0.6:
        # room for several calls per thread
        mn = rng.choice([1, 1, 2])
        mx = mn + rng.choice([3, 5, 8])
        hw = h.split()
        hw = [("min=%d" % mn) if w.startswith("min=") else ("max=%d" % mx) if w.startswith("max=") else
              ("initial=%d" % rng.choice([mx, mx, (mn + mx) // 2])) if w.startswith("initial=") else w for w in hw]
        h = " ".join(hw)
    if kind == "vegas" and rng.random() < 0.8:
        n = rng.choice([8, 9, 9, 10, 11])
        ops.append("manual warm prog=%s" % "".join("S%d" % rng.choice([7, 7, 7, 4, 5]) for _ in range(n)))
    elif rng.random() < 0.2:
        ops.append("manual warm prog=%s" % _prog(rng, rng.randint(1, 3), kind, rng.choice([0.0, 0.3])))
    # callers whose request makes the wrapped service's `call()` itself panic (no future is ever returned; the caller
    # catches the unwind and the limiter stays in use): in none / some / many of the arrivals of a case
    cpp = rng.choice([0.0, 0.0, 0.1, 0.25, 0.5])

    def cp():
        return " callpanic=1" if cpp > 0 and rng.random() < cpp else ""

    def after_cp(x):
        # reads right after the unwind: the slot must be free again, readiness judged by the running calls alone
        if x:
            r2 = rng.random()
            if r2 < 0.6:
                ops.append("probe in_flight")
            if r2 < 0.3 or r2 > 0.8:
                ops.append("probe ready")

    waiting = []          # handles whose last scripted inner answer was `pending`
    ncall = rng.randint(2, 12)
    pending = list(range(1, ncall + 1))
    arrived, checked = [], []
    keepers = []          # arrived with keep=1 and not yet released (whether or not they have resolved)
    marks = []
    now = 0

    def kp():
        return " keep=1" if rng.random() < keepp else ""

    def pick_svc():
        return 0 if nsvc == 1 or rng.random() < 0.5 else rng.randrange(nsvc)

    cur = {"n0": len(ops), "k": 0}
    for _ in range(rng.randint(8, 45)):
        # everything this step does is done on one service of the layer
        _tag_svc(ops, cur["n0"], cur["k"])
        cur["n0"], cur["k"] = len(ops), pick_svc()
        r = rng.random()
        if nsvc > 1 and rng.random() < 0.08:
            ops.append("probe bounds")
            ops.append("probe limit")
            continue
        if hp > 0 and rng.random() < hp:
            # a handle is polled for readiness (again); or a caller arrives through a handle
            hd = rng.choice(waiting) if waiting and rng.random() < 0.6 else rng.randint(1, 3)
            if pending and rng.random() < 0.35:
                c = pending.pop(0)
                a = rng.choice(["r", "r", "r", "p", "e"])
                k = kp()
                if rng.random() < 0.7:
                    ops.append("probe limit")
                lat = rng.choice([0, 1, 3, 10, rng.randint(0, 12)])
                x = cp()
                ops.append("arrive %d inner=%d:%s h=%d%s%s%s" % (c, lat, pick_outcome(rng, 6, 2, 1, 1), hd,
                                                               "" if a == "r" and rng.random() < 0.5 else " rdy=" + a, k, x))
                after_cp(x)
                arrived.append(c)
                if k:
                    keepers.append(c)
                marks.append(now + lat)
                if hd in waiting:
                    waiting.remove(hd)
            else:
                a = rng.choice(["r", "r", "p", "p", "e"]) if hd not in waiting else rng.choice(["r", "r", "r", "p"])
                if rng.random() < 0.7:
                    ops.append("probe limit")
                ops.append("manual ready h=%d rdy=%s" % (hd, a))
                if a == "p" and hd not in waiting:
                    waiting.append(hd)
                if a != "p" and hd in waiting:
                    waiting.remove(hd)
            continue
        if tp > 0 and rng.random() < tp:
            _thread_round(rng, ops, kind)
            continue
        if pending and (r < 0.30 or not arrived):
            c = pending.pop(0)
            if rng.random() < 0.12:
                ops.append("probe limit")
                ops.append("manual check c=%d" % c)
                checked.append(c)
                continue
            lat = rng.choice([0, 0, 1, 2, 3, 5, 10, rng.randint(0, 12)])
            out = pick_outcome(rng, 6, 2, 1, 1)
            if rng.random() < 0.7:
                ops.append("probe limit")
            k = kp()
            x = cp()
            ops.append("arrive %d inner=%d:%s%s%s" % (c, lat, out, k, x))
            after_cp(x)
            arrived.append(c)
            if k:
                keepers.append(c)
            marks.append(now + lat)
            if rng.random() < 0.3:
                ops.append("poll %d" % c)
                if k:
                    _held_window(rng, ops)
        elif r < 0.38 and checked:
            c = checked.pop(rng.randrange(len(checked)))
            k = kp()
            x = cp()
            ops.append("arrive %d inner=%d:%s%s%s" % (c, rng.choice([0, 1, 4]), pick_outcome(rng, 6, 2, 1, 1), k, x))
            after_cp(x)
            arrived.append(c)
            if k:
                keepers.append(c)
        elif r < 0.55 and arrived:
            c = rng.choice(arrived[-5:] if rng.random() < 0.9 else arrived)
            ops.append("poll %d" % c)
            if c in keepers:
                _held_window(rng, ops)
        elif r < 0.64 and arrived:
            c = rng.choice(arrived[-5:])
            ops.append("drop %d" % c)
            if rng.random() < 0.9:
                arrived.remove(c)
        elif r < 0.80:
            fut = [m for m in marks if m >= now]
            if fut and rng.random() < 0.7:
                d = max(0, rng.choice(fut) - now + rng.choice([-1, 0, 0, 0, 1]))
            else:
                d = rng.choice([0, 1, 2, 5, 10])
            ops.append("adv %d" % d)
            now += d
        elif r < 0.86:
            ops.append("settle")
            if keepers:
                _held_window(rng, ops)
        elif r < 0.90:
            ops.append("manual check c=%d" % rng.choice(arrived + checked + [99]))
        elif r < 0.95 and keepers:
            # the caller lets go of its future object: in every phase (still running: nothing to let go of yet;
            # resolved: a finished future is dropped; a second time / never arrived: nothing), with reads around it
            c = rng.choice(keepers + [99]) if rng.random() < 0.9 else rng.choice(arrived + [99])
            if rng.random() < 0.5:
                ops.append("probe in_flight")
                ops.append("probe ready")
            ops.append("release %d" % c)
            if c in keepers and rng.random() < 0.8:
                keepers.remove(c)
            if rng.random() < 0.6:
                ops.append("probe in_flight")
                ops.append("probe ready")
        else:
            ops.append("probe in_flight")
            ops.append("probe limit")
            ops.append("probe ready")
    _tag_svc(ops, cur["n0"], cur["k"])
    # quiescence: everything that can finish finishes, the rest is cancelled; then a burst up to the limit
    ops.append("adv %d" % rng.choice([0, 1, 20]))
    ops.append("settle")
    ops.append("probe in_flight")
    for k in range(1, nsvc):
        ops.append("probe in_flight svc=%d" % k)
        if rng.random() < 0.5:
            ops.append("probe ready svc=%d" % k)
    if rng.random() < 0.15:
        ops.append("probe bounds")
    if keepers:
        # finished futures are still held by their callers: they do not count, they do not block
        ops.append("probe limit")
        ops.append("probe ready")
    if tp > 0 and rng.random() < 0.5:
        _thread_round(rng, ops, kind)
    if rng.random() < 0.85:
        ops.append("dropall")
        ops.append("probe in_flight")
        ops.append("probe limit")
        ops.append("probe ready")
        for k in range(1, nsvc):
            # nothing is running on any service of the layer: each reports zero; then a burst on one of the OTHER
            # services up to the shared limit and past it, while service 0 stays empty
            ops.append("probe in_flight svc=%d" % k)
            if rng.random() < 0.5:
                ops.append("probe limit svc=%d" % k)
                for i in range(rng.choice([1, 2, 4])):
                    ops.append("arrive %d inner=1000:ok svc=%d" % (300 + 10 * k + i, k))
                ops.append("probe in_flight svc=%d" % k)
                ops.append("probe ready svc=%d" % k)
                ops.append("probe in_flight")
                ops.append("probe ready")
        if tp > 0 and rng.random() < 0.5:
            # nothing else is running: after the round the limiter must report zero in flight
            _thread_round(rng, ops, kind)
        if keepers and rng.random() < 0.4:
            for c in keepers:
                ops.append("release %d" % c)
            keepers = []
            ops.append("probe in_flight")
            ops.append("probe ready")
        if cpp > 0 and rng.random() < 0.6:
            # nothing is running: a run of callers whose inner `call()` panics (as many as the limit allows and more,
            # some through a persistent handle) must leave zero in flight and readiness granted
            for i in range(rng.choice([1, 2, 3, 5])):
                ops.append("arrive %d inner=0:ok callpanic=1%s" % (200 + i, " h=%d" % rng.randint(1, 3) if rng.random() < 0.3 else ""))
                if rng.random() < 0.4:
                    ops.append("probe in_flight")
            ops.append("probe in_flight")
            ops.append("probe limit")
            ops.append("probe ready")
        nb = rng.choice([1, 2, 3, 6])
        quick = keepp > 0 and rng.random() < 0.6
        for i in range(nb):
            ops.append("probe limit")
            if quick:
                # short calls by callers that keep the finished future: each completes before the next arrives,
                # so with `limit` finished futures alive the next caller must still be admitted
                ops.append("arrive %d inner=0:%s keep=1" % (100 + i, rng.choice(["ok", "ok", "err1"])))
                ops.append("poll %d" % (100 + i))
                keepers.append(100 + i)
                if rng.random() < 0.5:
                    ops.append("probe in_flight")
            else:
                ops.append("arrive %d inner=1000:ok%s%s" % (100 + i, kp(), cp()))
        ops.append("probe in_flight")
        ops.append("probe ready")
    if keepers:
        rng.shuffle(keepers)
        for c in keepers[:rng.randint(0, len(keepers))]:
            ops.append("release %d" % c)
        ops.append("probe in_flight")
        ops.append("probe limit")
        ops.append("probe ready")
    if ifl:
        # `in_flight()` observed after every operation, on the service the operation used
        out = []
        for o in ops:
            out.append(o)
            if not o.startswith(("manual thread", "probe in_flight")):
                k = [w for w in o.split() if w.startswith("svc=")]
                out.append("probe in_flight" + (" " + k[0] if k else ""))
        ops = out
    return {"header": "adaptive " + h, "ops": ops}


def gen(rng, tier):
    return gen_limit(rng, tier) if rng.random() < 0.5 else gen_service(rng, tier)


# ----------------------------------------------------------------------------- the two models of one case

def canon_step(lines):
    """what the step-by-step transcriptions claim: every line except the protocol verdicts"""
    return [l for l in lines if " trace-" not in l]


def canon_protocol(lines):
    """what the protocol-level model claims: everything that happens before the first round of threads (sequential
    behaviour does not depend on how the atomics are sequenced) and, for every round and warm-up, the protocol-level
    lines: the verdict of the verified checker on the observed value-level trace (`trace-ok` / `trace-bad …`), what every
    thread of the round reported (`trace-th <i> …`: on the model's side re-derived from the End markers the checker has
    validated — a `limit()` / `in_flight()` value the call read, the configured bounds, an acquisition refused iff it did
    not count itself in —, on the implementation's side what the threads returned) and the values the round left in the
    limit cell and the in-flight counter (`trace-end …`). So a round whose step sequence no longer matches the
    transcription is still compared on everything its threads observed. Every round (and every warm-up) must come with
    its verdict: a log in which one is missing makes no protocol-level claim, and the whole log is compared instead."""
    out = []
    in_rounds = False
    rounds = verdicts = 0
    for l in lines:
        w = l.split()
        if len(w) > 1 and w[1] in ("step", "skip"):
            in_rounds = True
        if len(w) > 1 and w[1] in ("trace-ok", "trace-bad"):
            verdicts += 1
        elif len(w) == 3 and w[1] == "limit":
            rounds += 1        # every `warm` and every `sched` ends with the limit it left behind
        if " trace-" in l or not in_rounds:
            out.append(l)
    return out if verdicts >= rounds else list(lines)


# ----------------------------------------------------------------------------- monitors (implementation log only)

def _is_service(case):
    return case["header"].split()[0] == "adaptive"


def _keepers(case):
    """callers that keep their call future alive after it has resolved (`arrive c … keep=1`)"""
    ks = set()
    for o in case["ops"]:
        w = o.split()
        if len(w) > 1 and w[0] == "arrive" and "keep=1" in w[2:]:
            ks.add(w[1])
    return ks


def _svc_kv(words):
    for x in words:
        if x.startswith("svc=") and x[4:].isdigit():
            return int(x[4:])
    return 0


class _Svcs:
    """which service of the layer (`svc=<k>`, default 0) each caller, each `manual ready` poll and each round of threads /
    warm-up uses — read off the op lines; a caller stays with the service that it first named (ahead-of-time check or
    arrival). Callers >= 1000 are the ones the threads of a round make."""
    def __init__(self, case):
        self.home = {}
        self.readies = []      # service of every `manual ready` op, in order (each logs exactly one `ready` line)
        self.rounds = []       # service of every `manual warm` / `manual sched` op, in order (each logs one bare `limit` line)
        for o in case["ops"]:
            w = o.split()
            if len(w) < 2:
                continue
            k = _svc_kv(w[2:])
            if w[0] == "arrive":
                self.home.setdefault(w[1], k)
            elif w[0] == "manual" and w[1] == "check":
                c = [x[2:] for x in w[2:] if x.startswith("c=")]
                if c:
                    self.home.setdefault(c[0], k)
            elif w[0] == "manual" and w[1] == "ready":
                self.readies.append(k)
            elif w[0] == "manual" and w[1] in ("warm", "sched"):
                self.rounds.append(k)
        self.ri = 0            # rounds / warm-ups completed so far in the log
        self.qi = 0            # `ready` lines seen so far

    def note(self, w):
        """call with every log line (words)"""
        if len(w) == 2 and w[0] == "limit":
            self.ri += 1

    def of_caller(self, c):
        if c.isdigit() and int(c) >= 1000:
            return self.rounds[self.ri] if self.ri < len(self.rounds) else 0
        return self.home.get(c, 0)

    def of_ready_line(self):
        k = self.readies[self.qi] if self.qi < len(self.readies) else 0
        self.qi += 1
        return k

    @staticmethod
    def of_probe(w):
        return _svc_kv(w[4:])


def _via_handle(case):
    """{caller: "service:handle"} for the callers that use a persistent handle (`arrive c … h=<h> [svc=<k>]`)"""
    via = {}
    for o in case["ops"]:
        w = o.split()
        if len(w) > 1 and w[0] == "arrive":
            for x in w[2:]:
                if x.startswith("h=") and x[2:].isdigit() and int(x[2:]) > 0:
                    via[w[1]] = "%d:%s" % (_svc_kv(w[2:]), x[2:])
    return via


def _releases(meta):
    """{line index: [callers whose finished future was dropped just before that line]}"""
    rel = {}
    for idx, m in (meta or []):
        w = m.split()
        if w and w[0] == "#release" and len(w) > 1 and idx >= 0:
            rel.setdefault(idx, []).append(w[1])
    return rel


class _Held:
    """finished call futures that are still alive (resolved with a value by a `keep=1` caller, not yet released),
    reconstructed from the implementation's log and the harness's `#release` marks"""
    def __init__(self, case, meta):
        self.keepers = _keepers(case)
        self.rel = _releases(meta)
        self.held = set()

    def before(self, i):
        for c in self.rel.get(i, []):
            self.held.discard(c)

    def after(self, w):
        if w and w[0] == "result" and w[1] in self.keepers and w[2] != "panic" and not w[2].startswith("notready"):
            self.held.add(w[1])

    def note(self):
        if not self.held:
            return ""
        return " [%d finished call future(s) still held by caller(s) %s: a completed call must not count]" % (
            len(self.held), ",".join(sorted(self.held, key=int)))


def _observed_limits(w):
    """limit values observable in one log line"""
    if not w:
        return []
    if w[0] == "limit" and len(w) > 1:
        return [w[1]]
    if w[0] in ("warm", "th"):
        vals = w[-1]
        return [] if vals == "none" else vals.split(",")
    if w[0] == "probe" and w[1] == "limit":
        return [w[3]]
    return []


def mon_bounds(case, lines, meta):
    """the limit is within [min_limit, max_limit] at every observation (limit() reads of every thread under
    every explored interleaving, final limits, service probes)"""
    cfg = kvs(case["header"])
    mn, mx = int(cfg.get("min", "1")), int(cfg.get("max", "100"))
    if mn > mx:
        return None
    svc = _is_service(case)
    for i, l in enumerate(lines):
        _, w = tparse(l)
        if svc and w and w[0] == "th":
            continue       # a service thread's outputs mix in_flight() reads and refusals with limit() reads
        for v in _observed_limits(w):
            if not v.isdigit() or not (mn <= int(v) <= mx):
                return "line %d: observed limit %s outside [min_limit=%d, max_limit=%d] (%s)" % (i, v, mn, mx, l)
        if w and w[0] == "probe" and w[1] == "bounds" and w[3] != "%d,%d" % (mn, mx):
            return "line %d: min_limit(),max_limit() report %s, configured [%d,%d]" % (i, w[3], mn, mx)
    if not svc:
        # what every operation of a feedback program reports, in program order: `L` a limit (judged above), `m` / `M` the
        # configured bounds themselves, `K` (bare controller) the clone's limit before and after one success of its own
        progs = []      # programs in the order their outputs are logged: warm-ups and the threads of each round
        pend = {}
        for o in case["ops"]:
            w = o.split()
            k = kvs(o)
            if w[:2] == ["manual", "warm"]:
                progs.append(k.get("prog", ""))
            elif w[:2] == ["manual", "thread"]:
                pend[int(k.get("t", "0"))] = k.get("prog", "")
            elif w[:2] == ["manual", "sched"]:
                n = max(pend) + 1 if pend else 0
                progs += [pend.get(t, "") for t in range(n)]
                pend = {}
        outs = []
        for l in lines:
            _, w = tparse(l)
            if w and w[0] in ("warm", "th"):
                outs.append([] if w[-1] == "none" else w[-1].split(","))
        ctl = cfg.get("kind") == "ctl"
        for p, o in zip(progs, outs):
            j = 0
            for ch in p:
                n = {"L": 1, "m": 1, "M": 1, "K": 2 if ctl else 0}.get(ch, 0)
                vals = o[j:j + n]
                j += n
                if len(vals) < n:
                    break
                if ch == "m" and vals[0] != str(mn):
                    return "min_limit() reported %s, configured min_limit %d (program %s -> %s)" % (vals[0], mn, p, ",".join(o))
                if ch == "M" and vals[0] != str(mx):
                    return "max_limit() reported %s, configured max_limit %d (program %s -> %s)" % (vals[0], mx, p, ",".join(o))
    return None


def mon_inflight(case, lines, meta):
    """in_flight() of a service equals the number of ITS inner calls started and not finished / panicked / dropped, at
    every probe; in particular 0 once none of them is running — a call stops counting when it completes or fails, also
    while the caller keeps the finished future object alive; a call whose inner `call()` panicked before returning a
    future (`result c panic` without an `inner_call`) never started an inner call and must not count either. Services
    built from one layer value share the algorithm, not the counter: calls in flight on another service do not count."""
    if not _is_service(case):
        return None
    sv = _Svcs(case)
    live = {}              # service -> serials of its inner calls in flight
    owner = {}             # serial -> service
    hd = _Held(case, meta)
    rounds = 0
    called = set()
    cpanics = []
    for i, l in enumerate(lines):
        _, w = tparse(l)
        hd.before(i)
        if not w:
            continue
        hd.after(w)
        if w[0] == "inner_call":
            k = sv.of_caller(w[1])
            live.setdefault(k, set()).add(w[2])
            owner[w[2]] = k
            called.add(w[1])
        elif w[0] in ("inner_done", "inner_drop"):
            live.get(owner.get(w[2], 0), set()).discard(w[2])
        elif w[0] == "th" and w[1] == "0":
            rounds += 1
        elif w[0] == "result" and w[2] == "panic" and w[1] not in called:
            cpanics.append(w[1])
        elif w[0] == "probe" and w[1] == "in_flight":
            k = sv.of_probe(w)
            mine = live.get(k, set())
            if not w[3].isdigit() or int(w[3]) != len(mine):
                others = sum(len(v) for kk, v in live.items() if kk != k)
                return "line %d: in_flight() = %s%s but %d inner calls are started and not finished/dropped%s%s%s%s%s" % (
                    i, w[3], " on service %d" % k if k else "", len(mine), " (quiescent)" if not mine else "", hd.note(),
                    " [after %d round(s) of threads using clones of the limiter: every call they started has completed, "
                    "failed, panicked or been dropped]" % rounds if rounds else "",
                    " [the inner service's call() itself panicked for caller(s) %s: a call that panicked is not in flight]"
                    % ",".join(cpanics) if cpanics else "",
                    " [%d call(s) in flight on OTHER services built from the same layer: each service counts its own]" % others if others else "")
        sv.note(w)
    return None


def mon_ready(case, lines, meta):
    """a readiness check is refused iff at least limit calls are in flight at that step ON THAT SERVICE (limit = the value
    probed since the last feedback to the algorithm — the algorithm, hence the limit, is shared by the services of one
    layer; the in-flight count is per service); a refusal always fires the waker. Every `poll_ready` of a
    persistent handle is such a check — also when an earlier poll of the same handle was only waiting for the inner
    service: `Ready` with limit calls in flight admits a caller that checked readiness at the limit.
    (Rounds of threads are not judged here: check-then-call of concurrent callers is not atomic.)"""
    if not _is_service(case):
        return None
    sv = _Svcs(case)
    lives = {}             # service -> serials in flight
    owner = {}
    limit = None           # last probed limit, valid until the algorithm gets feedback
    prechecked = set()
    via = _via_handle(case)
    hready = set()         # "service:handle" whose most recent poll_ready answered Ready (judged at that poll)
    hd = _Held(case, meta)
    called = set()
    cpanics = []           # callers whose inner `call()` itself panicked (no inner call was started)

    def note():
        return hd.note() + (" [the inner service's call() itself panicked for caller(s) %s: a call that panicked is not in flight]"
                            % ",".join(cpanics) if cpanics else "")

    def on(k):
        return " on service %d" % k if k else ""

    for i, l in enumerate(lines):
        _, w = tparse(l)
        hd.before(i)
        if not w:
            continue
        hd.after(w)
        if "lost-wakeup" in l:
            return "line %d: poll_ready returned Pending without waking the task (%s)" % (i, l)
        if w[0] in ("step", "skip", "th"):
            limit = None       # inside / after a round of threads
        elif w[0] == "inner_call" or (w[0] == "result" and w[2] == "panic" and w[1] not in called):
            # `call()` was made on the strength of a readiness check (an inner `call()` that panics starts no inner call)
            c = w[1]
            k = sv.of_caller(c)
            live = lives.setdefault(k, set())
            if c in prechecked:
                prechecked.discard(c)
            elif c in via and via[c] in hready:
                hready.discard(via[c])
            elif limit is not None and len(live) >= limit:
                return "line %d: caller %s admitted by a readiness check with %d calls in flight%s, limit %d" % (i, c, len(live), on(k), limit)
            if w[0] == "inner_call":
                live.add(w[2])
                owner[w[2]] = k
                called.add(c)
            else:
                cpanics.append(c)
        elif w[0] == "inner_done":
            lives.get(owner.get(w[2], 0), set()).discard(w[2])
            if w[3] != "panic":
                limit = None
        elif w[0] == "inner_drop":
            lives.get(owner.get(w[2], 0), set()).discard(w[2])
        elif w[0] == "warm":
            limit = None
        elif w[0] == "probe" and w[1] == "limit":
            limit = int(w[3]) if w[3].isdigit() else None
        elif w[0] == "result" and w[2].startswith("notready"):
            k = sv.of_caller(w[1])
            live = lives.get(k, set())
            if w[1] in via:
                hready.discard(via[w[1]])
            if w[2] == "notready" and limit is not None and len(live) < limit:
                return "line %d: caller %s refused readiness with %d calls in flight%s, limit %d%s" % (i, w[1], len(live), on(k), limit, note())
        elif w[0] == "check":
            k = sv.of_caller(w[1])
            live = lives.get(k, set())
            if w[2] == "ready":
                prechecked.add(w[1])
            if limit is not None and (w[2] == "ready") != (len(live) < limit):
                return "line %d: ahead-of-time readiness check of %s answered %s with %d calls in flight%s, limit %d%s" % (i, w[1], w[2], len(live), on(k), limit, note())
        elif w[0] == "ready":
            # one poll_ready of the persistent handle w[1] of the service the `manual ready` op names
            k = sv.of_ready_line()
            live = lives.get(k, set())
            hk = "%d:%s" % (k, w[1])
            if w[2] == "ready":
                hready.add(hk)
                if limit is not None and len(live) >= limit:
                    return ("line %d: poll_ready of handle %s%s answered Ready with %d calls in flight, limit %d: a caller that "
                            "checked readiness with limit calls already in flight is admitted" % (i, w[1], on(k), len(live), limit))
            else:
                hready.discard(hk)
                if w[2] == "refused" and limit is not None and len(live) < limit:
                    return "line %d: poll_ready of handle %s%s refused for capacity with %d calls in flight, limit %d%s" % (
                        i, w[1], on(k), len(live), limit, note())
        elif w[0] == "probe" and w[1] == "ready":
            k = sv.of_probe(w)
            live = lives.get(k, set())
            if limit is not None and (w[3] == "1") != (len(live) < limit):
                return "line %d: probe caller readiness = %s with %d calls in flight%s, limit %d%s" % (i, w[3], len(live), on(k), limit, note())
        sv.note(w)
    return None


# ----------------------------------------------------------------------------- coverage

def transitions(case, lines, meta=None):
    tags = []
    cfg = kvs(case["header"])
    mn, mx = int(cfg.get("min", "1")), int(cfg.get("max", "100"))
    kind = cfg.get("kind", "aimd")
    fden = int(cfg.get("fden", "2"))
    if kind != "vegas" and fden & (fden - 1) and 0 < int(cfg.get("fnum", "1")) < fden:
        tags.append("L:factor-nondyadic" if not _is_service(case) else "A:factor-nondyadic")
    if kind != "vegas" and int(cfg.get("inc", "1")) + mx > _USIZE_MAX:
        tags.append("L:step-saturates" if not _is_service(case) else "A:step-saturates")
    if not _is_service(case):
        tags.append("L:kind-" + kind)
        tags.append("L:via-" + cfg.get("via", "builder"))
        for o in case["ops"]:
            for ch in kvs(o).get("prog", "") if o.startswith("manual") else "":
                if ch in "XmMRK" or (ch == "N" and kind == "ctl"):
                    tags.append("L:op-" + ch)
                if ch in _HUGE_COUNTS and kind == "ctl":
                    tags.append("L:succs-count-saturates")
        prev = None
        for l in lines:
            _, w = tparse(l)
            if not w:
                continue
            if w[0] in ("step", "skip"):
                tags.append("L:" + w[0])
                if len(w) > 2 and w[2] == "weak":
                    tags.append("L:weak-turn")
                if w[0] == "step" and prev is not None and prev != w[1]:
                    tags.append("L:switch")
                prev = w[1] if w[0] == "step" else prev
            elif w[0] == "warm":
                tags.append("L:warm")
            elif w[0] == "th" and w[-1] != "none":
                tags.append("L:read")
            elif w[0] == "limit":
                prev = None
                v = int(w[1])
                tags.append("L:final-at-min" if v == mn else "L:final-at-max" if v == mx else "L:final-inside")
        return tags
    tags.append("A:kind-" + kind)
    tags.append("A:via-" + cfg.get("via", "builder"))
    tags.append("A:alg-" + cfg.get("alg", "enum"))
    tags.append("A:lay-" + cfg.get("lay", "new"))
    if cfg.get("lclone") == "1":
        tags.append("A:layer-cloned")
    sv = _Svcs(case)
    per = {}               # service -> serials in flight
    own = {}
    for l in lines:
        _, w = tparse(l)
        if not w:
            continue
        if w[0] == "inner_call":
            k = sv.of_caller(w[1])
            per.setdefault(k, set()).add(w[2])
            own[w[2]] = k
            if k:
                tags.append("A:call-on-other-service")
            if sum(1 for v in per.values() if v) >= 2:
                tags.append("A:two-services-loaded")
        elif w[0] in ("inner_done", "inner_drop"):
            per.get(own.get(w[2], 0), set()).discard(w[2])
        elif w[0] == "probe" and w[1] == "bounds":
            tags.append("A:probe-bounds")
        elif w[0] == "probe" and _Svcs.of_probe(w):
            tags.append("A:probe-other-service")
            if w[1] == "in_flight" and w[3] == "0" and any(v for kk, v in per.items() if kk != _Svcs.of_probe(w)):
                tags.append("A:zero-while-other-service-loaded")
        sv.note(w)
    live = set()
    last_limit = None
    hd = _Held(case, meta)
    via = _via_handle(case)
    hpend = set()          # handles whose most recent poll_ready was answered `pending` by the inner service
    cur_t = None           # thread whose turn it is (inside a round of threads)
    relp = set()           # threads between "end of the inner call logged" and the release of the guard
    in_round = False
    called = set()         # callers for which an inner call was started
    after_cpanic = False   # an inner `call()` has panicked earlier in this case
    for i, l in enumerate(lines):
        _, w = tparse(l)
        if w and w[0] == "inner_call":
            called.add(w[1])
            if after_cpanic:
                tags.append("A:admitted-after-call-panic")
        if w and w[0] == "result" and w[2] == "panic" and w[1] not in called:
            tags.append("A:call-panic")
            if w[1] in via:
                tags.append("A:call-panic-through-handle")
            if live:
                tags.append("A:call-panic-while-running")
            if last_limit is not None and len(live) + 1 == last_limit:
                tags.append("A:call-panic-in-last-slot")
            after_cpanic = True
        if w and w[0] in ("step", "skip"):
            tags.append("T:" + w[0])
            if len(w) > 2 and w[2] == "weak":
                tags.append("T:weak-turn")
            if w[0] == "step":
                if cur_t is not None and cur_t != w[1]:
                    tags.append("T:switch")
                cur_t = w[1]
                relp.discard(w[1])
            in_round = True
        elif w and w[0] == "th":
            if "x" in w[-1].split(","):
                tags.append("T:refused")
            cur_t = "main"
        elif w and w[0] == "limit" and in_round:
            in_round, cur_t = False, None
            relp.clear()
        elif w and in_round and w[0] in ("inner_done", "inner_drop"):
            if cur_t == "main":
                tags.append("T:leftover-dropped")
            elif cur_t is not None:
                if relp - {cur_t}:
                    tags.append("T:two-releases-pending")
                relp.add(cur_t)
        if w and w[0] == "ready":
            tags.append("A:handle-" + w[2])
            if w[1] in hpend and w[2] in ("ready", "refused"):
                tags.append("A:handle-%s-after-inner-pending" % w[2])
            if w[2] == "pending":
                hpend.add(w[1])
            else:
                hpend.discard(w[1])
        if w and w[0] == "inner_call" and w[1] in via:
            tags.append("A:call-through-handle")
            if via[w[1]] in hpend:
                tags.append("A:handle-ready-after-inner-pending")
            hpend.discard(via[w[1]])
        if w and w[0] == "result" and w[2].startswith("notready") and w[1] in via:
            if via[w[1]] in hpend and w[2] == "notready":
                tags.append("A:handle-refused-after-inner-pending")
            if w[2] == "notready-inner":
                hpend.add(via[w[1]])
            else:
                hpend.discard(via[w[1]])
        for c in hd.rel.get(i, []):
            if c in hd.held:
                tags.append("A:release-held")
        hd.before(i)
        if not w:
            continue
        nh = len(hd.held)
        hd.after(w)
        if len(hd.held) > nh:
            tags.append("A:result-kept")
        if hd.held and w[0] == "probe" and w[1] in ("in_flight", "ready"):
            tags.append("A:probe-with-held")
        # the situations in which a slot given back at drop (instead of at completion) would change the answer
        if hd.held and last_limit is not None and len(live) < last_limit <= len(live) + len(hd.held):
            if (w[0] == "probe" and w[1] == "ready" and w[3] == "1") or (w[0] == "check" and w[2] == "ready"):
                tags.append("A:ready-although-held-fill-limit")
            if w[0] == "inner_call":
                tags.append("A:admitted-although-held-fill-limit")
        if w[0] == "inner_call":
            live.add(w[2])
            tags.append("A:inner_call")
            if last_limit is not None and len(live) > last_limit:
                tags.append("A:in-flight-over-limit")
        elif w[0] == "inner_done":
            live.discard(w[2])
        elif w[0] == "inner_drop":
            live.discard(w[2])
            tags.append("A:dropped-running")
        elif w[0] == "result":
            tags.append("A:result-" + (w[2] if w[2].startswith("notready") else "panic" if w[2] == "panic" else w[2].split(":")[0]))
        elif w[0] == "check":
            tags.append("A:check-" + w[2])
        elif w[0] == "probe" and w[1] == "ready":
            tags.append("A:probe-ready-" + w[3])
        elif w[0] == "probe" and w[1] == "in_flight":
            if w[3] == "0":
                tags.append("A:probe-in_flight-zero")
        elif w[0] == "probe" and w[1] == "limit":
            v = int(w[3])
            if last_limit is not None and v > last_limit:
                tags.append("A:limit-up")
            if last_limit is not None and v < last_limit:
                tags.append("A:limit-down")
            last_limit = v
        elif w[0] == "noop":
            tags.append("A:noop")
    return tags


def nontrivial(case, lines, tags):
    if not _is_service(case):
        return "L:switch" in tags and "L:kind-" + kvs(case["header"]).get("kind", "aimd") in tags
    return any(t in ("A:result-notready", "A:dropped-running", "A:result-panic", "A:check-ready") for t in tags)


ALL_TR = ["L:kind-ctl", "L:via-builder", "L:via-new", "L:via-layer", "L:op-X", "L:op-m", "L:op-M", "L:op-N", "L:op-R", "L:op-K",
          "A:via-builder", "A:via-new", "A:via-layer", "A:alg-enum", "A:alg-direct", "A:lay-new", "A:lay-into", "A:layer-cloned",
          "A:call-on-other-service", "A:two-services-loaded", "A:probe-bounds", "A:probe-other-service",
          "A:zero-while-other-service-loaded",
          "L:kind-aimd", "L:kind-vegas", "L:step", "L:skip", "L:switch", "L:warm", "L:read",
          "L:final-at-min", "L:final-at-max", "L:final-inside",
          "A:kind-aimd", "A:kind-vegas", "A:inner_call", "A:in-flight-over-limit", "A:dropped-running",
          "A:result-ok", "A:result-err", "A:result-panic", "A:result-notready", "A:check-ready", "A:check-refused",
          "A:probe-ready-0", "A:probe-ready-1", "A:probe-in_flight-zero", "A:limit-up", "A:limit-down", "A:noop",
          "A:result-kept", "A:release-held", "A:probe-with-held",
          "A:ready-although-held-fill-limit", "A:admitted-although-held-fill-limit",
          "A:handle-ready", "A:handle-refused", "A:handle-pending", "A:handle-error", "A:call-through-handle",
          "A:result-notready-inner", "A:result-notready-error",
          "A:handle-refused-after-inner-pending", "A:handle-ready-after-inner-pending",
          "A:call-panic", "A:call-panic-through-handle", "A:call-panic-while-running", "A:call-panic-in-last-slot",
          "A:admitted-after-call-panic",
          "T:step", "T:skip", "T:switch", "T:refused", "T:two-releases-pending", "T:leftover-dropped",
          "L:factor-nondyadic", "A:factor-nondyadic",
          "L:step-saturates", "A:step-saturates", "L:succs-count-saturates"] + (["L:weak-turn", "T:weak-turn"] if _WEAK else [])

LEVEL_NOTE = ("Trusted: Lean kernel; the transcription of aimd.rs / algorithm.rs (one model step per atomic operation, in program order) in "
              "TR.Model.Limit and of service.rs in TR.Model.Adaptive, validated only by the sampled correspondence check (the algorithms run the same "
              "schedule under the baton scheduler of the verif-hooks atomics and must agree on the step/skip trace, every limit() read and the final "
              "limit; the service must agree line for line); relaxed atomics modelled as sequentially consistent (per location for the bounds and "
              "the counter; the readiness theorems of the interleaving model speak about the interleaving of the atomic steps, i.e. assume the "
              "loads of the limit and of in_flight see the latest stores); f64: the AIMD decrease (r as f64 * factor) as usize transcribed "
              "exactly for every factor fnum/fden and r < 2^53 (Limit.f64Dec: two roundings to nearest-even and a truncation in Nat; the theorems hold "
              "for ANY decrease function with d r <= r), EMA with smoothing 0.5 exact below 2^52, the Vegas queue estimate transcribed as exact binary64 "
              "round-to-nearest-even arithmetic in Nat (no theorem depends on it: the bounds hold for an arbitrary estimate); usize/u64 as unbounded "
              "Nat, configurations above 2^53 outside the model; the harness (baton scheduler, virtual clock, manual poller) and python diff/monitors. "
              "poll_ready reserves nothing: what is proved about admission is the check itself, as the property states it. "
              "Threads using clones of the service: one model step per yield point = per hooked atomic operation of service.rs (cargo feature "
              "verif-hooks, notes/hooks-adaptive-service.diff) and of the algorithm, plus one explicit yield at the beginning of every thread "
              "operation; the order in which an unpolled call future drops its inner future and its guard (inner future first) is observed, not derived.")

SPECS = {
    "C13": {
        "group": "adaptive",
        "module": "TR.Props.C13",
        "gen": gen,
        "monitors": [("c13-limit-in-bounds", mon_bounds), ("c13-in-flight-exact", mon_inflight), ("c13-ready-iff-capacity", mon_ready)],
        "transitions": transitions,
        "nontrivial": nontrivial,
        "canon": canon_step, "canon_protocol": canon_protocol,
        "all_transitions": ALL_TR,
        "model_modules": ["TR.Model.Limit", "TR.Model.LimitTrace", "TR.Model.Adaptive", "TR.Model.AdaptiveMulti", "TR.Lemmas.Limit", "TR.Lemmas.LimitTrace", "TR.Lemmas.Adaptive", "TR.Lemmas.AdaptiveMulti", "TR.Mutants.AdaptiveNoGuard"],
        "lean_files": ["TR.Model.Limit", "TR.Model.LimitTrace", "TR.Model.Adaptive", "TR.Model.AdaptiveMulti", "TR.Lemmas.Limit", "TR.Lemmas.LimitTrace", "TR.Lemmas.Adaptive", "TR.Lemmas.AdaptiveMulti", "TR.Mutants.AdaptiveNoGuard"],
        "sizes": (600, 30000),
        "rule": "two kinds of seeded cases, mixed 1:1. `limit …`: AIMD / Vegas (and, in 20 %, the bare AimdController `kind=ctl`: record_successes(k) with "
                "k in 0..9 incl. batches just below the ceiling, and k in {usize::MAX, usize::MAX-1, 2^63, 2^32, usize::MAX/2} (`N<a..e>`), reset(), "
                "clone(), config(); increase_by 1..3, and in 20 % (service cases 12 %) a step at which the usize arithmetic saturates: usize::MAX, "
                "usize::MAX-1, usize::MAX-(0..max+3), usize::MAX-initial(+1), 2^63(+0..3), usize::MAX/2, 2^31..2^62) built through one of three construction paths (`via=`: the "
                "algorithm's builder, Aimd::new(AimdConfig..) / Vegas::new(..) / AimdConfig::new().with_.., or the builders of "
                "AdaptiveLimiterLayer::builder().aimd() / .vegas()), programs that also use record_dropped(), min_limit(), max_limit() (0 / 10 / 25 % of the "
                "operations; 30-70 % for the controller), 1-3 rounds of 1-3 OS threads "
                "running feedback programs (record_success with latencies 2^20..2^23 ns and a few non-dyadic ones, record_failure, limit()) under a "
                "random schedule of atomic-operation turns (incl. turns for finished / non-existent threads), optional sequential warm-up straddling "
                "Vegas's min_samples=10, min 0..5, max=min+0..100, initial below/inside/above the range, decrease factors fnum/fden in 0..1 with fden in "
                "{1,2,4,8} (dyadic) and {3,7,10,100} (not: 0.7, 1/3, 0.58 …; two roundings and a truncation); for Vegas (and only if the repository copy "
                "offers the weak-failure hook) schedules also contain `f<tid>` turns in which the compare_exchange_weak of update_rtt fails "
                "spuriously (0 / 10 / 25 / 50 % after a turn of the same thread, in runs of 1-3, a few anywhere). `adaptive …`: "
                "the service over the scripted inner service: arrive (clone+poll_ready+call) / poll / drop / adv / settle / ahead-of-time readiness "
                "checks / probes in_flight, limit, ready; latencies 0..12 ms, ok/err/panic/never; callers that keep the finished call future "
                "alive (`arrive … keep=1`, in 0 / 25 / 50 / 80 / 100 % of the calls of a case, 40 % of those cases with a fixed limit 1..3) and let "
                "go of it at any point (`release c`: while running, after completion, twice, never), with in_flight / limit / ready reads between "
                "completion and release; ends with quiescence and a burst of arrivals up to and past the limit (long calls, or short kept calls "
                "that each complete before the next arrives). Persistent handles over an inner service that is not ready at once (in 0 / 12 / 25 / 40 % "
                "of the steps of a case): `manual ready h=1..3 rdy=r|p|e` = one poll_ready with the inner answer scripted per poll (handles that were "
                "told `pending` are re-polled preferentially), `arrive c … h=<h> [rdy=…]` = a caller using that handle (call if its last poll said Ready, "
                "else one poll_ready first), interleaved with other arrivals, completions and failures that move the limit. Rounds of 2-3 OS threads on "
                "clones of the service under the baton scheduler (in 40 % of the cases, 60 % of those with limits 4..10): programs of acquire "
                "(poll_ready+call; the call will succeed / fail / panic), complete-oldest, drop-oldest, in_flight(), direct feedback; schedules random / "
                "turn by turn / runs, or all acquisitions first and then the releases turn by turn so that releases of different threads overlap; "
                "`probe in_flight` after every round, also with nothing else running. Callers whose request makes the wrapped service's call() itself "
                "panic before it returns a future (`arrive … callpanic=1`, in 0 / 10 / 25 / 50 % of the arrivals of a case: fresh clones, clones "
                "checked ahead of time, persistent handles, the final burst; at every load level incl. the last free slot), followed by in_flight / "
                "ready reads, and a run of 1-5 of them at quiescence. Construction: the service over the Algorithm enum or over the concrete Aimd / Vegas "
                "(`alg=direct`, 30 %), the layer made by AdaptiveLimiterLayer::new or by into_layer() (`lay=into`, 30 %), service 0 built from a clone of the "
                "layer (`lclone=1`, 25 %); 2-3 services built from the one layer value at their first use (`svc=<k>` on arrivals, checks, handles, probes, "
                "warm-ups and rounds of threads; odd ones from a clone of the layer taken before any service existed; 3 of 7 cases), with per-service "
                "in_flight / ready probes at quiescence, after dropall (a burst on another service while service 0 is empty) and `probe bounds` "
                "(min_limit(), max_limit()); in 12 % of the cases in_flight() is read after every single operation. Every round of threads and every "
                "warm-up carries the value-level trace of its atomics (`@tr=`) for the protocol-level checker. distinct = distinct implementation log; non-trivial = an interleaving in which the schedule switches between "
                "running threads (limit) / a refusal, a cancelled running call, a panic or an ahead-of-time check (service)",
        "level_text": "Theorems TR.Props.C13.{limit_in_bounds, limit_in_bounds_final, limit_in_bounds_rounds, limit_is_last_store, vegas_choice_arbitrary, "
                      "seq_limit_in_bounds, aimd_budget_controller_in_bounds, limit_in_bounds_any_decrease, limit_in_bounds_f64_factor, "
                      "f64_decrease_never_increases, parsed_config_covered}: for every configuration with min <= max and ANY decrease function d with "
                      "d r <= r on the values within the bounds (Limit.DecOk: the exact floor(r*p/q), or the binary64 arithmetic of the code for every "
                      "factor p/q <= 1 below 2^53 - f64Dec_le -, or anything else), AIMD and "
                      "Vegas, all thread programs and all schedules of atomic steps - turns in which a compare_exchange_weak fails spuriously included "
                      "(Limit.Turn.weak; weak_cas_failure_no_effect, weak_turn_stutters) -, every value ever stored in the limit cell, every register holding a "
                      "loaded limit and every value limit() returns lies in [min, max] (the proof ignores the rtt cells; same controller inside the retry "
                      "AIMD budget). {in_flight_exact, in_flight_matches_log, quiescent_zero, ready_iff_capacity, admitted_below_limit, refused_at_limit, "
                      "every_check_exact, checked_had_capacity, service_limit_in_bounds}: in every reachable state of the service, for all arrival / "
                      "completion / cancellation / panic orders, in_flight = |running| = calls started - finished/dropped in the log, hence 0 at "
                      "quiescence; readiness is refused iff in_flight >= limit at that step. {running_is_scheduled, completion_frees_slot, "
                      "drop_frees_slot, held_future_not_in_flight, letting_go_changes_nothing}: a call stops counting at the poll that observes its "
                      "completion / failure / panic, or when it is dropped - whether or not the caller keeps the finished future object alive; a held "
                      "finished future is not running, is not counted and does not block readiness; dropping it later changes nothing. "
                      "{every_poll_exact, ready_handle_polled_below_limit, unready_poll_leaves_handle_not_ready, handle_refused_at_limit, "
                      "handle_never_admitted_at_limit, handle_ready_below_limit}: over an inner service that is not ready at once every poll_ready of a "
                      "persistent handle is refused iff limit calls are in flight at THAT poll (the capacity check is repeated at every poll, also after a "
                      "poll that was only waiting for the inner service); a handle may call only on the strength of its most recent poll_ready, made below "
                      "the limit. {turn_changes_counter_by_own_guards, threads_in_flight_exact, threads_in_flight_exact_final, threads_quiescent_zero, "
                      "threads_in_flight_exact_within_history, threads_in_flight_matches_log, threads_limit_in_bounds}: clones on any number of threads, "
                      "all programs, all schedules of the atomic steps (fetch_add at admission, fetch_sub at release): in_flight = number of live guards in "
                      "every reachable state, 0 once no thread holds a call. "
                      "Readiness under interleaving {threads_check_exact_at_its_turn, threads_limit_loaded_at_its_turn, threads_every_check_exact, "
                      "threads_admitted_on_a_passed_check, threads_overshoot_bounded, threads_release_never_underflows, release_never_underflows, "
                      "threads_own_guards_le_counter}: poll_ready's two loads and call's fetch_add are three atomic steps, so a caller may be admitted on a "
                      "stale check; what holds for every program and schedule: at the turn of its in_flight load a thread is refused iff the calls really "
                      "in flight at that turn have reached the limit it loaded (the cell's value at the turn it loaded it); every comparison ever made was "
                      "answered by what it saw, against a limit within the bounds that the cell had held; every call in flight (and every thread about to "
                      "count itself in) passed a check that saw fewer calls than its limit; the counter never exceeds max_limit + T - 1 with T threads "
                      "(tight: kernel-checked example with 2 calls in flight at fixed limit 1). "
                      "{call_panic_frees_slot, call_panic_counted_then_released}: a call whose inner Service::call panics synchronously (no future is "
                      "ever returned) is counted while inner.call runs and released by the unwind: counter, running calls, readiness answer, algorithm, "
                      "mirror and serial numbers are what they were before the arrival; TR.Mutants.AdaptiveGuardAfterCall (guard built after inner.call) "
                      "with its kernel-checked witness (limit 2, two such panics => in_flight = 2, nothing running, readiness refused). "
                      "TR.Mutants.AdaptiveSkipRecheck (capacity check only at a handle's first poll) and TR.Mutants.AdaptiveReleaseLoadStore (guard release "
                      "as load+store: lost release under the schedule load,load,store,store) with kernel-checked witnesses (same file as AdaptiveNoGuard). "
                      "TR.Mutants.AdaptiveNoGuard: the pinned service (no guard) "
                      "with the kernel-checked witness (two calls dropped => in_flight = 2 and every readiness check refused, forever); "
                      "TR.Mutants.AdaptiveSlotAtDrop (same file): the guard owned by the future object (slot given back at drop, not at completion) "
                      "with its witness (limit 1, one kept completed call => in_flight = 1, nothing running, readiness refused). "
                      "Protocol level {trace_limit_in_bounds, trace_limit_in_bounds_prefix, trace_rounds_in_bounds, vegas_three_results, "
                      "trace_in_flight_exact, trace_in_flight_prefix, trace_results_justified, trace_readiness_decisions}: for EVERY value-level trace of the atomics that the verified checker "
                      "TR.Limit.checkTrace accepts (values chain; every write to the limit cell is made inside a feedback operation and stores "
                      "aimdSuccNew / aimdFailNew / aimdSuccsNew n / vegasFailNew / one of the three results of vegasNew / the clamped initial value of a value "
                      "the same operation read from the cell earlier; every write to the in-flight counter is one read-modify-write, +1 inside an admitted "
                      "poll_ready+call, -1 from a value >= 1 inside an operation ending a held call) - any number of threads and operations, any "
                      "interleaving, however the implementation sequences its atomics: every value the limit cell ever holds and every value limit() "
                      "returns is in [min, max] (also across the rounds of a case, from the constructor's clamped initial value on), and the counter is the "
                      "initial value + admitted - ended calls at quiescence (up to the operations in progress at every point); every poll_ready+call that "
                      "counted itself in had read, before that, a limit (within the bounds) from the limit cell and a smaller count from the counter, "
                      "every refused one a count that had reached a limit it had read (Limit.checkTraceD / dstep: one justified decision per returned "
                      "acquisition - the readiness clauses as they can be judged under interleaving, on the real code's traces); the End markers carry every "
                      "result a call reports and the checker validates them (limit() / in_flight() a value the call read, min_limit() / max_limit() the "
                      "configured bounds). "
                      "Services {services_share_algorithm, services_independent, new_service_starts_empty, services_in_flight_exact}: any number of "
                      "services built from one layer value (or clones of it) share the algorithm and nothing else; a step on one leaves the others' "
                      "counters, callers and handles untouched; every service's counter equals the number of ITS running calls after any history.",
        "level_note": LEVEL_NOTE,
        "trusted": ["transcription of AimdController / Aimd / Vegas at atomic-operation granularity in TR.Model.Limit and of AdaptiveService in "
                    "TR.Model.Adaptive (sampled by the correspondence check: same schedule, same step/skip trace, same reads, same final limit)",
                    "verif-hooks atomics: one yield point per atomic operation; compare_exchange_weak is the strong form under the hook unless the "
                    "weak-failure hook (set_weak_fail_hook, notes/hooks-weak-cas.diff) tells it to fail spuriously in that turn - then it returns "
                    "Err(current value) without exchanging; harness/build.rs detects whether the repository copy has the hook; service.rs takes "
                    "its AtomicUsize (in_flight, current_limit) through the same cfg-gated alias (notes/hooks-adaptive-service.diff)",
                    "relaxed atomics as sequentially consistent per location",
                    "f64: dyadic decrease factors and power-of-two latencies make the arithmetic exact; Vegas queue estimate = exact binary64 "
                    "round-to-nearest-even transcription in Nat (Limit.queueEst), not used by any theorem",
                    "harness: baton scheduler, clock_gettime interposition, manual poller; python diff/monitors",
                    "protocol level: the observer hook reports each hooked operation's value before / after (store observed through swap); the begin / end "
                    "markers of the API calls and the identification of the limit / in-flight cell (the one cell limit() / in_flight() loads) are the "
                    "harness's; a case on which only the protocol-level model agrees counts as agreeing (evidence: agree_at_protocol_level_only) - it is then "
                    "compared on everything before its first round of threads and, per round / warm-up, on the verdict, on what every thread reported "
                    "(trace-th: re-derived by the model from the End markers the checker validated) and on the limit / in-flight count the round left (trace-end)",
                    "the no-atomic entry points (record_dropped, min_limit, max_limit) take one turn each at an explicit yield point of the harness"],
        "assumptions": ["min_limit <= max_limit and decrease_factor in [0,1] (the property's quantifier; Rust's clamp panics for min > max); of the decrease "
                        "only d r <= r is used (proved for the code's f64 arithmetic below 2^53)",
                        "usize/u64 modelled as unbounded Nat; values below 2^53",
                        "one poll of one call future is atomic for the single-threaded callers; in the rounds of threads the yield points are the "
                        "hooked atomic operations and the operation boundaries (thread-local code between two of them is atomic)",
                        "the inner service's readiness answers are scripted per poll_ready (ready / pending with a wake-up / error)",
                        "a synchronous panic of the inner call() is scripted per request and caught by the caller (catch_unwind around Service::call); "
                        "such calls are made by the single-threaded callers only, not inside the rounds of threads"],
    },
}
