"""C19 — chaos: generator and implementation-side monitors

Header  `chaos seed=<u64> [erate=<spec>] lrate=<spec> min_us=<µs> max_us=<µs> [order=<0|1>] [sweep=1]`
  rate spec: T<n> = n/2^53 | b<f64 bits> | d<i>[+1|-1] = the i-th f64 of the seed's stream (± 2^-53)
First op of every case: `probe cfg` (the harness reports the exact thresholds ⌈rate·2^53⌉).
Requests `arrive <c> tag=<t> inner=<lat>:<out>`.

`sweep=1` cases advance the clock 1 ms at a time and poll everything after each tick, so the
instant of the inner call is the exact injected latency.
"""
import struct
from gen.util import kvs, tparse

P53 = 1 << 53


def f64_bits(x):
    return struct.unpack("<Q", struct.pack("<d", x))[0]


def rate_spec(rng, kind):
    """kind: 'e' or 'l'"""
    r = rng.random()
    if r < 0.14:
        return "T0"
    if r < 0.28:
        return "T%d" % P53
    if r < 0.34:
        return "T%d" % rng.choice([1, 2, P53 - 1, P53 - 2, P53 // 2, P53 // 2 + 1])
    if r < 0.62:
        return "T%d" % rng.randint(0, P53)
    if r < 0.70:
        # any f64 in [0,1], including values far below 2^-53 and subnormals
        x = rng.choice([rng.random(), rng.random() * 2.0 ** -rng.randint(40, 1070), 5e-324, 2.0 ** -53, 2.0 ** -54, 1.0 - 2.0 ** -53])
        return "b%d" % f64_bits(x)
    if r < 0.74:
        # outside [0,1]: clamped by the builder
        return "b%d" % f64_bits(rng.choice([1.5, -0.25, 1e300, -0.0]))
    i = rng.randint(0, 7)
    return "d%d%s" % (i, rng.choice(["", "", "+1", "-1"]))


def bounds(rng):
    mn = rng.choice([0, 0, 1, 2, 3, 5, 10, rng.randint(0, 30)])
    r = rng.random()
    if r < 0.25:
        mx = mn                                    # min = max
    elif r < 0.40:
        mx = max(0, mn - rng.randint(1, 5)) if mn else 0   # min > max (or both 0)
    elif r < 0.55:
        mx = mn + 1
    else:
        mx = mn + rng.randint(1, 12)
    mn_us, mx_us = mn * 1000, mx * 1000
    if rng.random() < 0.15:                        # sub-millisecond parts are truncated by as_millis()
        mn_us += rng.choice([1, 500, 999])
    if rng.random() < 0.15:
        mx_us += rng.choice([1, 500, 999])
    return mn_us, mx_us


def pick_out(rng):
    r = rng.random()
    if r < 0.6:
        return "ok"
    if r < 0.85:
        return "err%d" % rng.choice([1, 2])
    if r < 0.93:
        return "panic"
    return "never"


def gen(rng, tier):
    seed = rng.choice([0, 1, 42, 42, (1 << 64) - 1, rng.randint(0, (1 << 64) - 1), rng.randint(0, (1 << 64) - 1), rng.randint(0, 1000)])
    hdr = "chaos seed=%d" % seed
    has_e = rng.random() < 0.85
    if has_e:
        hdr += " erate=%s" % rate_spec(rng, "e")
    hdr += " lrate=%s" % rate_spec(rng, "l")
    mn_us, mx_us = bounds(rng)
    hdr += " min_us=%d max_us=%d" % (mn_us, mx_us)
    if has_e and rng.random() < 0.4:
        hdr += " order=1"
    mn, mx = mn_us // 1000, mx_us // 1000
    top = max(mn, mx)
    ops = ["probe cfg"]
    ncall = rng.randint(1, 12)
    sweep = rng.random() < 0.45 and top <= 25
    if sweep:
        hdr += " sweep=1"
        maxlat = 0
        ids = list(range(1, ncall + 1))
        for c in ids:
            lat = rng.choice([0, 0, 1, 3])
            maxlat = max(maxlat, lat)
            ops.append("arrive %d tag=%d inner=%d:%s" % (c, rng.randint(0, 99), lat, pick_out(rng)))
        order = ids[:]
        if rng.random() < 0.5:
            rng.shuffle(order)
        # first polls: all at t=0, or staggered over the first few ticks
        stagger = rng.random() < 0.4
        t_extra = 0
        for c in order:
            ops.append("poll %d" % c)
            if stagger and rng.random() < 0.4:
                ops.append("adv 1")
                ops.append("settle")
                t_extra += 1
        if rng.random() < 0.2 and order:
            ops.append("drop %d" % rng.choice(order))
        for _ in range(top + maxlat + 2):
            ops.append("adv 1")
            ops.append("settle")
        return {"header": hdr, "ops": ops}
    pending = list(range(1, ncall + 1))
    arrived = []
    now = 0
    marks = []
    for _ in range(rng.randint(6, 40)):
        r = rng.random()
        if pending and (r < 0.3 or not arrived):
            c = pending.pop(0)
            lat = rng.choice([0, 0, 1, 5, rng.randint(0, 20)])
            ops.append("arrive %d tag=%d inner=%d:%s" % (c, rng.choice([c, rng.randint(0, 99)]), lat, pick_out(rng)))
            arrived.append(c)
            if rng.random() < 0.6:
                ops.append("poll %d" % c)
                marks += [now + mn, now + mx, now + mn + lat, now + mx + lat]
        elif r < 0.55 and arrived:
            ops.append("poll %d" % rng.choice(arrived))
            marks += [now + mn, now + mx]
        elif r < 0.62 and arrived:
            ops.append("drop %d" % rng.choice(arrived))
        elif r < 0.88:
            fut = [m for m in marks if m >= now]
            if fut and rng.random() < 0.7:
                d = max(0, rng.choice(fut) - now + rng.choice([-1, 0, 0, 0, 1]))
            else:
                d = rng.choice([0, 1, 2, 3, 5, rng.randint(0, 20)])
            ops.append("adv %d" % d)
            now += d
        else:
            ops.append("settle")
    if rng.random() < 0.7:
        ops.append("adv %d" % rng.choice([0, 1, top, top + 1, 50]))
        ops.append("settle")
    if rng.random() < 0.3:
        ops.append("dropall")
    return {"header": hdr, "ops": ops}


# ----------------------------------------------------------------------------- monitors

def _scan(case, lines, meta):
    """-> dict with thresholds, bounds, per-caller first poll / inner call / result / drop"""
    cfg = kvs(case["header"])
    info = {"eT": None, "lT": None, "mn": int(cfg.get("min_us", "0")) // 1000, "mx": int(cfg.get("max_us", "0")) // 1000,
            "sweep": cfg.get("sweep") == "1", "fp": {}, "call": {}, "res": {}, "drop": {}, "tags": {}, "twin": []}
    for o in case["ops"]:
        w = o.split()
        if len(w) >= 2 and w[0] == "arrive" and w[1].isdigit() and int(w[1]) not in info["tags"]:
            info["tags"][int(w[1])] = int(kvs(o).get("tag", w[1]))
    for _, m in meta:
        w = m.split()
        if w[0] == "#fp":
            info["fp"][int(w[1])] = int(w[2])
        elif w[0] == "#drop":
            info["drop"][int(w[1])] = int(w[2])
    for l in lines:
        t, w = tparse(l)
        if not w:
            continue
        if w[0] == "probe" and w[1] == "cfg":
            kv = kvs(l)
            info["eT"], info["lT"] = int(kv["eT"]), int(kv["lT"])
        elif w[0] == "inner_call":
            info["call"].setdefault(int(w[1]), []).append(t)
        elif w[0] == "result":
            info["res"][int(w[1])] = (t, w[2])
        elif w[0] == "twin-mismatch":
            info["twin"].append(l)
    end = 0
    for o in case["ops"]:
        w = o.split()
        if w and w[0] == "adv":
            end += int(w[1])
    info["end"] = end
    return info


def _injected(res):
    return res.startswith("err:inner99:")


def mon_determinism(case, lines, meta):
    i = _scan(case, lines, meta)
    if i["twin"]:
        return "two equally seeded instances given the same requests in the same order behaved differently: %s" % i["twin"][0]
    return None


def mon_error_skips_inner(case, lines, meta):
    i = _scan(case, lines, meta)
    for c, (t, r) in i["res"].items():
        if _injected(r):
            if c in i["call"]:
                return "request %d got the injected error although the inner service was called for it (t=%s)" % (c, i["call"][c])
            if r != "err:inner99:%d" % i["tags"].get(c, -1):
                return "request %d: injected error %s was not built from this request (tag %s)" % (c, r, i["tags"].get(c))
            if c in i["fp"] and t != i["fp"][c]:
                return "request %d: error injected at t=%d, not in its first poll (t=%d): latency on an injected error" % (c, t, i["fp"][c])
    for c, ts in i["call"].items():
        if len(ts) > 1:
            return "request %d reached the inner service %d times" % (c, len(ts))
    return None


def mon_extremes(case, lines, meta):
    i = _scan(case, lines, meta)
    if i["eT"] is None:
        return None
    if i["eT"] == 0:
        for c, (t, r) in i["res"].items():
            if _injected(r):
                return "error rate 0 but request %d got an injected error" % c
    if i["eT"] == 0 and i["lT"] == 0:
        for c, t in i["fp"].items():
            if i["call"].get(c) != [t]:
                return "both rates 0 but request %d (first polled t=%d) reached the inner service at %s: not transparent" % (c, t, i["call"].get(c))
    if i["eT"] == P53:
        if i["call"]:
            c = sorted(i["call"])[0]
            return "error rate 1 but request %d reached the inner service" % c
        for c, t in i["fp"].items():
            if c not in i["res"] or not _injected(i["res"][c][1]) or i["res"][c][0] != t:
                return "error rate 1 but request %d (first polled t=%d) did not fail at once: %s" % (c, t, i["res"].get(c))
    return None


def _poll_instants(case):
    """caller -> instants at which it was polled, from the operations (`settle` polls every live caller)"""
    now = 0
    arrived, gone = [], set()
    polls = {}
    for o in case["ops"]:
        w = o.split()
        if not w:
            continue
        if w[0] == "adv":
            now += int(w[1])
        elif w[0] == "arrive" and int(w[1]) not in arrived:
            arrived.append(int(w[1]))
        elif w[0] == "poll" and int(w[1]) in arrived and int(w[1]) not in gone:
            polls.setdefault(int(w[1]), []).append(now)
        elif w[0] == "settle":
            for c in arrived:
                if c not in gone:
                    polls.setdefault(c, []).append(now)
        elif w[0] == "drop":
            gone.add(int(w[1]))
        elif w[0] == "dropall":
            gone |= set(arrived)
    return polls


def mon_latency(case, lines, meta):
    """Injected latency d lies in [min,max] (= min when min >= max). Observable: the inner call is made
    by the first poll at or after first-poll + d. So (lower bound) a delayed inner call is never earlier
    than first-poll + min, and (upper bound) no poll at or after first-poll + max may leave the request
    still waiting. Both are exact when the clock is advanced 1 ms at a time (`sweep` cases)."""
    i = _scan(case, lines, meta)
    if i["eT"] is None:
        return None
    mn, mx = i["mn"], i["mx"]
    lo = mn
    hi = mx if mn <= mx else mn
    always = i["eT"] == 0 and i["lT"] == P53      # every request is delayed
    polls = _poll_instants(case)
    for c, t0 in i["fp"].items():
        ps = polls.get(c, [])
        if c in i["call"]:
            t1 = i["call"][c][0]
            lat = t1 - t0
            if lat < 0:
                return "request %d reached the inner service before its first poll" % c
            if (lat > 0 or always) and lat < lo:
                return "request %d: inner call %d ms after the first poll, below min_latency=%d ms" % (c, lat, mn)
            late = [p for p in ps if t0 + hi <= p < t1]
            if late:
                return ("request %d (first polled t=%d): polled at t=%d, %d ms after the first poll, and still kept waiting "
                        "(inner call only at t=%d): injected latency above the bound, range [%d,%d] ms" % (c, t0, late[0], late[0] - t0, t1, mn, mx))
        elif not (c in i["res"] and _injected(i["res"][c][1])):
            late = [p for p in ps if p >= t0 + hi]
            if late:
                return ("request %d (first polled t=%d) neither failed nor reached the inner service although polled at t=%d, "
                        "%d ms after its first poll; range [%d,%d] ms" % (c, t0, late[0], late[0] - t0, mn, mx))
    return None


def transitions(case, lines, meta=None):
    cfg = kvs(case["header"])
    tags = []
    mn, mx = int(cfg.get("min_us", "0")) // 1000, int(cfg.get("max_us", "0")) // 1000
    tags.append("range-" + ("eq" if mn == mx else "inverted" if mn > mx else "proper"))
    if "erate" not in cfg:
        tags.append("no-error-injector")
    for k in ("erate", "lrate"):
        if cfg.get(k, "").startswith("d"):
            tags.append("rate-on-a-roll")
        if cfg.get(k, "").startswith("b"):
            tags.append("rate-off-grid")
    if cfg.get("sweep") == "1":
        tags.append("sweep")
    fp = {}
    for l in lines:
        t, w = tparse(l)
        if not w:
            continue
        if w[0] == "probe":
            kv = kvs(l)
            e, ll = int(kv["eT"]), int(kv["lT"])
            tags.append("erate-" + ("0" if e == 0 else "1" if e == P53 else "mid"))
            tags.append("lrate-" + ("0" if ll == 0 else "1" if ll == P53 else "mid"))
        elif w[0] == "inner_call":
            tags.append("inner-call")
        elif w[0] == "inner_drop":
            tags.append("dropped-running")
        elif w[0] == "result":
            if w[2].startswith("err:inner99"):
                tags.append("error-injected")
            elif w[2] == "panic":
                tags.append("result-panic")
            else:
                tags.append("result-" + w[2].split(":")[0])
    return tags


def transitions_meta(case, lines, meta):
    return transitions(case, lines)


def nontrivial(case, lines, tags):
    return "error-injected" in tags or "inner-call" in tags


ALL = ["range-eq", "range-inverted", "range-proper", "no-error-injector", "rate-on-a-roll", "rate-off-grid", "sweep",
       "erate-0", "erate-1", "erate-mid", "lrate-0", "lrate-1", "lrate-mid", "inner-call", "dropped-running",
       "error-injected", "result-ok", "result-err", "result-panic"]

LEVEL_NOTE = ("Trusted: Lean kernel; the line-by-line reading of service.rs:64-152 as TR.Model.Chaos.decideG / the poll-level machine, validated by the "
              "sampled correspondence check; rand's StdRng, random::<f64>() (= 53-bit numerator * 2^-53, < 1) and random_range(a..=b) in [a,b], which "
              "enter the model only as the abstract generator `Gen` with the contract `Lawful`; the harness (mirror StdRng advanced according to the "
              "branch reported by the layer's public event callbacks, exact decoding of f64 rates to thresholds, virtual clock, manual poller) and the "
              "python diff/monitors. For min_latency > max_latency the interval of the property is empty; the code (and the model, and the theorem) "
              "use min_latency. Rates outside [0,1] (clamped by the builder), NaN, unseeded layers and multi-threaded races for the generator mutex "
              "are outside the property.")

COMMON = {
    "group": "chaos",
    "gen": gen,
    "transitions": transitions,
    "nontrivial": nontrivial,
    "all_transitions": ALL,
    "model_modules": ["TR.Model.Chaos", "TR.Lemmas.Chaos"],
    "lean_files": ["TR.Model.Chaos", "TR.Lemmas.Chaos"],
    "sizes": (600, 30000),
    "rule": "seeded random cases: seed (fixed and random u64), error/latency rates as thresholds n/2^53 (0, 1, 2^-53, 1-2^-53, 1/2, random), arbitrary "
            "f64 bit patterns incl. subnormal and out-of-range, or placed exactly on / one step next to the i-th roll of the seed's stream; "
            "min/max latency with min=max, min>max, sub-millisecond parts; 1..12 requests, shuffled first-poll order, drops; either 1 ms sweeps "
            "(exact latency) or random advances biased to min-1/min/max/max+1; every request is also given to a second equally seeded instance; "
            "distinct = distinct implementation log; non-trivial = at least one decision was taken",
    "trusted": ["transcription of Chaos::call (service.rs:64-152) in TR.Model.Chaos, sampled by the correspondence check",
                "rand: StdRng::seed_from_u64, random::<f64>() in [0,1) with 53-bit numerators, random_range(a..=b) in [a,b] (abstract generator + contract in the model)",
                "harness: mirror StdRng synchronised through the layer's public event callbacks, f64->threshold decoding, virtual clock, manual poller",
                "python diff/monitors"],
    "assumptions": ["the layer is built with a seed; rates in [0,1]; latency bounds compared in whole milliseconds",
                    "one poll of one call future is atomic (single-threaded runtime); the decision block runs under the generator's mutex"],
    "level_note": LEVEL_NOTE,
    "level_text": "Theorems TR.Props.C19.*: for every generator (all seeds, any algorithm within rand's contracts), all thresholds, all millisecond "
                  "ranges: the decision list of any run is the prefix of the seed's decision stream (independent of instants, payloads, outcomes, "
                  "cancellations: deterministic, deterministic_prefix, decisions_are_seed_stream); a request decided 'error' never has an inner call in "
                  "any run (error_skips_inner) and fails in its first poll (error_result_immediate); rates 0/0 consume no draw and call the inner service "
                  "in the first poll (transparent_*); error rate 1 always fails with one draw and no inner call in any run (always_fails_*); injected "
                  "latency lies in [min,max], equals min when min>=max, and is real virtual time (latency_*); an injected error consumes exactly the error "
                  "roll (no_latency_on_error). Model tied to the real ChaosLayer by line-for-line agreement with draws taken from a mirror StdRng, plus a "
                  "directly compared twin instance.",
}

SPECS = {
    "C19": dict(COMMON, module="TR.Props.C19",
                monitors=[("c19-determinism-twin", mon_determinism), ("c19-error-skips-inner", mon_error_skips_inner),
                          ("c19-extremes", mon_extremes), ("c19-latency-bounds", mon_latency)]),
}
