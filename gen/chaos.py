"""C19 — chaos: generator and implementation-side monitors

Header  `chaos seed=<u64> [erate=<spec>] lrate=<spec> min_us=<µs> max_us=<µs> [order=<0|1|2|3>] [entry=layer|new|default]
         [name=<s>|-] [sweep=1] [handles=<k>] [ready=<script>]`
  `order`: builder path — 0 `.error_rate(r).error_fn(f)` after everything else, 1 `.error_fn(f).error_rate(r)`, 2 `.error_rate(r)`
  first and everything else on the second builder type (`ChaosConfigBuilderWithRate`), 3 name + listeners before, rates / bounds /
  seed after `.error_rate(r)`; `entry`: `ChaosLayer::builder()` | `ChaosConfigBuilder::new()` | `ChaosConfigBuilder::default()`;
  `name=-`: `.name(..)` not called.
  `chain=<tok>,…`: the builder setters in the order they are called (`m:<µs>` `M:<µs>` `l:<spec>` `e:<spec>` `s:<seed>` `n:<name>` `f` `h`),
  any order, setters repeated; the configuration is the LAST setter of each kind, each on its own (see `chain`, `configured_bounds_us`).
  rate spec: T<n> = n/2^53 | b<f64 bits> | d<i>[+1|-1] = the i-th f64 of the seed's stream (± 2^-53)
First op of every case: `probe cfg` (the harness reports the exact thresholds ⌈rate·2^53⌉).
Requests `arrive <c> tag=<t> inner=<lat>:<out>`.

`sweep=1` cases advance the clock 1 ms at a time and poll everything after each tick, so the
instant of the inner call is the exact injected latency.

`handles=k`: instance A serves request c with handle c mod k of k clones taken up front (default 0: a fresh
clone of the pristine service per request); the twin instance is always one handle, never cloned, and
its `call()` is made at the first poll (A: at `arrive`).

Latency bounds: any `Duration` in whole microseconds (`min_us`, `max_us`), from 0 to hours. About a quarter of the
cases have bounds of one second and more (1000, 1001, 1200..2800, 60000 ms, hours; min = max, min > max, min below and
max above a second, sub-millisecond remainders); their clock is advanced in jumps to just before / at / just after the
bounds (and to the sub-second parts of the bounds), so the delayed calls complete and the instants are exact.

`manual dropsvc`: every handle of instance A and of the twin, and the layers, are dropped — between the `arrive` and
the first `poll` of pending requests, and later. Requests that arrived before are decided at their first poll as if
nothing had happened (the decision belongs to the request's first poll and to the seed's stream, not to the lifetime
of a handle); later `arrive`s are `noop`.

Caller modes `arrive c … via=<mode> tvia=<mode>` (instance A / the twin): `clone` clone the template, ready the clone,
call it; `readyclone` ready the template, then clone it, ready the clone, call the clone (a handle is cloned between
`poll_ready` and `call`); `swap` the `mem::replace` idiom; `template` ready and call the template itself — generated in
every rate regime, uniformly per case or mixed per request. Header `ready=<script>`: instance A wraps the strict
scripted service (readiness per instance; `poll_ready` answered 'r'/'p'/'e' from the script; `inner_call … ready=0|1`);
the twin's silent wrapped service is strict as well (`#unready-b c`). A request refused by `poll_ready` is
`result c notready`.

Several services from ONE layer value: `arrive c … svc=<k> [lclone=1]` — service k is made lazily from the one layer value of
instance A (with `lclone=1` from a clone of the layer taken at that moment). The seeded stream is per service: every service has a
twin of its own (an independently built layer and service) that gets exactly the requests of that service, and the decision
sequences of the services (each in its own first-poll order) must agree with each other on their common prefix.

The decision function is NOT pinned: the model consumes the decision the layer reports (`@dec=e|l<ms>|p`) and checks the boundary
clauses; reproducibility is decided by the determinism monitors below (same seed + same request order twice inside the case). The
old draw scheme survives as an informational reference only (`#ref`, transition tags `draw-scheme-as-reference` / `-differs`).

`manual stress threads=<N> calls=<K>`: real-OS-thread stress search on a separate, freshly built and equally
seeded instance (N threads with a clone each, K calls in total, first poll only). A SEARCH, NOT A PROOF:
whether a race shows depends on the machine's scheduling. Oracles = the property's clauses (see
`mon_stress`); a failing run is reported with the threads/calls/counts observed.
"""
import struct
from gen.util import kvs, tparse

P53 = 1 << 53


def f64_bits(x):
    return struct.unpack("<Q", struct.pack("<d", x))[0]


def rate_spec(rng, kind):
    """kind: 'e' or 'l'"""
    r = rng.random()
    if r < 0.14:
        return "T0"
    if r < 0.28:
        return "T%d" % P53
    if r < 0.34:
        return "T%d" % rng.choice([1, 2, P53 - 1, P53 - 2, P53 // 2, P53 // 2 + 1])
    if r < 0.62:
        return "T%d" % rng.randint(0, P53)
    if r < 0.70:
        # any f64 in [0,1], including values far below 2^-53 and subnormals
        x = rng.choice([rng.random(), rng.random() * 2.0 ** -rng.randint(40, 1070), 5e-324, 2.0 ** -53, 2.0 ** -54, 1.0 - 2.0 ** -53])
        return "b%d" % f64_bits(x)
    if r < 0.74:
        # outside [0,1]: clamped by the builder
        return "b%d" % f64_bits(rng.choice([1.5, -0.25, 1e300, -0.0]))
    i = rng.randint(0, 7)
    return "d%d%s" % (i, rng.choice(["", "", "+1", "-1"]))


def bounds(rng):
    mn = rng.choice([0, 0, 1, 2, 3, 5, 10, rng.randint(0, 30)])
    r = rng.random()
    if r < 0.25:
        mx = mn                                    # min = max
    elif r < 0.40:
        mx = max(0, mn - rng.randint(1, 5)) if mn else 0   # min > max (or both 0)
    elif r < 0.55:
        mx = mn + 1
    else:
        mx = mn + rng.randint(1, 12)
    mn_us, mx_us = mn * 1000, mx * 1000
    if rng.random() < 0.15:                        # sub-millisecond parts are truncated by as_millis()
        mn_us += rng.choice([1, 500, 999])
    if rng.random() < 0.15:
        mx_us += rng.choice([1, 500, 999])
    return mn_us, mx_us


HOUR = 3600 * 1000


def long_bounds(rng):
    """bounds of one second and more, in ms: the whole seconds of a bound count"""
    r = rng.random()
    if r < 0.12:                                   # min below a second, max at / above it
        mn = rng.choice([0, 1, 500, 900, 999, rng.randint(0, 999)])
        mx = rng.choice([1000, 1001, 1100, 1999, 2000, 2500, 60000, 1000 + rng.randint(0, 3000)])
        return mn, mx
    mn = rng.choice([1000, 1000, 1000, 1001, 1200, 1200, 1500, 1999, 2000, 2800, 3000, 60000, 60001, HOUR, 2 * HOUR,
                     5 * HOUR + 1234, rng.randint(1000, 5000), rng.randint(1000, 200000)])
    r = rng.random()
    if r < 0.30:
        mx = mn                                    # min = max
    elif r < 0.45:                                 # min > max, also with the same or a larger sub-second part
        mx = rng.choice([mn - 1, mn - 1000, mn % 1000, 999, 0, mn - rng.randint(1, mn), max(0, mn - 1000 + rng.randint(0, 999))])
    elif r < 0.55:
        mx = mn + 1
    elif r < 0.85:
        mx = mn + rng.choice([50, 999, 1000, 1600, rng.randint(1, 3000)])
    else:
        mx = mn + rng.choice([60000, HOUR, rng.randint(1, 10 ** 6)])
    return mn, max(0, mx)


def sub_ms(rng, mn, mx):
    mn_us, mx_us = mn * 1000, mx * 1000
    if rng.random() < 0.15:                        # sub-millisecond parts are truncated by as_millis()
        mn_us += rng.choice([1, 500, 999])
    if rng.random() < 0.15:
        mx_us += rng.choice([1, 500, 999])
    return mn_us, mx_us


def checkpoints(rng, mn, mx):
    """instants (after the first polls) at which a case with long bounds polls everything: around the bounds, a few
    inside the range, and around the sub-second parts of the bounds"""
    lo, hi = mn, max(mn, mx)
    pts = {lo - 1, lo, lo + 1, hi - 1, hi, hi + 1, mn % 1000, mx % 1000, mn % 1000 + 1}
    if hi > lo:
        for _ in range(rng.randint(1, 4)):
            x = rng.randint(lo, hi)
            pts |= {x, x + rng.choice([0, 1])}
    if rng.random() < 0.5:
        pts.add(rng.randint(0, max(1, lo)))
    keep = {lo, hi, hi + 1}                        # always: at the lower bound, at and after the upper bound
    pts = sorted(x for x in pts if x > 0 and (x in keep or rng.random() < 0.75))
    return pts


def gen_long(rng, hdr, mn, mx, dropsvc):
    """Requests under bounds of a second and more: first polls at the start (or spread over a few ms), then the clock
    jumps from checkpoint to checkpoint and everything is polled at each. `dropsvc`: None | 'pending' (between the
    arrivals and the first polls) | 'mid' (somewhere among the first polls) | 'late' (while requests sleep)."""
    ops = ["probe cfg"]
    ncall = rng.randint(1, 8)
    ids = list(range(1, ncall + 1))
    maxlat = 0
    for c in ids:
        lat = rng.choice([0, 0, 1, 3, 1000, 2500])
        maxlat = max(maxlat, lat)
        ops.append("arrive %d tag=%d inner=%d:%s" % (c, rng.randint(0, 99), lat, pick_out(rng)))
    order = ids[:]
    if rng.random() < 0.5:
        rng.shuffle(order)
    if dropsvc == "pending":
        ops.append("manual dropsvc")
    mid = rng.randint(0, len(order)) if dropsvc == "mid" else -1
    spread = 0
    for n, c in enumerate(order):
        if n == mid:
            ops.append("manual dropsvc")
        ops.append("poll %d" % c)
        if rng.random() < 0.25:
            d = rng.choice([1, 1, 2, 999, 1000])
            ops.append("adv %d" % d)
            spread += d
    if mid == len(order):
        ops.append("manual dropsvc")
    if dropsvc is not None and rng.random() < 0.5:
        ops.append("arrive %d tag=%d inner=0:ok" % (ncall + 1, ncall + 1))      # noop: no handle left
        ops.append("poll %d" % (ncall + 1))
    if rng.random() < 0.2 and order:
        ops.append("drop %d" % rng.choice(order))
    pts = checkpoints(rng, mn, mx)
    late_at = rng.randint(0, len(pts)) if dropsvc == "late" else -1
    now = 0
    for n, x in enumerate(pts):
        if n == late_at:
            ops.append("manual dropsvc")
        ops.append("adv %d" % (x - now))
        now = x
        ops.append("settle")
    if late_at == len(pts):
        ops.append("manual dropsvc")
    # far enough for every delayed call (first polled up to `spread` late) and its inner latency to complete
    ops.append("adv %d" % (spread + 1))
    ops.append("settle")
    if maxlat:
        ops.append("adv %d" % maxlat)
        ops.append("settle")
    return {"header": hdr, "ops": ops}


def pick_out(rng):
    r = rng.random()
    if r < 0.6:
        return "ok"
    if r < 0.85:
        return "err%d" % rng.choice([1, 2])
    if r < 0.93:
        return "panic"
    return "never"


VIAS = ["clone", "readyclone", "swap", "template"]


def ready_script(rng, hard=True):
    """readiness answers of the strict wrapped service: mostly ready, sometimes pending / error (never empty)"""
    if not hard or rng.random() < 0.55:
        return "r" * rng.randint(1, 3)
    return "".join(rng.choice("rrrrrrpe") for _ in range(rng.randint(1, 14)))


def caller_modes(rng):
    """-> function giving the ` via=… tvia=…` suffix of the next `arrive` (instance A / the twin): defaults only,
    one mode for the whole case (readyclone / swap twice as likely: a handle cloned while ready), or mixed"""
    def pick():
        r = rng.random()
        if r < 0.35:
            return lambda: None
        if r < 0.70:
            v = rng.choice(VIAS + ["readyclone", "swap"])
            return lambda: v
        return lambda: rng.choice(VIAS + ["readyclone", "swap", None])
    a, b = pick(), pick()

    def suffix():
        va, vb = a(), b()
        return ("" if va is None else " via=%s" % va) + ("" if vb is None else " tvia=%s" % vb)
    return suffix


def gen_modes(rng):
    """Caller modes in a chosen rate regime over the strict wrapped service: a few requests per handle, so that a
    handle that was cloned / replaced while ready-but-uncalled is used again"""
    seed = rng.choice([0, 1, 42, rng.randint(0, (1 << 64) - 1), rng.randint(0, 1000)])
    mid = lambda: "T%d" % rng.choice([P53 // 2, P53 // 4, P53 - P53 // 8, rng.randint(1, P53 - 1)])
    regime = rng.choice(["zero", "zero", "e1", "l1", "mid", "mid"])
    if regime == "zero":
        rates = rng.choice([" erate=T0 lrate=T0", " lrate=T0"])
    elif regime == "e1":
        rates = " erate=T%d lrate=%s" % (P53, rng.choice(["T0", mid(), "T%d" % P53]))
    elif regime == "l1":
        rates = rng.choice([" erate=T0", ""]) + " lrate=T%d" % P53
    else:
        rates = rng.choice([" erate=%s" % mid(), ""]) + " lrate=%s" % mid()
    mn = rng.choice([0, 1, 3, 10])
    mx = rng.choice([mn, mn + 1, mn + 6, max(0, mn - 1)])
    hdr = "chaos seed=%d%s min_us=%d max_us=%d" % (seed, rates, mn * 1000, mx * 1000)
    if "erate" in hdr and rng.random() < 0.3:
        hdr += " order=1"
    if rng.random() < 0.5:
        hdr += " handles=%d" % rng.choice([1, 1, 2, 3])
    if rng.random() < 0.85:
        hdr += " ready=%s" % ready_script(rng, hard=rng.random() < 0.5)
    suffix = caller_modes(rng)
    if rng.random() < 0.5:                          # one mode throughout (both instances)
        v, w = rng.choice(["readyclone", "swap"]), rng.choice(VIAS)
        suffix = lambda: " via=%s tvia=%s" % (v, w)
    ops = ["probe cfg"]
    n = rng.randint(2, 9)
    unpolled = []
    for c in range(1, n + 1):
        lat = rng.choice([0, 0, 1, 4])
        ops.append("arrive %d tag=%d inner=%d:%s%s" % (c, rng.randint(0, 99), lat, pick_out(rng), suffix()))
        unpolled.append(c)
        r = rng.random()
        if r < 0.5:
            ops.append("poll %d" % unpolled.pop(rng.randrange(len(unpolled))))
        elif r < 0.6:
            ops.append("drop %d" % unpolled.pop(rng.randrange(len(unpolled))))
        if rng.random() < 0.2:
            ops.append("adv %d" % rng.choice([1, mn, mx + 1]))
        if rng.random() < 0.08:
            ops.append("manual dropsvc")
    rng.shuffle(unpolled)
    for c in unpolled:
        ops.append("poll %d" % c)
    ops += ["adv %d" % (max(mn, mx)), "settle", "adv 5", "settle"]
    return {"header": hdr, "ops": ops}


STRESS_P = {"quick": 0.025, "thorough": 0.012}
STRESS_CALLS = {"quick": [40000, 80000, 120000, 200000], "thorough": [50000, 100000, 200000, 400000, 800000]}


def gen_stress(rng, tier):
    """a short case around one real-thread stress run; the budget is the number of calls
    (about 1.2 M first polls per second on 8 threads of the reference machine)"""
    seed = rng.choice([0, 1, 42, rng.randint(0, (1 << 64) - 1), rng.randint(0, 1000)])
    hdr = "chaos seed=%d" % seed
    mid = lambda: "T%d" % rng.choice([P53 // 2, P53 // 4, P53 - P53 // 8, rng.randint(1, P53 - 1)])
    r = rng.random()
    if r < 0.45:                                   # error rate 1: every call must fail, inner never called
        hdr += " erate=T%d lrate=%s" % (P53, rng.choice(["T0", "T%d" % P53, mid()]))
    elif r < 0.53:                                 # both rates 0: transparent
        hdr += rng.choice([" erate=T0 lrate=T0", " lrate=T0"])
    elif r < 0.63:                                 # latency rate 1 without errors: every call delayed
        hdr += rng.choice([" erate=T0", ""]) + " lrate=T%d" % P53
    elif r < 0.75:                                 # latency only
        hdr += " lrate=%s" % mid()
    else:
        hdr += " erate=%s lrate=%s" % (mid(), rng.choice(["T0", mid(), mid(), "T%d" % P53]))
    mn = rng.choice([0, 0, 1, 3])
    mx = rng.choice([mn, mn + 1, mn + 4, mn + 9, max(0, mn - 1)])
    hdr += " min_us=%d max_us=%d" % (mn * 1000, mx * 1000)
    if "erate" in hdr and rng.random() < 0.4:
        hdr += " order=1"
    ops = ["probe cfg"]
    pre = rng.random() < 0.3
    if pre:                                        # ordinary requests before: the stress instance is a separate one
        ops += ["arrive 1 tag=1 inner=0:ok", "poll 1"]
    ops.append("manual stress threads=%d calls=%d" % (rng.choice([2, 3, 4, 8, 8, 8, 16]), rng.choice(STRESS_CALLS.get(tier, STRESS_CALLS["quick"]))))
    if rng.random() < 0.5:
        ops += ["arrive 2 tag=2 inner=0:ok", "arrive 3 tag=3 inner=1:err1", "poll 3", "poll 2", "adv %d" % (max(mn, mx) + 1), "settle"]
    return {"header": hdr, "ops": ops}


def builder_path(rng, hdr):
    """which public builder path makes the layer (all must give the same layer): order of `.error_rate` / `.error_fn` / the rest
    (incl. everything configured on the second builder type), where the builder comes from, `.name(..)` called or not"""
    if "erate=" in hdr and " order=" not in hdr:
        r = rng.random()
        if r < 0.22:
            hdr += " order=2"
        elif r < 0.36:
            hdr += " order=3"
    r = rng.random()
    if r < 0.12:
        hdr += " entry=new"
    elif r < 0.24:
        hdr += " entry=default"
    r = rng.random()
    if r < 0.15:
        hdr += " name=-"
    elif r < 0.30:
        hdr += " name=%s" % rng.choice(["a", "chaos-1", "payments", "x" * 40])
    return chain(rng, hdr)


def chain_tokens(cfg):
    """`chain=` of a header -> [(kind, value)] as written"""
    return [tuple((t.split(":", 1) + [""])[:2]) for t in cfg.get("chain", "").split(",") if t]


def configured_bounds_us(cfg):
    """The latency bounds (µs) the header DEMANDS. With `chain=` (the builder setters in the order they are called): the LAST
    `.min_latency(..)` / `.max_latency(..)` of the chain, the builder's defaults (10 ms / 100 ms) when a bound is never set — each
    bound on its own, whatever the other one was at the moment of the call. Without it: `min_us` / `max_us`.
    (Lean: builder_last_wins, latency_setters_independent, latency_in_configured_range.)"""
    if "chain" not in cfg:
        return int(cfg.get("min_us", "0")), int(cfg.get("max_us", "0"))
    mn, mx = 10000, 100000
    for k, v in chain_tokens(cfg):
        if k == "m":
            mn = int(v)
        elif k == "M":
            mx = int(v)
    return mn, mx


def chain(rng, hdr, p=0.4):
    """THE ORDER OF THE BUILDER SETTERS as a dimension: ` chain=<tok>,<tok>,…` — `m:<µs>` min_latency, `M:<µs>` max_latency,
    `l:<spec>` latency_rate, `e:<spec>` error_rate, `s:<seed>` seed, `n:<name>` name, `f` error_fn, `h` the listeners — called in
    exactly that order on whichever builder type is current (`e` before `f`: through `ChaosConfigBuilderWithRate`; `f` first: the rate
    is set on the builder with the error function, possibly several times). Any order; about a third of the settings are made more
    than once (the earlier calls with other values: bounds above / below the other bound, rates 0 / 1 / mid, other seeds and names).
    The last setter of each kind carries the value of the header (`min_us` … stay the configured values), so the case's operations
    need no change. Replaces `order=`."""
    if rng.random() >= p:
        return hdr
    cfg = kvs(hdr)
    mn, mx = int(cfg.get("min_us", "0")), int(cfg.get("max_us", "0"))
    final = {"m": str(mn), "M": str(mx), "l": cfg.get("lrate", "T0"), "s": cfg.get("seed", "0")}
    if cfg.get("name", "-") != "-":
        final["n"] = cfg["name"]
    toks = [(k, None) for k in final] + [("h", None)]
    if "erate" in cfg:
        toks.append(("f", None))

    def decoy(k):
        if k == "m":
            return str(rng.choice([0, 1000, mx, mx + 1000, mx + rng.randint(1, 20) * 1000, 2 * mn + 500, 10000, 3600 * 10 ** 6]))
        if k == "M":
            return str(rng.choice([0, 1000, mn, max(0, mn - 1000), mn + rng.randint(1, 20) * 1000, 100000, 3600 * 10 ** 6]))
        if k in ("l", "e"):
            return rng.choice(["T0", "T%d" % P53, "T%d" % (P53 // 2), "T%d" % rng.randint(0, P53)])
        if k == "s":
            return str(rng.choice([0, 1, 42, rng.randint(0, (1 << 64) - 1)]))
        return rng.choice(["a", "b-2", "verif"])
    for k in list(final):
        while rng.random() < 0.3:
            toks.append((k, decoy(k)))
    rng.shuffle(toks)
    if "erate" in cfg:
        # `.error_rate(..)`: once before `.error_fn(..)` at most (the second builder type has no such setter), any number of times after
        fi = [i for i, t in enumerate(toks) if t[0] == "f"][0]
        r = rng.random()
        n_after = rng.choice([0, 0, 1, 2]) if r < 0.5 else rng.choice([1, 1, 2])
        if r < 0.5:
            toks.insert(rng.randint(0, fi), ("e", decoy("e")))
            fi += 1
        for _ in range(n_after):
            toks.insert(rng.randint(fi + 1, len(toks)), ("e", decoy("e")))
        final["e"] = cfg["erate"]
    # the last setter of each kind carries the header's value
    for k, v in final.items():
        idx = [i for i, t in enumerate(toks) if t[0] == k]
        for i in idx[:-1]:
            if toks[i][1] is None:
                toks[i] = (k, decoy(k))
        toks[idx[-1]] = (k, v)
    hdr = " ".join(w for w in hdr.split() if not w.startswith("order="))
    out = hdr + " chain=" + ",".join(k if v is None else "%s:%s" % (k, v) for k, v in toks)
    assert configured_bounds_us(kvs(out)) == (mn, mx)
    return out


def services(rng, case, force=False):
    """several services made from the one layer value: ` svc=<k>` (and ` lclone=1`) on the arrivals"""
    if not force and rng.random() >= 0.38:
        return case
    n = rng.choice([2, 2, 2, 3, 4])
    arrivals = [i for i, o in enumerate(case["ops"]) if o.startswith("arrive ")]
    how = rng.choice(["alt", "random", "random", "blocks"])
    lc = rng.choice([0.0, 0.0, 0.3, 1.0])
    for j, i in enumerate(arrivals):
        k = j % n if how == "alt" else rng.randrange(n) if how == "random" else min(n - 1, j * n // max(1, len(arrivals)))
        extra = "" if k == 0 and rng.random() < 0.5 else " svc=%d" % k
        if rng.random() < lc:
            extra += " lclone=1"
        case["ops"][i] += extra
    return case


def gen_services(rng):
    """Two to four services from one layer value at rates strictly between 0 and 1 (so that decisions vary): the same number
    of requests on each, traffic interleaved in a random order — or service after service —, everything polled to completion"""
    seed = rng.choice([0, 1, 42, rng.randint(0, (1 << 64) - 1), rng.randint(0, 1000)])
    mid = lambda: "T%d" % rng.choice([P53 // 2, P53 // 3, P53 // 4, P53 - P53 // 4, rng.randint(P53 // 8, P53 - P53 // 8)])
    r = rng.random()
    rates = " lrate=%s" % mid() if r < 0.25 else " erate=%s lrate=%s" % (mid(), rng.choice([mid(), mid(), "T0", "T%d" % P53]))
    mn = rng.choice([0, 1, 2, 5])
    mx = mn + rng.choice([0, 1, 7, 30, 200])
    hdr = builder_path(rng, "chaos seed=%d%s min_us=%d max_us=%d" % (seed, rates, mn * 1000, mx * 1000))
    if rng.random() < 0.3:
        hdr += " handles=%d" % rng.choice([1, 2, 3])
    nsvc = rng.choice([2, 2, 3, 4])
    per = rng.randint(1, 5)
    reqs = [(c + 1, c % nsvc) for c in range(nsvc * per)]
    if rng.random() < 0.5:
        reqs.sort(key=lambda x: x[1])                  # service after service: the second starts when the first has served
        reqs = [(i + 1, k) for i, (_, k) in enumerate(reqs)]
    lc = rng.choice([0.0, 0.0, 0.5])
    ops = ["probe cfg"]
    pend = []
    for c, k in reqs:
        ops.append("arrive %d tag=%d inner=%d:%s svc=%d%s" % (c, rng.randint(0, 99), rng.choice([0, 0, 2]), rng.choice(["ok", "ok", "err1"]), k,
                                                              " lclone=1" if rng.random() < lc else ""))
        pend.append(c)
        if rng.random() < 0.6:
            ops.append("poll %d" % pend.pop(rng.randrange(len(pend))))
        if rng.random() < 0.15:
            ops.append("adv %d" % rng.choice([1, mn, mx]))
    rng.shuffle(pend)
    if rng.random() < 0.12 and pend:
        ops.append("manual dropsvc")
    ops += ["poll %d" % c for c in pend]
    ops += ["adv %d" % mn, "settle", "adv %d" % (mx - mn + 1), "settle", "adv 3", "settle"]
    return {"header": hdr, "ops": ops}


def gen(rng, tier):
    if rng.random() < STRESS_P.get(tier, 0.02):
        case = gen_stress(rng, tier)
        case["header"] = builder_path(rng, case["header"])
        return case
    if rng.random() < 0.07:
        case = gen_modes(rng)
        case["header"] = builder_path(rng, case["header"])
        return services(rng, case)
    if rng.random() < 0.08:
        return gen_services(rng)
    case = gen_ordinary(rng, tier)
    case["header"] = builder_path(rng, case["header"])
    # caller modes and the strict wrapped service, in whatever rate regime the case has
    modes = caller_modes(rng) if rng.random() < 0.5 else None
    if rng.random() < 0.45:
        case["header"] += " ready=%s" % ready_script(rng, hard=rng.random() < 0.35)
    if modes:
        case["ops"] = [o + modes() if o.startswith("arrive ") else o for o in case["ops"]]
    return services(rng, case)


def gen_ordinary(rng, tier):
    seed = rng.choice([0, 1, 42, 42, (1 << 64) - 1, rng.randint(0, (1 << 64) - 1), rng.randint(0, (1 << 64) - 1), rng.randint(0, 1000)])
    hdr = "chaos seed=%d" % seed
    has_e = rng.random() < 0.85
    if has_e:
        hdr += " erate=%s" % rate_spec(rng, "e")
    hdr += " lrate=%s" % rate_spec(rng, "l")
    long = rng.random() < 0.24
    mn_us, mx_us = sub_ms(rng, *long_bounds(rng)) if long else bounds(rng)
    hdr += " min_us=%d max_us=%d" % (mn_us, mx_us)
    if has_e and rng.random() < 0.4:
        hdr += " order=1"
    if rng.random() < 0.3:                         # which handle serves a request must not matter
        hdr += " handles=%d" % rng.choice([1, 2, 2, 3, 5])
    mn, mx = mn_us // 1000, mx_us // 1000
    top = max(mn, mx)
    # every handle dropped: between the arrivals and the first polls / among the first polls / later / anywhere
    r = rng.random()
    dropsvc = None if r < 0.72 else "pending" if r < 0.84 else "mid" if r < 0.92 else "late"
    if long and rng.random() < 0.6:
        return gen_long(rng, hdr, mn, mx, dropsvc)
    ops = ["probe cfg"]
    ncall = rng.randint(1, 12)
    sweep = rng.random() < 0.45 and top <= 25
    if sweep:
        hdr += " sweep=1"
        maxlat = 0
        ids = list(range(1, ncall + 1))
        for c in ids:
            lat = rng.choice([0, 0, 1, 3])
            maxlat = max(maxlat, lat)
            ops.append("arrive %d tag=%d inner=%d:%s" % (c, rng.randint(0, 99), lat, pick_out(rng)))
        order = ids[:]
        if rng.random() < 0.5:
            rng.shuffle(order)
        if dropsvc == "pending":
            ops.append("manual dropsvc")
        mid = rng.randint(0, len(order)) if dropsvc == "mid" else -1
        # first polls: all at t=0, or staggered over the first few ticks
        stagger = rng.random() < 0.4
        t_extra = 0
        for n, c in enumerate(order):
            if n == mid:
                ops.append("manual dropsvc")
            ops.append("poll %d" % c)
            if stagger and rng.random() < 0.4:
                ops.append("adv 1")
                ops.append("settle")
                t_extra += 1
        if mid == len(order):
            ops.append("manual dropsvc")
        if dropsvc is not None and rng.random() < 0.4:
            ops.append("arrive %d tag=%d inner=0:ok" % (ncall + 1, ncall + 1))  # noop: no handle left
            ops.append("poll %d" % (ncall + 1))
        if rng.random() < 0.2 and order:
            ops.append("drop %d" % rng.choice(order))
        ticks = top + maxlat + 2
        late_at = rng.randint(0, ticks) if dropsvc == "late" else -1
        for n in range(ticks):
            if n == late_at:
                ops.append("manual dropsvc")
            ops.append("adv 1")
            ops.append("settle")
        return {"header": hdr, "ops": ops}
    pending = list(range(1, ncall + 1))
    arrived = []
    unpolled = set()
    now = 0
    marks = []
    gone = False
    # `pending`: at a moment when some request has arrived and has not been polled; otherwise anywhere
    drop_p = {None: 0.0, "pending": 0.5, "mid": 0.08, "late": 0.04}[dropsvc]
    poll_p = 0.25 if dropsvc == "pending" else 0.6
    for _ in range(rng.randint(6, 40)):
        r = rng.random()
        if not gone and drop_p and (unpolled or dropsvc != "pending") and arrived and rng.random() < drop_p:
            ops.append("manual dropsvc")
            gone = True
            continue
        if pending and (r < 0.3 or not arrived):
            c = pending.pop(0)
            lat = rng.choice([0, 0, 1, 5, rng.randint(0, 20)])
            ops.append("arrive %d tag=%d inner=%d:%s" % (c, rng.choice([c, rng.randint(0, 99)]), lat, pick_out(rng)))
            arrived.append(c)
            if not gone:
                unpolled.add(c)
            if rng.random() < poll_p:
                ops.append("poll %d" % c)
                unpolled.discard(c)
                marks += [now + mn, now + mx, now + mn + lat, now + mx + lat]
                if long:
                    marks += [now + mn % 1000, now + mx % 1000]
        elif r < 0.55 and arrived:
            c = rng.choice(arrived)
            ops.append("poll %d" % c)
            unpolled.discard(c)
            marks += [now + mn, now + mx]
        elif r < 0.62 and arrived:
            ops.append("drop %d" % rng.choice(arrived))
        elif r < 0.88:
            fut = [m for m in marks if m >= now]
            if fut and rng.random() < 0.7:
                d = max(0, rng.choice(fut) - now + rng.choice([-1, 0, 0, 0, 1]))
            else:
                d = rng.choice([0, 1, 2, 3, 5, rng.randint(0, 20)])
            ops.append("adv %d" % d)
            now += d
        else:
            ops.append("settle")
    if dropsvc is not None and not gone and rng.random() < 0.7:
        ops.append("manual dropsvc")
    if rng.random() < (0.9 if long else 0.7):
        ops.append("adv %d" % (rng.choice([top, top + 1, top + 21]) if long else rng.choice([0, 1, top, top + 1, 50])))
        ops.append("settle")
        if long and rng.random() < 0.7:            # …and the requests first polled by that settle
            ops.append("adv %d" % (top + 21))
            ops.append("settle")
    if rng.random() < 0.3:
        ops.append("dropall")
    return {"header": hdr, "ops": ops}


# ----------------------------------------------------------------------------- monitors

def _scan(case, lines, meta):
    """-> dict with thresholds, bounds, per-caller first poll / inner call / result / drop"""
    cfg = kvs(case["header"])
    mn_us, mx_us = configured_bounds_us(cfg)
    info = {"eT": None, "lT": None, "mn": mn_us // 1000, "mx": mx_us // 1000,
            "sweep": cfg.get("sweep") == "1", "fp": {}, "call": {}, "res": {}, "drop": {}, "tags": {}, "twin": []}
    for o in case["ops"]:
        w = o.split()
        if len(w) >= 2 and w[0] == "arrive" and w[1].isdigit() and int(w[1]) not in info["tags"]:
            info["tags"][int(w[1])] = int(kvs(o).get("tag", w[1]))
    for _, m in meta:
        w = m.split()
        if w[0] == "#fp":
            info["fp"][int(w[1])] = int(w[2])
        elif w[0] == "#drop":
            info["drop"][int(w[1])] = int(w[2])
    for l in lines:
        t, w = tparse(l)
        if not w:
            continue
        if w[0] == "probe" and w[1] == "cfg":
            kv = kvs(l)
            info["eT"], info["lT"] = int(kv["eT"]), int(kv["lT"])
        elif w[0] == "inner_call":
            info["call"].setdefault(int(w[1]), []).append(t)
        elif w[0] == "result":
            info["res"][int(w[1])] = (t, w[2])
        elif w[0] == "twin-mismatch":
            info["twin"].append(l)
    end = 0
    for o in case["ops"]:
        w = o.split()
        if w and w[0] == "adv":
            end += int(w[1])
    info["end"] = end
    return info


def _injected(res):
    return res.startswith("err:inner99:")


def _decisions(meta):
    """-> (first-poll order, reference draw scheme, reported by instance A, reported by the twin) per request"""
    pred, order, seen, seenb = {}, [], {}, {}
    for _, m in meta:
        w = m.split()
        if len(w) < 3:
            continue
        if w[0] == "#ref":
            pred[int(w[1])] = w[2]
        elif w[0] == "#svc":
            order.append(int(w[1]))
        elif w[0] == "#obs":
            seen.setdefault(int(w[1]), []).append(w[2])
        elif w[0] == "#obsb":
            seenb.setdefault(int(w[1]), []).append(w[2])
    return order, pred, seen, seenb


def _services(meta):
    """-> (service of each first-polled request, per service the requests in the order of their first polls)"""
    svc_of, per = {}, {}
    for _, m in meta:
        w = m.split()
        if len(w) >= 3 and w[0] == "#svc":
            svc_of[int(w[1])] = int(w[2])
            per.setdefault(int(w[2]), []).append(int(w[1]))
    return svc_of, per


def mon_determinism(case, lines, meta):
    """The determinism clause with no reference to what the decision function is: the same seed and the same order of
    requests are run twice inside the case. Every service k made from the layer value of instance A has a twin: a service
    built independently (its own builder()…build(), same configuration and seed) that is given exactly the requests made
    on service k, in the same order of first polls, but is driven differently (a: each request served by a clone, call()
    at arrival, next to the traffic of the sibling services; b: one handle, call() only at the first poll, alone). They
    must behave alike and report the same decision (incl. the latency amount) for every request."""
    i = _scan(case, lines, meta)
    order, _, seen, seenb = _decisions(meta)
    svc_of, per = _services(meta)
    several = len(per) > 1
    for n, c in enumerate(order):
        if seen.get(c, []) != seenb.get(c, []):
            k = svc_of.get(c, 0)
            rank = per.get(k, [c]).index(c) + 1 if c in per.get(k, []) else n + 1
            where = ("service %d of the layer value (requests of that service in first-poll order: %s; first polls of all services: %s)"
                     % (k, per.get(k), order)) if several else "the service (first-poll order %s)" % order
            return ("same seed, same requests in the same order, but for request %d — the %d. request to be first polled on %s — "
                    "instance a (served by clones, call() at arrival) decided %s and its equally seeded, independently built twin "
                    "(one handle never cloned, call() at the first poll, given only this service's requests) decided %s"
                    % (c, rank, where, ",".join(seen.get(c, [])) or "nothing", ",".join(seenb.get(c, [])) or "nothing"))
    if i["twin"]:
        return ("two equally seeded instances given the same requests in the same order (a: served by clones, call() at arrival; "
                "b: independently built, one handle never cloned, call() at the first poll) behaved differently: %s" % i["twin"][0])
    return None


def mon_services(case, lines, meta):
    """Services made from ONE layer value are equally seeded services: each has the seed's stream to itself, so the
    decision sequences of any two of them (each in the order of its own first polls) agree on their common prefix —
    however their traffic is interleaved and however much the other one has served. No reference to the decision function."""
    _, _, seen, _ = _decisions(meta)
    svc_of, per = _services(meta)
    ks = sorted(per)
    seqs = {k: [",".join(seen.get(c, [])) or "nothing" for c in per[k]] for k in ks}
    for a in ks:
        for b in ks:
            if a >= b:
                continue
            for n, (x, y) in enumerate(zip(seqs[a], seqs[b])):
                if x != y:
                    return ("services %d and %d were made from the same layer value (same configuration, same seed) but their decision "
                            "sequences differ at position %d: service %d decided %s (requests %s in first-poll order), service %d decided "
                            "%s (requests %s); the %d. decision of a service must not depend on what its sibling has served"
                            % (a, b, n + 1, a, seqs[a][:n + 1], per[a][:n + 1], b, seqs[b][:n + 1], per[b][:n + 1], n + 1))
    return None


def mon_witness(case, lines, meta):
    """The implementation's own reference stream: when the case began, an independently built, equally configured and seeded
    service took its first decisions one after the other (other payloads, instant 0, every request dropped right after its first
    poll): `#wit i d`. The i-th request to be first polled on a service made from the layer value must get decision i — whatever
    its payload, the instant, the fate of the requests before it, the handles that are still alive, the traffic of the sibling
    services. No reference to what the decision function is."""
    wit = {}
    for _, m in meta:
        w = m.split()
        if len(w) >= 3 and w[0] == "#wit":
            wit[int(w[1])] = w[2]
    if not wit:
        return None
    _, _, seen, _ = _decisions(meta)
    svc_of, per = _services(meta)
    for k in sorted(per):
        for n, c in enumerate(per[k]):
            if n in wit and seen.get(c, []) != [wit[n]]:
                return ("request %d is the %d. request to be first polled on service %d (requests of that service in first-poll order: %s) "
                        "and the layer decided %s for it; an independently built service with the same configuration and seed, asked for its "
                        "first decisions one after the other when the case began (other payloads, every request dropped right after its first "
                        "poll), decided %s as its %d. decision (its first decisions: %s): the decisions depend on something other than the "
                        "seed and the order of the requests"
                        % (c, n + 1, k, per[k], ",".join(seen.get(c, [])) or "nothing", wit[n], n + 1,
                           [wit[j] for j in sorted(wit)][:n + 1]))
    return None


def reference_scheme(meta):
    """INFORMATIONAL, never a verdict: does the layer still decide like the draw scheme of the code this harness was written
    against (per service: StdRng::seed_from_u64(seed); per request in first-poll order: error roll iff error rate > 0, error iff roll
    < rate; otherwise latency roll iff latency rate > 0, delay iff roll < rate, by random_range(min..=max) iff max > min, else min)?
    -> True / False / None (no decision taken). The property does not fix the function, so a difference is not a failure."""
    order, pred, seen, _ = _decisions(meta)
    if not order:
        return None
    return all(seen.get(c, []) == [pred.get(c)] for c in order)


def mon_stress(case, lines, meta):
    """Real-thread stress search (`manual stress`): the harness checked, over all calls of all threads, the
    clauses `error rate 1 => every call fails and the inner service is never called`, `rates 0/0 => transparent`,
    `every call behaves as the one decision reported for it`, and `the multiset of the K decisions is that of K calls
    made one after the other on an equally seeded, independently built service` (the decisions are a function of the
    seed and of the order in which the requests take their decision; no reference to what the function is). In full."""
    for _, m in meta:
        if m.startswith("#stress-fail"):
            return "parallel stress run violated the property: " + m[len("#stress-fail"):].strip()
    return None


def mon_error_skips_inner(case, lines, meta):
    i = _scan(case, lines, meta)
    for c, (t, r) in i["res"].items():
        if _injected(r):
            if c in i["call"]:
                return "request %d got the injected error although the inner service was called for it (t=%s)" % (c, i["call"][c])
            if r != "err:inner99:%d" % i["tags"].get(c, -1):
                return "request %d: injected error %s was not built from this request (tag %s)" % (c, r, i["tags"].get(c))
            if c in i["fp"] and t != i["fp"][c]:
                return "request %d: error injected at t=%d, not in its first poll (t=%d): latency on an injected error" % (c, t, i["fp"][c])
    for c, ts in i["call"].items():
        if len(ts) > 1:
            return "request %d reached the inner service %d times" % (c, len(ts))
    return None


def mon_extremes(case, lines, meta):
    i = _scan(case, lines, meta)
    if i["eT"] is None:
        return None
    if i["eT"] == 0:
        for c, (t, r) in i["res"].items():
            if _injected(r):
                return "error rate 0 but request %d got an injected error" % c
    if i["eT"] == 0 and i["lT"] == 0:
        for c, t in i["fp"].items():
            if i["call"].get(c) != [t]:
                return "both rates 0 but request %d (first polled t=%d) reached the inner service at %s: not transparent" % (c, t, i["call"].get(c))
    if i["eT"] == P53:
        if i["call"]:
            c = sorted(i["call"])[0]
            return "error rate 1 but request %d reached the inner service" % c
        for c, t in i["fp"].items():
            if c not in i["res"] or not _injected(i["res"][c][1]) or i["res"][c][0] != t:
                return "error rate 1 but request %d (first polled t=%d) did not fail at once: %s" % (c, t, i["res"].get(c))
    # the same extremes on the decisions the layer reports (rate 0 => never, rate 1 => always)
    _, _, seen, _ = _decisions(meta)
    for c in sorted(seen):
        for d in seen[c]:
            if i["eT"] == 0 and d == "error":
                return "error rate 0 but the layer reports an injected error for request %d" % c
            if i["eT"] == P53 and d != "error":
                return "error rate 1 but the layer reports %s for request %d" % (d, c)
            if i["lT"] == 0 and d.startswith("lat:"):
                return "latency rate 0 but the layer reports an injected latency (%s) for request %d" % (d, c)
            if i["lT"] == P53 and d == "pass":
                return "latency rate 1 but the layer reports that request %d passed through without latency" % c
    if i["lT"] == 0:
        for c, t in i["fp"].items():
            if c in i["call"] and i["call"][c][0] != t:
                return ("latency rate 0 but request %d (first polled t=%d) reached the inner service only at t=%d: latency injected"
                        % (c, t, i["call"][c][0]))
    return None


def _readiness(case, lines, meta):
    """-> (per request of instance A: (mode, answers of the layer, answers of its wrapped service), mode of the twin per
    request, requests for which the twin's wrapped service was called unready)"""
    rdy, tvia, unready_b = {}, {}, []
    for _, m in meta:
        w = m.split()
        if w[0] == "#rdy" and len(w) >= 3:
            kv = kvs(m)
            rdy[int(w[1])] = (kv.get("via", "?"), kv.get("layer", ""), kv.get("inner", ""))
        elif w[0] == "#tvia" and len(w) >= 3:
            tvia[int(w[1])] = w[2]
        elif w[0] == "#unready-b" and len(w) >= 2:
            unready_b.append(int(w[1]))
    return rdy, tvia, unready_b


MODE_TEXT = {"clone": "clone the template, ready the clone, call the clone",
             "readyclone": "ready the template, clone it, ready the clone, call the clone",
             "swap": "ready the template, leave a fresh clone in its place (mem::replace), call the readied handle",
             "template": "ready the template and call it"}


def mon_readiness(case, lines, meta):
    """The wrapped service is only called on an instance that reported ready (Tower readiness contract), whichever
    way the caller obtained the handle it calls; the layer forwards readiness (a refusal of the wrapped service is a
    refusal of the layer and vice versa); with both rates 0 the layer forwards readiness and calls unchanged."""
    i = _scan(case, lines, meta)
    rdy, tvia, unready_b = _readiness(case, lines, meta)
    both0 = i["eT"] == 0 and i["lT"] == 0
    if i["eT"] is None:                            # a shrunk case may have lost `probe cfg`: exact specs of the header
        cfg = kvs(case["header"])
        both0 = cfg.get("erate", "T0") == "T0" and cfg.get("lrate", "T0") == "T0"
    pre = "both rates 0 (the layer must be transparent) but " if both0 else ""
    history = lambda c: "; caller modes so far: " + ", ".join("%d:%s" % (k, rdy[k][0]) for k in sorted(rdy) if k <= c)
    for l in lines:
        t, w = tparse(l)
        if w and w[0] == "inner_call" and "ready=0" in w:
            c = int(w[1])
            via = rdy.get(c, ("?",))[0]
            return ("%srequest %d (caller: %s) — the wrapped service was called on an instance that never reported ready since "
                    "its last call (Tower readiness contract: poll_ready must have returned Ready on the very instance that is "
                    "called); poll_ready answers of the layer during this arrival: '%s', answers its wrapped service gave: '%s'%s"
                    % (pre, c, MODE_TEXT.get(via, via), rdy.get(c, ("", "", ""))[1], rdy.get(c, ("", "", ""))[2], history(c)))
    for c in unready_b:
        via = tvia.get(c, "?")
        return ("%srequest %d on the twin instance (caller: %s) — the wrapped service was called on an instance that never "
                "reported ready since its last call (Tower readiness contract); twin caller modes: %s"
                % (pre, c, MODE_TEXT.get(via, via), ", ".join("%d:%s" % (k, tvia[k]) for k in sorted(tvia) if k <= c)))
    for c in sorted(rdy):
        via, lay, inn = rdy[c]
        if inn and inn[-1] in "pe" and (not lay or lay[-1] != inn[-1]):
            return ("%srequest %d (caller: %s): the wrapped service answered poll_ready '%s' but the layer answered '%s': readiness "
                    "is not forwarded" % (pre, c, MODE_TEXT.get(via, via), inn, lay))
        if lay and lay[-1] in "pe" and (not inn or inn[-1] != lay[-1]):
            return ("%srequest %d (caller: %s): the layer answered poll_ready '%s' although its wrapped service answered '%s': "
                    "readiness is not forwarded" % (pre, c, MODE_TEXT.get(via, via), lay, inn))
        if both0 and lay != inn:
            return ("both rates 0 (the layer must be transparent) but during the arrival of request %d (caller: %s) the layer "
                    "answered poll_ready '%s' while its wrapped service was asked and answered '%s': poll_ready does not reach the "
                    "wrapped instance of the handle" % (c, MODE_TEXT.get(via, via), lay, inn))
    return None


def _poll_instants(case):
    """caller -> instants at which it was polled, from the operations (`settle` polls every live caller)"""
    now = 0
    arrived, gone = [], set()
    polls = {}
    nosvc = False
    for o in case["ops"]:
        w = o.split()
        if not w:
            continue
        if w[0] == "adv":
            now += int(w[1])
        elif w[:2] == ["manual", "dropsvc"]:
            nosvc = True
        elif w[0] == "arrive" and int(w[1]) not in arrived:
            if nosvc:
                gone.add(int(w[1]))               # no handle left: the request is never made
            arrived.append(int(w[1]))
        elif w[0] == "poll" and int(w[1]) in arrived and int(w[1]) not in gone:
            polls.setdefault(int(w[1]), []).append(now)
        elif w[0] == "settle":
            for c in arrived:
                if c not in gone:
                    polls.setdefault(c, []).append(now)
        elif w[0] == "drop":
            gone.add(int(w[1]))
        elif w[0] == "dropall":
            gone |= set(arrived)
    return polls


def mon_latency(case, lines, meta):
    """Injected latency d lies in [min,max] (= min when min >= max). Observable: the inner call is made
    by the first poll at or after first-poll + d. So (lower bound) a delayed inner call is never earlier
    than first-poll + min, and (upper bound) no poll at or after first-poll + max may leave the request
    still waiting. Both are exact when the clock is advanced 1 ms at a time (`sweep` cases)."""
    i = _scan(case, lines, meta)
    if i["eT"] is None:
        return None
    mn, mx = i["mn"], i["mx"]
    lo = mn
    hi = mx if mn <= mx else mn
    always = i["eT"] == 0 and i["lT"] == P53      # every request is delayed
    polls = _poll_instants(case)
    # the delay the layer itself reports for a request (`on_latency_injected`)
    _, _, seen, _ = _decisions(meta)
    for c in sorted(seen):
        for d in seen[c]:
            if d.startswith("lat:") and not lo <= int(d[4:]) <= hi:
                ch = kvs(case["header"]).get("chain")
                return ("request %d: the layer reports an injected latency of %s ms, outside [min_latency, max_latency] = [%d,%d] ms%s%s"
                        % (c, d[4:], mn, mx, "" if mn <= mx else " (min > max: min_latency is used)",
                           " — the bounds last given to the builder, whose setters were called in the order " + ch if ch else ""))
    for c, t0 in i["fp"].items():
        ps = polls.get(c, [])
        if c in i["call"]:
            t1 = i["call"][c][0]
            lat = t1 - t0
            if lat < 0:
                return "request %d reached the inner service before its first poll" % c
            if (lat > 0 or always) and lat < lo:
                return "request %d: inner call %d ms after the first poll, below min_latency=%d ms" % (c, lat, mn)
            late = [p for p in ps if t0 + hi <= p < t1]
            if late:
                return ("request %d (first polled t=%d): polled at t=%d, %d ms after the first poll, and still kept waiting "
                        "(inner call only at t=%d): injected latency above the bound, range [%d,%d] ms" % (c, t0, late[0], late[0] - t0, t1, mn, mx))
        elif not (c in i["res"] and _injected(i["res"][c][1])):
            late = [p for p in ps if p >= t0 + hi]
            if late:
                return ("request %d (first polled t=%d) neither failed nor reached the inner service although polled at t=%d, "
                        "%d ms after its first poll; range [%d,%d] ms" % (c, t0, late[0], late[0] - t0, mn, mx))
    return None


def mon_observed_latency(case, lines, meta):
    """The injected latency AS THE COMPARED LOG SHOWS IT: instant of the `inner_call` line - instant of the `first_poll` line
    (the harness prints `first_poll c svc=k` itself when it polls the call future of c for the first time). For the decision the
    layer reports for a request: "error" => the injected error at the instant of the `first_poll` line and no inner call; "pass" =>
    the inner call at that instant; "lat:d" => the inner call exactly at the first poll of the request at or after first_poll + d
    (so: observed latency >= d, and = d whenever the request is polled at first_poll + d), never earlier. (Lean:
    observed_latency_at_least / observed_latency_exact / always_fails_every_call / transparent_whole_request.)"""
    fpl, call, res = {}, {}, {}
    for l in lines:
        t, w = tparse(l)
        if not w or t is None:
            continue
        if w[0] == "first_poll":
            if int(w[1]) in fpl:
                return "request %d has two first_poll lines" % int(w[1])
            fpl[int(w[1])] = (t, int(kvs(l).get("svc", "0")))
        elif w[0] == "inner_call":
            if int(w[1]) not in fpl:
                return "request %d reached the inner service (t=%d) before it was ever polled" % (int(w[1]), t)
            call.setdefault(int(w[1]), []).append(t)
        elif w[0] == "result" and w[2] != "notready":
            if int(w[1]) not in fpl:
                return "request %d has a result (t=%d) before it was ever polled" % (int(w[1]), t)
            res[int(w[1])] = (t, w[2])
    i = _scan(case, lines, meta)
    svc_of, _ = _services(meta)
    for c, t in i["fp"].items():
        if c not in fpl or fpl[c][0] != t or fpl[c][1] != svc_of.get(c, fpl[c][1]):
            return "request %d was first polled at t=%d on service %s, the log says %s" % (c, t, svc_of.get(c), fpl.get(c))
    polls = _poll_instants(case)
    _, _, seen, _ = _decisions(meta)
    for c in sorted(fpl):
        t0 = fpl[c][0]
        ds = seen.get(c, [])
        if len(ds) != 1:
            continue                                 # no / several reported decisions: the correspondence check reports that
        d = ds[0]
        if d == "error":
            if c in call:
                return "request %d: the layer reports an injected error, the log shows an inner call at t=%s" % (c, call[c])
            if c not in res or res[c][0] != t0 or not _injected(res[c][1]):
                return "request %d: the layer reports an injected error at its first poll (t=%d), the log shows %s" % (c, t0, res.get(c))
            continue
        want = t0 if d == "pass" else t0 + int(d[4:])
        due = [p for p in polls.get(c, []) if p >= want]
        if c in call:
            t1 = call[c][0]
            if t1 < want:
                return ("request %d: first polled t=%d, the layer reports %s, but the inner call is at t=%d: observed latency %d ms"
                        % (c, t0, d, t1, t1 - t0))
            if due and t1 != due[0]:
                return ("request %d: first polled t=%d, the layer reports %s, polled at t=%d, but the inner call is only at t=%d: "
                        "observed latency %d ms" % (c, t0, d, due[0], t1, t1 - t0))
        elif due and not (c in res and _injected(res[c][1])):
            return ("request %d: first polled t=%d, the layer reports %s, polled at t=%d and still no inner call"
                    % (c, t0, d, due[0]))
    return None


def transitions(case, lines, meta=None):
    cfg = kvs(case["header"])
    tags = []
    mn, mx = [x // 1000 for x in configured_bounds_us(cfg)]
    tags.append("range-" + ("eq" if mn == mx else "inverted" if mn > mx else "proper"))
    if mn >= 1000:
        tags.append("min-at-least-1s")
        tags.append("long-range-" + ("eq" if mn == mx else "inverted" if mn > mx else "proper"))
    elif mx >= 1000:
        tags.append("max-only-at-least-1s")
    if max(mn, mx) >= HOUR:
        tags.append("bounds-hours")
    if (int(cfg.get("min_us", "0")) % 1000 or int(cfg.get("max_us", "0")) % 1000) and max(mn, mx) >= 1000:
        tags.append("long-bounds-sub-ms-part")
    nosvc = False
    for _, m in (meta or []):
        w = m.split()
        if w[0] == "#dropsvc":
            nosvc = True
            tags.append("dropsvc")
        elif w[0] == "#fp" and nosvc:
            tags.append("first-poll-after-dropsvc")
    after = False
    for o in case["ops"]:
        w = o.split()
        if w[:2] == ["manual", "dropsvc"]:
            after = True
        elif after and nosvc and w[:1] == ["arrive"]:
            tags.append("arrive-after-dropsvc")
            break
    if "ready" in cfg:
        tags.append("inner-strict")
        if set(cfg["ready"]) & set("pe"):
            tags.append("inner-refuses")
    rdy, tvia, _ = _readiness(case, lines, meta or [])
    made = [c for c in sorted(rdy) if rdy[c][1] and rdy[c][1][-1] == "r"]
    for c in sorted(rdy):
        tags.append("via-" + rdy[c][0])
    for c in sorted(tvia):
        tags.append("twin-via-" + tvia[c])
    # a handle cloned / replaced while ready-but-uncalled, and a later request through the same template
    hk = int(cfg.get("handles", "0"))
    for n, c in enumerate(made):
        if rdy[c][0] in ("readyclone", "swap") and any(hk == 0 or d % hk == c % hk for d in made[n + 1:]):
            tags.append("ready-handle-cloned-then-reused")
            if "ready" in cfg:
                tags.append("ready-handle-cloned-then-reused-strict")
    tw = [c for c in sorted(tvia)]
    for n, c in enumerate(tw):
        if tvia[c] in ("readyclone", "swap") and tw[n + 1:]:
            tags.append("twin-ready-handle-cloned-then-reused")
    if "erate" not in cfg:
        tags.append("no-error-injector")
    # builder path
    if cfg.get("order") in ("2", "3") and "erate" in cfg:
        tags.append("builder-with-rate-" + ("all" if cfg["order"] == "2" else "split"))
    if cfg.get("entry") in ("new", "default"):
        tags.append("entry-" + cfg["entry"])
    if "chain" in cfg:
        tags.append("chain")
        toks = chain_tokens(cfg)
        kinds = [k for k, _ in toks]
        if any(kinds.count(k) > 1 for k in "mMlsn"):
            tags.append("chain-setter-repeated")
        if "m" in kinds and "M" in kinds and len(kinds) - 1 - kinds[::-1].index("M") < len(kinds) - 1 - kinds[::-1].index("m"):
            tags.append("chain-max-before-min")
        cur_mn, cur_mx, below, above = 10000, 100000, False, False
        for k, v in toks:
            if k == "m":
                cur_mn = int(v)
                above = above or cur_mn // 1000 > cur_mx // 1000
            elif k == "M":
                cur_mx = int(v)
                below = below or cur_mx // 1000 < cur_mn // 1000
        if below and mn < mx:
            tags.append("chain-max-set-below-current-min-range-proper")
        if above and mn < mx:
            tags.append("chain-min-set-above-current-max-range-proper")
        if "f" in kinds:
            fi = kinds.index("f")
            tags.append("chain-error-rate-before-fn" if "e" in kinds[:fi] else "chain-error-fn-first")
            if kinds[fi:].count("e") > 0:
                tags.append("chain-error-rate-after-fn")
    if "name" in cfg:
        tags.append("name-unset" if cfg["name"] == "-" else "name-custom")
    # several services from the one layer value
    svc_of, per = _services(meta or [])
    if len(per) > 1:
        tags.append("services-2plus")
        firsts, count = [], {}
        for _, m in (meta or []):
            w = m.split()
            if len(w) >= 3 and w[0] == "#svc":
                k = int(w[2])
                if k not in count and any(v > 0 for v in count.values()):
                    tags.append("service-starts-after-sibling-served")
                if k in count and firsts and firsts[-1] != k:
                    tags.append("services-interleaved")
                count[k] = count.get(k, 0) + 1
                firsts.append(k)
        if min(len(v) for v in per.values()) >= 2:
            tags.append("services-2plus-decisions-each")
    built = set()
    for o in case["ops"]:
        w = o.split()
        if w[:1] == ["arrive"]:
            kv = kvs(o)
            k = int(kv.get("svc", "0"))
            if k not in built:
                built.add(k)
                if kv.get("lclone") == "1":
                    tags.append("service-from-layer-clone" + ("-taken-after-services-built" if len(built) > 1 else ""))
    ref = reference_scheme(meta or [])
    if ref is not None:
        tags.append("draw-scheme-as-reference" if ref else "draw-scheme-differs-from-reference")
    for k in ("erate", "lrate"):
        if cfg.get(k, "").startswith("d"):
            tags.append("rate-on-a-roll")
        if cfg.get(k, "").startswith("b"):
            tags.append("rate-off-grid")
    if cfg.get("sweep") == "1":
        tags.append("sweep")
    if int(cfg.get("handles", "0")) > 0:
        tags.append("handles-kept")
    fp = {}
    for _, m in (meta or []):
        w = m.split()
        if w[0] == "#fp":
            fp[int(w[1])] = int(w[2])
    # the injected latency as the compared log shows it (first_poll line -> inner_call line) against the reported one
    _, _, seen_d, _ = _decisions(meta or [])
    fpl = {}
    for l in lines:
        t, w = tparse(l)
        if w and w[0] == "first_poll" and t is not None:
            fpl[int(w[1])] = t
        elif w and w[0] == "inner_call" and t is not None and int(w[1]) in fpl:
            d = seen_d.get(int(w[1]), [])
            if len(d) == 1 and d[0].startswith("lat:"):
                ms, obs_ms = int(d[0][4:]), t - fpl[int(w[1])]
                tags.append("latency-zero" if ms == 0 else "latency-observed-exact" if obs_ms == ms else "latency-observed-late")
    for l in lines:
        t, w = tparse(l)
        if not w:
            continue
        if w[0] == "inner_call" and t is not None and int(w[1]) in fp and t - fp[int(w[1])] >= 1000:
            tags.append("delay-of-seconds-completed")
        if w[0] == "probe":
            kv = kvs(l)
            e, ll = int(kv["eT"]), int(kv["lT"])
            tags.append("erate-" + ("0" if e == 0 else "1" if e == P53 else "mid"))
            tags.append("lrate-" + ("0" if ll == 0 else "1" if ll == P53 else "mid"))
            if any(rdy[c][0] in ("readyclone", "swap") for c in rdy) and "ready" in cfg:
                tags.append("modes-strict-at-" + ("rates-0" if e == 0 and ll == 0 else "erate-1" if e == P53 else
                                                  "lrate-1" if e == 0 and ll == P53 else "rates-mid"))
        elif w[0] == "stress":
            kv = kvs(l)
            tags.append("stress-run")
            n = int(kv["calls"])
            tags.append("stress-all-error" if int(kv["errors"]) == n else "stress-all-pass" if int(kv["passed"]) == n
                        else "stress-all-delay" if int(kv["delayed"]) == n else "stress-mixed")
        elif w[0] == "inner_call":
            tags.append("inner-call")
        elif w[0] == "inner_drop":
            tags.append("dropped-running")
        elif w[0] == "result":
            if w[2].startswith("err:inner99"):
                tags.append("error-injected")
            elif w[2] == "panic":
                tags.append("result-panic")
            else:
                tags.append("result-" + w[2].split(":")[0])
    return tags


def transitions_meta(case, lines, meta):
    return transitions(case, lines, meta)


def nontrivial(case, lines, tags):
    return "error-injected" in tags or "inner-call" in tags or "stress-run" in tags


ALL = ["range-eq", "range-inverted", "range-proper", "no-error-injector", "rate-on-a-roll", "rate-off-grid", "sweep",
       "erate-0", "erate-1", "erate-mid", "lrate-0", "lrate-1", "lrate-mid", "inner-call", "dropped-running",
       "error-injected", "result-ok", "result-err", "result-panic", "handles-kept", "stress-run", "stress-all-error",
       "stress-all-pass", "stress-all-delay", "stress-mixed", "min-at-least-1s", "long-range-eq", "long-range-inverted",
       "long-range-proper", "max-only-at-least-1s", "bounds-hours", "long-bounds-sub-ms-part", "delay-of-seconds-completed",
       "dropsvc", "first-poll-after-dropsvc", "arrive-after-dropsvc",
       "inner-strict", "inner-refuses", "result-notready", "via-clone", "via-readyclone", "via-swap", "via-template",
       "twin-via-clone", "twin-via-readyclone", "twin-via-swap", "twin-via-template", "ready-handle-cloned-then-reused",
       "ready-handle-cloned-then-reused-strict", "twin-ready-handle-cloned-then-reused", "modes-strict-at-rates-0",
       "modes-strict-at-erate-1", "modes-strict-at-lrate-1", "modes-strict-at-rates-mid",
       "builder-with-rate-all", "builder-with-rate-split", "entry-new", "entry-default", "name-unset", "name-custom",
       "services-2plus", "service-starts-after-sibling-served", "services-interleaved", "services-2plus-decisions-each",
       "service-from-layer-clone", "service-from-layer-clone-taken-after-services-built", "draw-scheme-as-reference",
       "latency-zero", "latency-observed-exact", "latency-observed-late",
       "chain", "chain-setter-repeated", "chain-max-before-min", "chain-max-set-below-current-min-range-proper",
       "chain-min-set-above-current-max-range-proper", "chain-error-rate-before-fn", "chain-error-fn-first", "chain-error-rate-after-fn"]

LEVEL_NOTE = ("Trusted: Lean kernel; the reading of service.rs:91-152 as the poll-level machine of TR.Model.Chaos (what a request does once its "
              "decision is taken), validated by the sampled correspondence check; the decision itself is NOT modelled as a particular function: the "
              "machine consumes the decision the layer reports through its public event callbacks and checks the boundary clauses (allowedDec); that "
              "the decisions are a function of seed and request order is decided by the determinism monitors (equally seeded, independently built "
              "services given the same requests in the same order; services made from one layer value; a parallel run against a sequential one) — "
              "sampling, not proof. Today's decision block (service.rs:64-89) is transcribed as decideG over an abstract generator only to show that "
              "it is one admissible function (todays_function_is_admissible); rand enters there only through the contract `Lawful`. The harness "
              "(decision observed through the layer's callbacks, exact decoding of f64 rates to thresholds, virtual clock, manual poller) and the "
              "python diff/monitors. For min_latency > max_latency the interval of the property is empty; the code (and the model, and the theorem) "
              "use min_latency. Rates outside [0,1] (clamped by the builder), NaN, unseeded layers and multi-threaded races for the generator mutex "
              "are outside the property.")

COMMON = {
    "group": "chaos",
    "gen": gen,
    "transitions": transitions,
    "nontrivial": nontrivial,
    "all_transitions": ALL,
    "model_modules": ["TR.Model.Chaos", "TR.Lemmas.Chaos", "TR.Lemmas.ChaosStress", "TR.Lemmas.ChaosHandles", "TR.Lemmas.ChaosTrace",
                      "TR.Lemmas.ChaosInjector"],
    "lean_files": ["TR.Model.Chaos", "TR.Lemmas.Chaos", "TR.Lemmas.ChaosStress", "TR.Lemmas.ChaosHandles", "TR.Lemmas.ChaosTrace",
                   "TR.Lemmas.ChaosInjector"],
    "sizes": (600, 30000),
    "rule": "seeded random cases: seed (fixed and random u64), error/latency rates as thresholds n/2^53 (0, 1, 2^-53, 1-2^-53, 1/2, random), arbitrary "
            "f64 bit patterns incl. subnormal and out-of-range, or placed exactly on / one step next to the i-th roll of the seed's stream; "
            "min/max latency with min=max, min>max, sub-millisecond parts; about a quarter of the cases with bounds of a second and more (1000, 1001, "
            "1200..2800, 60000 ms, hours; min below and max above a second), the clock jumping to just before / at / after the bounds and to their "
            "sub-second parts so that the delayed calls complete; 1..12 requests, shuffled first-poll order, drops; either 1 ms sweeps "
            "(exact latency) or random advances biased to min-1/min/max/max+1; requests served by a fresh clone each or by k kept handles; in about "
            "28% of the cases every handle of the service (and of the twin, and the layers) is dropped between the arrivals and the first polls, "
            "among the first polls, or later (`manual dropsvc`; later arrivals are noop); in about 40% of the cases 2-4 services are made from the "
            "one layer value (`svc=k`, optionally from a clone of the layer), traffic alternating / random / service after service; builder paths: "
            "error_rate/error_fn in both orders, everything or part configured on the second builder type (order=2/3), ChaosLayer::builder() / "
            "ChaosConfigBuilder::new() / ::default(), name set / unset; in about 40% of the cases the builder setters (min / max latency, rates, "
            "seed, name, error_fn, listeners) are called in a random order, about a third of them more than once with other values first "
            "(`chain=`: max before min, a bound set below / above the other bound's current value, error_rate before / after error_fn), the "
            "demanded configuration being the last setter of each kind; every request is also given to the twin of its service — an independently "
            "built, equally seeded service driven differently (one handle, call() at the first poll); about 2% (quick) / 1.2% (thorough) of the "
            "cases are real-thread stress runs compared with a sequential run of an equally seeded service "
            "(2-16 OS threads on clones of one seeded service, 20k-160k calls quick, 50k-800k thorough; rate 1, rates 0, latency rate 1, mid rates); "
            "distinct = distinct implementation log; non-trivial = at least one decision was taken",
    "trusted": ["transcription of what Chaos::call does once the decision is taken (service.rs:91-152) in TR.Model.Chaos, sampled by the correspondence check",
                "the layer's public event callbacks report the decision it took (on_error_injected / on_latency_injected / on_passed_through); the behaviour "
                "that decision must have is predicted by the model and compared",
                "determinism itself (same seed + same request order => same decisions) is decided by implementation-side monitors on sampled cases, not by proof",
                "rand only for the instance theorem: random::<f64>() in [0,1) with 53-bit numerators, random_range(a..=b) in [a,b] (abstract generator + contract)",
                "harness: f64->threshold decoding, virtual clock, manual poller; the line `first_poll c svc=k` is printed by the harness when it polls a "
                "call future for the first time (consistent with world.rs's `#fp`: monitor c19-observed-latency)",
                "std::sync::Mutex gives mutual exclusion (the model's atomic decision block); probed, not proved, by the real-thread stress search",
                "python diff/monitors"],
    "assumptions": ["the layer is built with a seed; rates in [0,1]; latency bounds compared in whole milliseconds",
                    "the decision of one request is taken atomically (the decision block runs under the generator's mutex); everything else a poll does "
                    "touches only that request. Single-threaded cases: one poll is one step. Multi-threaded executions are covered by the theorems only "
                    "through this assumption; the `manual stress` cases search for executions that break it (sampling, not proof)"],
    "level_note": LEVEL_NOTE,
    "level_text": "Theorems TR.Props.C19.*: for EVERY family of decision streams (one per service made from the layer value; = all seeds and all "
                  "decision functions, not only today's draw scheme), all thresholds, all millisecond ranges, all operation lists: the decisions taken on a "
                  "service are the prefix of ITS stream, independent of instants, payloads, outcomes, cancellations, interleaving and of the traffic of the "
                  "sibling services (decisions_are_stream, deterministic, deterministic_prefix, equally_seeded_services_agree, services_independent); "
                  "a request decided 'error' never has an inner call in any run (error_skips_inner) and fails in its first poll (error_result_immediate); for "
                  "every stream within the boundary clauses (allowedDec): rates 0/0 => every decision is 'pass' and the inner service is called in the first "
                  "poll (transparent_*); error rate 1 => every decision is 'error', no inner call in any run (always_fails_*); an injected latency lies in "
                  "[min,max], equals min when min>=max, and is real virtual time (latency_*); today's decision block over any generator within rand's "
                  "contracts is one such stream (todays_function_is_admissible, todays_*); any interleaving of the threads' requests gives the same "
                  "multiset of decisions as a sequential run (interleaving_multiset, interleavings_agree, stress_oracle_sound) — given that a request's "
                  "decision is taken atomically; dropping every handle at any point leaves the run what it is without that operation and the later "
                  "arrivals (handles_dropped_no_effect, …); the whole seconds of a bound count (bound_in_ms, latency_at_least_min, "
                  "one_second_is_one_second); the configured range is the last .min_latency / .max_latency of the builder chain (defaults 10 / 100 ms), "
                  "each bound independent of every other setter and of the order of the calls, and an allowed delay lies within it "
                  "(builder_last_wins, latency_setters_independent, latency_in_configured_range). OVER THE COMPARED, TIMESTAMPED LOG (State.tlog = the log with the instants the driver prints: "
                  "trace_is_the_log; it contains the harness's line `first_poll c svc=k`): the lines of a request are exactly what its decision "
                  "dictates (request_lines, decision_observable: decision = inject iff a result and NO inner_call; the ghost decision list is the list "
                  "of first_poll lines); the i-th request with a first_poll line on service k shows decision sigma k i (log_decisions_are_stream, "
                  "log_inject_sequence_is_stream, log_deterministic); inner_call instant - first_poll instant >= the stream's latency for every "
                  "schedule and = it when no adv jumps over a wake-up (Timely; observed_latency_at_least/_exact/_in_bounds incl. min = max and "
                  "min > max, log_latencies_deterministic); error rate 1 => every polled request has exactly first_poll + the injected error at the "
                  "same instant and the log holds no inner_call (always_fails_every_call); rates 0/0 => every polled request has exactly one "
                  "inner_call, at its first poll, and its result is that call's answer unchanged (transparent_whole_request). An arbitrary "
                  "ErrorInjector (public trait; only the two shipped ones can be installed): decideI — latency bounds and 'inject iff the injector "
                  "says so' hold for every injector, the extremes and determinism need stated conditions, with counter-models (any_injector, "
                  "injector_extremes, injector_and_determinism, injectors_breaking_the_extremes). The model consumes the decision the real "
                  "ChaosLayer reports and predicts the behaviour; determinism is "
                  "tied to the real layer by the twin / services / parallel-vs-sequential monitors.",
}

SPECS = {
    "C19": dict(COMMON, module="TR.Props.C19",
                monitors=[("c19-determinism-twin", mon_determinism), ("c19-determinism-services", mon_services),
                          ("c19-determinism-witness", mon_witness),
                          ("c19-error-skips-inner", mon_error_skips_inner),
                          ("c19-extremes", mon_extremes), ("c19-latency-bounds", mon_latency),
                          ("c19-observed-latency", mon_observed_latency),
                          ("c19-readiness", mon_readiness), ("c19-parallel-stress", mon_stress)]),
}
