"""C17 — fallback: complete grid + random schedules, implementation-side monitor

Header   `fallback strategy=<s> [handle=<mask>] val=<n> [via=<builder|short|default>] [upper=<s> [uhandle=<mask>] [uval=<n>] [uvia=…]]`
         `via=`: how the layer is built — the builder, the shortcut constructor of the strategy (only without a predicate),
         `FallbackConfigBuilder::default()`; `upper=`: a second fallback layer stacked on top (error type `FallbackError<IErr>`;
         its test functions see `Inner(e)` as kind 2*e.kind and `FallbackFailed(e)` as kind 2*e.kind+1 and log `upredicate`/`ustrategy`)
         `chain=<setter>.<setter>.…` (instead of `strategy=` / `handle=` / `order=`): the layer is built by exactly this sequence of
         builder calls — strategy setters by name (`value:<n>` / `value_fn:<n>`: with n instead of `val`), `h<mask>` = `.handle(..)`,
         `n` = `.name(..)`; several strategy setters and several `handle` calls in any order: the last of each kind is in force
Requests `arrive <c> tag=<t> inner=<lat>:<out>[,<lat>:<out>] [post=<steps>] [svc=<k>] [reuse=1] [gen=<g>]` (second step = the backup call);
         the request type has an observable `Clone` (a generation counter bumped by `clone()`); `gen=<g>`: the generation of the
         request the caller submits (default 0); everything that is handed a request logs `reqgen <who> <c> <generation it got>`
         right before its own line (who = inner | backup | from_request_error | ufrom_request_error)
         `post=`: what the caller does with an error result before looking at it — `c` clone it, `v` view it through the
         accessors (`view c <is_inner> <is_failed> <ref kind> <ref v> <into kind> <into v>`), `m` convert the payload with
         `FallbackError::map` (kind + 100); `svc=<k>`: which of several services built from the one layer value (odd k: from a
         clone of it); `reuse=1`: call the long-lived handle itself instead of a clone
Probe    `probe strategy c= tag= kind= v=`: a hand-built `FallbackStrategy` value of the header's strategy, cloned, the clone applied
Handles  `manual dropsvc`: the caller drops the service, its clones and the layer (calls in flight
         keep running; later arrivals are answered `noop`)
Readiness `ready=<script>` / `bready=<script>` in the header: the wrapped / the backup service answers
         successive `poll_ready` calls from the script (r ready, p pending, e error kind 9 payload 0;
         ready once exhausted). A caller polls the layer ready once when it arrives: pending ->
         `result c notready`, error -> `resp c …` / `result c …` with what `poll_ready` returned.

The grid strategy x predicate x inner outcome x backup outcome (x latency pattern x point at which
the service handles are dropped) is small and is enumerated completely by the first GRID_SIZE calls
of `gen` in every run, in both tiers; then the readiness grid (strategy x predicate {none, accepts the
readiness error, rejects it} x latency pattern, every request meeting a scripted readiness answer); the
remaining cases are random schedules (polls/drops/advances in every phase, the handles dropped at a
random point of every second one, readiness scripts in two of five, random payloads).
"""
from gen.util import kvs, tparse

STRATEGIES = ["value", "value_fn", "from_error", "from_request_error", "service", "exception"]
# no predicate / accepts kind 1 only / accepts kinds 1 and 2 / rejects everything
HANDLES = [None, 2, 6, 0]
INNER_OUT = ["ok", "err1", "err2", "panic", "never"]
BACKUP_OUT = ["ok", "err3", "err1", "panic", "never"]
LATS = [(0, 0), (0, 3), (5, 0), (5, 3)]
# where `manual dropsvc` goes: never / before the first poll / after the first polls (inner call pending
# when it has a latency, else the backup call, else everything finished) / after the first latency has
# elapsed (backup call pending under 5+3) / after everything has completed
DROPSVC = [None, 0, 1, 2, 3]


def _grid():
    g = []
    for dp in DROPSVC:
        for s in STRATEGIES:
            for h in HANDLES:
                for (li, lb) in LATS:
                    g.append((s, h, li, lb, dp))
    return g


# readiness: the scripted readiness error has kind 9 — no predicate / a predicate that accepts it (and kind 1) /
# one that rejects it (accepts kinds 1 and 2)
READY_KIND = 9
READY_HANDLES = [None, (1 << READY_KIND) | 2, 6]
READY_GRID = [(s, h, li, lb) for s in STRATEGIES for h in READY_HANDLES for (li, lb) in [(0, 0), (5, 3)]]

GRID = _grid()
_counter = [0]


_order = [0]


_via = [0]
VIAS = ["builder", "short", "default"]
# generations of a submitted request other than 0 (an original)
GENS = [1, 1, 2, 3, 7, 40]


def header(s, h, val, ready=None, bready=None, upper=None, chain=None):
    # alternate the order of the two builder calls (strategy / handle predicate): they must commute
    _order[0] ^= 1
    # rotate the way the layer is built: builder / shortcut constructor (has no predicate) / `Default` builder
    _via[0] += 1
    via = VIAS[_via[0] % 3]
    if via == "short" and h is not None:
        via = "default" if _via[0] % 2 else "builder"
    up = ""
    if upper is not None:
        us, uh, uval = upper
        uvia = VIAS[(_via[0] // 3) % 3]
        if uvia == "short" and uh is not None:
            uvia = "builder"
        up = " upper=%s%s uval=%d%s" % (us, "" if uh is None else " uhandle=%d" % uh, uval, "" if uvia == "builder" else " uvia=" + uvia)
    if chain is not None:
        # the layer is built by this chain of builder calls (no shortcut constructor then)
        return "fallback chain=%s val=%d%s%s%s%s" % (
            chain, val, "" if ready is None else " ready=%s" % ready, "" if bready is None else " bready=%s" % bready,
            " via=default" if via == "default" else "", up)
    return "fallback strategy=%s%s val=%d order=%d%s%s%s%s" % (
        s, "" if h is None else " handle=%d" % h, val, _order[0],
        "" if ready is None else " ready=%s" % ready, "" if bready is None else " bready=%s" % bready,
        "" if via == "builder" else " via=" + via, up)


# what a caller does with an error result before looking at it (`post=`): clone / view / map steps
POSTS = ["", "", "", "m", "v", "c", "mv", "vm", "cm", "vcmv", "mm", "cvc", "vmvmv"]
# the upper layer of a stack: every strategy but the backup service; predicate over (variant, kind):
# none / FallbackFailed only (odd bits) / Inner only (even bits) / Inner kind 1, FallbackFailed kinds 1 and 3
UPPERS = ["value", "value_fn", "from_error", "from_request_error", "exception"]
FAILED_ONLY = 0xAAAAAAAAAAAAAAAA
INNER_ONLY = 0x5555555555555555
UHANDLES = [None, FAILED_ONLY, INNER_ONLY, (1 << 2) | (1 << 3) | (1 << 7)]
STACK_GRID = [(us, uh, s) for us in UPPERS for uh in UHANDLES for s in ("service", "exception", "from_request_error")]
# builder chains with several strategy setters: every ordered pair of strategies (the same one twice too) x where the
# `handle` call(s) stand {none, before both, between, after both, before and between (two different predicates)},
# rotating; then every strategy after two others
HANDLE_SPOTS = ["none", "before", "between", "after", "twice"]
CHAIN_GRID = ([(s1, s2) for s1 in STRATEGIES for s2 in STRATEGIES]
              + [(STRATEGIES[(i + 1) % 6], STRATEGIES[(i + 3) % 6], STRATEGIES[i]) for i in range(6)]
              + [("exception", STRATEGIES[(i + 2) % 6], STRATEGIES[i]) for i in range(6)])
GRID_SIZE = len(GRID) + len(READY_GRID) + len(STACK_GRID) + len(CHAIN_GRID)


def _strategy_token(rng, s, val):
    """a strategy setter of a chain; value / value_fn sometimes with a value of their own (so that two `value` setters
    in one chain differ)"""
    if s in ("value", "value_fn") and rng.random() < 0.6:
        return "%s:%d" % (s, rng.choice([val + 1, 3, 40000, rng.randint(0, 999)]))
    return s


def make_chain(rng, strategies, val, spot=None):
    """the tokens of a builder chain naming `strategies` in that order, `handle` calls at `spot` (random if None) and
    `name` calls anywhere"""
    toks = [_strategy_token(rng, s, val) for s in strategies]
    masks = [2, 6, 0, 4, 14, 514, rng.randint(0, 1023)]
    if spot is None:
        for _ in range(rng.choice([0, 1, 1, 2])):
            toks.insert(rng.randrange(len(toks) + 1), "h%d" % rng.choice(masks))
    elif spot == "before":
        toks.insert(0, "h%d" % rng.choice([2, 6]))
    elif spot == "between":
        toks.insert(1, "h%d" % rng.choice([2, 6]))
    elif spot == "after":
        toks.append("h%d" % rng.choice([2, 6]))
    elif spot == "twice":
        a, b = rng.choice([(2, 6), (6, 2), (0, 2), (6, 0)])
        toks.insert(1, "h%d" % b)
        toks.insert(0, "h%d" % a)
    for _ in range(rng.choice([0, 0, 1, 2])):
        toks.insert(rng.randrange(len(toks) + 1), "n")
    return ".".join(toks)


def chain_in_force(chain, val=None):
    """(strategy, its value or None, predicate mask or None) in force after a builder chain — the property's reading of
    the builder: every strategy setter "sets the strategy", `handle` sets the predicate, so the LAST call of each kind
    counts and the two kinds do not touch each other; None without a strategy setter"""
    strat, sval, mask = None, None, None
    for t in chain.split("."):
        name, _, arg = t.partition(":")
        if name in STRATEGIES:
            strat, sval = name, (int(arg) if arg.isdigit() else None)
        elif name[:1] == "h" and name[1:].isdigit():
            mask = int(name[1:])
    if strat is None:
        return None
    return strat, sval, mask


def config_in_force(cfg):
    """header -> the configuration the layer must behave as: `chain=` resolved into strategy / val / handle"""
    f = chain_in_force(cfg["chain"]) if "chain" in cfg else None
    if f is None:
        return cfg
    out = dict(cfg)
    out["strategy"] = f[0]
    if f[1] is not None:
        out["val"] = str(f[1])
    out.pop("handle", None)
    if f[2] is not None:
        out["handle"] = str(f[2])
    return out


def chain_case(rng, i):
    """the 25 inner x backup outcomes under a layer built by a chain of several strategy setters"""
    strategies = CHAIN_GRID[i]
    val = rng.choice([700, 7000, 0])
    chain = make_chain(rng, strategies, val, HANDLE_SPOTS[(i + i // 6) % len(HANDLE_SPOTS)])
    li, lb = LATS[i % len(LATS)]
    return grid_case(rng, (strategies[-1], None, li, lb, rng.choice([None, None, None, 1, 2])), None, chain, val)


def _caller_opts(rng, multi):
    """`post=` on every second request; with `multi`, some requests go to other services of the same layer and
    some are made on the long-lived handle itself"""
    o = ""
    p = rng.choice(POSTS)
    if p:
        o += " post=" + p
    # two requests in five are themselves copies (the caller submits generation g > 0 of its request)
    if rng.random() < 0.4:
        o += " gen=%d" % rng.choice(GENS)
    if multi:
        r = rng.random()
        if r < 0.35:
            o += " svc=%d" % rng.choice([1, 1, 2, 3])
        if rng.random() < 0.3:
            o += " reuse=1"
    return o


def _probe(rng):
    return "probe strategy c=%d tag=%d kind=%d v=%d" % (rng.randint(0, 9), rng.randint(0, 99), rng.choice([1, 2, 3, 9]), rng.randint(0, 50))


def _script(rng, n, weights="rrrppee"):
    """a readiness script of n answers; at most 3 pending answers in a row (a pending answer of the backup's
    readiness makes the response future wake itself: the poll step of the harness re-polls up to 8 times)"""
    out = ""
    for _ in range(n):
        ch = rng.choice(weights)
        if ch == "p" and out.endswith("ppp"):
            ch = "r"
        out += ch
    return out


def ready_case(rng, point):
    """every strategy x predicate mode: requests that meet a readiness error, a pending and a ready wrapped service
    (in random order), call errors of the same kind 9 next to them, and for the backup strategy a backup service
    with a readiness script of its own"""
    s, h, li, lb = point
    val = rng.choice([700, 7000, 0])
    answers = list("eepprrrrrr")
    rng.shuffle(answers)
    answers = answers[:rng.randint(6, 10)]
    if "e" not in answers:
        answers[rng.randrange(len(answers))] = "e"
    # short scripts too: the service is ready once its script is exhausted
    ready = "".join(answers)[:rng.choice([len(answers), len(answers), 3])]
    if "e" not in ready:
        ready = "e" + ready[1:]
    bready = _script(rng, rng.randint(2, 8), "rrppee") if s == "service" and rng.random() < 0.8 else None
    if bready is not None and "e" not in bready:
        bready += "e"
    ops = []
    ids = list(range(1, len(answers) + 3))
    multi = rng.random() < 0.5
    upper = (rng.choice(UPPERS), rng.choice(UHANDLES + [(1 << 18) | 2]), rng.choice([0, 55])) if rng.random() < 0.3 else None
    for c in ids:
        io = rng.choice(["ok", "err1", "err%d" % READY_KIND, "err%d" % READY_KIND, "err2", "panic", "never"])
        bo = rng.choice(["ok", "ok", "err3", "panic", "never"])
        ops.append("arrive %d tag=%d inner=%d:%s,%d:%s%s" % (c, 10 + rng.randint(0, 80), li, io, lb, bo, _caller_opts(rng, multi)))
        r = rng.random()
        if r < 0.3:
            ops.append("poll %d" % c)
        elif r < 0.4:
            ops.append("drop %d" % c)
    ops.append("settle")
    for d in ([li] if li else []) + ([lb] if lb else []):
        ops.append("adv %d" % d)
        ops.append("settle")
    if rng.random() < 0.3:
        _dropsvc(rng, ops, len(ids) + 1)
    ops.append("dropall")
    chain = None
    if rng.random() < 0.2:
        chain = make_chain(rng, [rng.choice(STRATEGIES), s], val) + ("" if h is None else ".h%d" % h)
    return {"header": header(s, h, val, ready, bready, upper, chain), "ops": ops}


def _dropsvc(rng, ops, c):
    """the handles go; a request attempted afterwards does not exist (noop, also when polled/dropped)"""
    ops.append("manual dropsvc")
    if rng.random() < 0.5:
        ops.append("arrive %d tag=%d inner=0:%s,0:ok" % (c, rng.randint(0, 99), rng.choice(["ok", "err1"])))
        if rng.random() < 0.5:
            ops.append("%s %d" % (rng.choice(["poll", "drop"]), c))


def grid_case(rng, point, upper=None, chain=None, val=None):
    s, h, li, lb, dp = point
    if val is None:
        val = rng.choice([700, 7000, 0])
    ops = []
    ids = []
    c = 0
    # in one case out of four the requests are spread over several services built from the one layer value,
    # and some are made on the long-lived handles themselves
    multi = rng.random() < 0.25
    for io in INNER_OUT:
        for bo in BACKUP_OUT:
            c += 1
            ids.append(c)
            ops.append("arrive %d tag=%d inner=%d:%s,%d:%s%s" % (c, 10 + rng.randint(0, 80), li, io, lb, bo, _caller_opts(rng, multi)))
    if rng.random() < 0.2:
        ops.insert(rng.randrange(len(ops) + 1), _probe(rng))
    order = ids[:]
    if rng.random() < 0.5:
        rng.shuffle(order)
    if dp == 0:
        _dropsvc(rng, ops, c + 1)
    for c in order:
        ops.append("poll %d" % c)
    if dp == 1:
        _dropsvc(rng, ops, len(ids) + 1)
    first = True
    for d in ([li] if li else []) + ([lb] if lb else []):
        if rng.random() < 0.5 and d > 1:
            ops.append("adv %d" % (d - 1))
            ops.append("settle")
            ops.append("adv 1")
        else:
            ops.append("adv %d" % d)
        ops.append("settle")
        if dp == 2 and first:
            _dropsvc(rng, ops, len(ids) + 1)
        first = False
    ops.append("settle")
    if dp == 3 or (dp == 2 and first):
        _dropsvc(rng, ops, len(ids) + 1)
    ops.append("dropall")
    return {"header": header(s, h, val, None, None, upper, chain), "ops": ops}


def stack_case(rng, point):
    """the grid of inner x backup outcomes under a stack: upper strategy x upper predicate x lower strategy"""
    us, uh, s = point
    li, lb = rng.choice(LATS)
    return grid_case(rng, (s, rng.choice(HANDLES), li, lb, rng.choice([None, None, None, 1, 2])), (us, uh, rng.choice([0, 55, 900])))


def pick_out(rng):
    r = rng.random()
    if r < 0.30:
        return "ok"
    if r < 0.80:
        return "err%d" % rng.choice([1, 1, 2, 2, 3, 0, 5, 9])
    if r < 0.90:
        return "panic"
    return "never"


def random_case(rng):
    s = rng.choice(STRATEGIES + ["service"])
    h = rng.choice([None, None, 0, 2, 4, 6, 8, 14, 512, 514, rng.randint(0, 1023), (1 << 64) - 1])
    val = rng.choice([0, 1, 700, rng.randint(0, 100000)])
    ncall = rng.randint(1, 8)
    # readiness scripts (two cases in five): of the wrapped service, and of the backup service
    ready = _script(rng, rng.randint(1, ncall + 2)) if rng.random() < 0.4 else None
    bready = _script(rng, rng.randint(1, ncall + 2), "rrrppe") if s == "service" and rng.random() < 0.4 else None
    upper = None
    if rng.random() < 0.3:
        upper = (rng.choice(UPPERS), rng.choice(UHANDLES + [rng.randint(0, 1 << 24), (1 << 64) - 1]), rng.choice([0, 1, 55, rng.randint(0, 1000)]))
    # a quarter of the cases: the layer is built by a chain of 1..3 strategy setters ending in `s`, `handle` / `name` calls anywhere
    chain = None
    if rng.random() < 0.25:
        chain = make_chain(rng, [rng.choice(STRATEGIES + ["exception"]) for _ in range(rng.randint(0, 2))] + [s], val)
    multi = rng.random() < 0.4
    pending = list(range(1, ncall + 1))
    arrived = []
    ops = []
    marks = []
    now = 0
    nsteps = rng.randint(6, 40)
    # the step at which the service handles are dropped (every second case), anywhere in the schedule
    gone_at = rng.randint(1, nsteps) if rng.random() < 0.5 else None
    gone = False
    for step in range(nsteps):
        if step == gone_at:
            ops.append("manual dropsvc")
            gone = True
        r = rng.random()
        if gone and pending and r < 0.3:
            # a request attempted after the drop does not exist: noop, and so is every poll/drop of it
            c = pending.pop(0)
            ops.append("arrive %d tag=%d inner=0:%s" % (c, rng.randint(0, 99), pick_out(rng)))
            if rng.random() < 0.3:
                ops.append("%s %d" % (rng.choice(["poll", "drop"]), c))
        elif pending and not gone and (r < 0.3 or not arrived):
            c = pending.pop(0)
            li = rng.choice([0, 0, 1, 5, rng.randint(0, 20)])
            lb = rng.choice([0, 0, 1, 3, rng.randint(0, 20)])
            plan = "%d:%s" % (li, pick_out(rng))
            if rng.random() < 0.85:
                plan += ",%d:%s" % (lb, pick_out(rng))
            tag = rng.choice([c, rng.randint(0, 99), rng.randint(0, 99)])
            ops.append("arrive %d tag=%d inner=%s%s" % (c, tag, plan, _caller_opts(rng, multi)))
            arrived.append(c)
            marks += [now + li, now + li + lb]
            if rng.random() < 0.6:
                ops.append("poll %d" % c)
        elif r < 0.55 and arrived:
            ops.append("poll %d" % rng.choice(arrived))
        elif r < 0.63 and arrived:
            ops.append("drop %d" % rng.choice(arrived))
        elif r < 0.88:
            fut = [m for m in marks if m >= now]
            if fut and rng.random() < 0.7:
                d = max(0, rng.choice(fut) - now + rng.choice([-1, 0, 0, 0, 1]))
            else:
                d = rng.choice([0, 1, 2, 3, 5, rng.randint(0, 20)])
            ops.append("adv %d" % d)
            now += d
            if arrived:
                c = rng.choice(arrived)
                marks.append(now + 3)
        elif r < 0.92:
            ops.append(_probe(rng))
        else:
            ops.append("settle")
    if gone_at == nsteps:
        ops.append("manual dropsvc")
    if rng.random() < 0.7:
        ops.append("adv %d" % rng.choice([0, 1, 20, 45]))
        ops.append("settle")
    if rng.random() < 0.5:
        ops.append("dropall")
    return {"header": header(s, h, val, ready, bready, upper, chain), "ops": ops}


def gen(rng, tier):
    i = _counter[0]
    _counter[0] += 1
    if i < len(GRID):
        return grid_case(rng, GRID[i])
    if i < len(GRID) + len(READY_GRID):
        return ready_case(rng, READY_GRID[i - len(GRID)])
    if i < len(GRID) + len(READY_GRID) + len(STACK_GRID):
        return stack_case(rng, STACK_GRID[i - len(GRID) - len(READY_GRID)])
    if i < GRID_SIZE:
        return chain_case(rng, i - len(GRID) - len(READY_GRID) - len(STACK_GRID))
    return random_case(rng)


# ----------------------------------------------------------------------------- monitor

def _requests(case):
    """caller -> tag, from the arrive operations (first arrival counts)"""
    tags = {}
    for o in case["ops"]:
        w = o.split()
        if len(w) >= 2 and w[0] == "arrive" and w[1].isdigit():
            c = int(w[1])
            if c in tags:
                continue
            kv = kvs(o)
            tags[c] = int(kv.get("tag", c))
    return tags


def _posts(case):
    """caller -> its `post=` steps (first arrival counts)"""
    posts = {}
    for o in case["ops"]:
        w = o.split()
        if len(w) >= 2 and w[0] == "arrive" and w[1].isdigit() and int(w[1]) not in posts:
            posts[int(w[1])] = kvs(o).get("post", "")
    return posts


_NAMED = ("inner_call", "inner_done", "inner_drop", "binner_call", "binner_done", "binner_drop", "view", "resp", "result")
_USER = ("predicate", "strategy", "upredicate", "ustrategy")


def _per_caller(lines):
    """attribute every log line to a caller; `predicate`/`strategy` lines (which do not name a
    caller) belong to the caller whose inner call completed on the line before them — or, when no
    inner call has just completed (a user function invoked from `poll_ready`), to the caller named
    by the next line"""
    per = {}
    owner = None
    order = []
    ws = [tparse(l)[1] for l in lines]
    for i, w in enumerate(ws):
        if not w or w[0] == "noop":
            owner = None
            continue
        if w[0] == "probe":
            continue
        if w[0] in _USER:
            who = owner
            if who is None:
                nxt = [x for x in ws[i + 1:] if x and x[0] in _NAMED]
                if not nxt:
                    return None, "line %d: %r outside the completion of an inner call" % (i, lines[i])
                who = int(nxt[0][1])
            per.setdefault(who, []).append(w)
            order.append((who, w))
            continue
        if w[0] in _NAMED:
            c = int(w[1])
            if w[0] in ("inner_call", "binner_call"):
                # a service with a readiness script also logs the tag and whether this instance was polled ready
                if "ready=0" in w:
                    return None, "line %d: %r — the service was called on an instance that had not been polled ready" % (i, lines[i])
                w = [x for x in w if "=" not in x]
            per.setdefault(c, []).append(w)
            order.append((c, w))
            owner = c if w[0] == "inner_done" else None
            continue
        return None, "line %d: unexpected line %r" % (i, lines[i])
    return (per, order), None


def _handled(cfg, out):
    """does the layer handle the inner call's outcome `out` (errN)? — the handle predicate, always without one"""
    if not out.startswith("err"):
        return False
    if "handle" not in cfg:
        return True
    kd = int(out[3:])
    return kd < 64 and bool((int(cfg["handle"]) >> kd) & 1)


def _ready_answers(case):
    """caller -> the answer ('r', 'p', 'e') its one `poll_ready` gets from the wrapped service's script: the
    arrivals that reach the service (first arrival of a caller, handles not yet dropped) consume it in order"""
    ready = kvs(case["header"]).get("ready", "")
    ans = {}
    gone = False
    seen = set()
    for o in case["ops"]:
        w = o.split()
        if w[:2] == ["manual", "dropsvc"]:
            gone = True
        elif len(w) >= 2 and w[0] == "arrive" and w[1].isdigit():
            c = int(w[1])
            if c in seen:
                continue
            seen.add(c)
            if not gone:
                i = len(ans)
                ans[c] = ready[i] if i < len(ready) and ready[i] in "pe" else "r"
    return ans


def _backup_answers(cfg, order):
    """caller -> (pending answers skipped, answer) of the backup service's readiness, consumed in log order by the
    requests whose inner call ended in a handled error under the backup strategy"""
    bready = cfg.get("bready", "")
    out = {}
    if cfg.get("strategy", "value") != "service":
        return out
    i = 0
    for (c, w) in order:
        if w[0] == "inner_done" and _handled(cfg, w[3]) and c not in out:
            n = 0
            while i < len(bready) and bready[i] == "p":
                i += 1
                n += 1
            a = bready[i] if i < len(bready) and bready[i] == "e" else "r"
            i += 1
            out[c] = (n, a)
    return out


READY_ERR = (9, 0)


def _expected_ready(c, a):
    """what an arrival logs when the wrapped service's `poll_ready` is pending / fails: the error comes back
    unchanged under the pass-through variant; nothing is consulted, nothing is called"""
    if a == "p":
        return [["result", str(c), "notready"]]
    return [["resp", str(c), "inner", str(READY_ERR[0]), str(READY_ERR[1])],
            ["result", str(c), "err:inner%d:%d" % READY_ERR]]


def _expected(cfg, c, tag, k, out, k2, out2, n, bans="r"):
    """The property, as a reference function: the lines caller c's request must produce once its
    inner call (serial k) has completed with `out`; `None` marks the point where the layer waits
    for the backup call (serial k2, outcome out2). n = earlier invocations of the value function."""
    strat = cfg.get("strategy", "value")
    mask = int(cfg["handle"]) if "handle" in cfg else None
    val = int(cfg.get("val", "0"))
    seq = [["inner_done", str(c), str(k), out]]
    if out == "ok":
        # a success passes through unchanged and triggers nothing
        return seq + [["resp", str(c), "ok", str(k), str(c), str(tag)], ["result", str(c), "ok:%d" % k]]
    if out == "panic":
        return seq + [["result", str(c), "panic"]]
    kd = int(out[3:])
    handled = True if mask is None else bool((mask >> kd) & 1) if kd < 64 else False
    if mask is not None:
        seq.append(["predicate", str(kd), str(k), "1" if handled else "0"])
    if not handled:
        # returned unchanged
        return seq + [["resp", str(c), "inner", str(kd), str(k)], ["result", str(c), "err:inner%d:%d" % (kd, k)]]

    def ok(v, cc, tg):
        return [["resp", str(c), "ok", str(v), str(cc), str(tg)], ["result", str(c), "ok:%d" % v]]
    if strat == "value":
        return seq + ok(val, 0, 0)
    if strat == "value_fn":
        return seq + [["strategy", "value_fn", str(n)]] + ok(val + n, 0, 1)
    if strat == "from_error":
        return seq + [["strategy", "from_error", str(kd), str(k)]] + ok(k, 0, kd)
    if strat == "from_request_error":
        return seq + [["strategy", "from_request_error", str(c), str(tag), str(kd), str(k)]] + ok(k, c, tag * 100 + kd)
    if strat == "exception":
        return seq + [["strategy", "exception", str(kd), str(k)],
                      ["resp", str(c), "inner", str(kd + 10), str(k)], ["result", str(c), "err:inner%d:%d" % (kd + 10, k)]]
    if bans == "e":
        # the backup service failed readiness: a failure of the backup (its error), no backup call
        return seq + [["resp", str(c), "fallback_failed", str(READY_ERR[0]), str(READY_ERR[1])],
                      ["result", str(c), "err:all_failed:inner%d:%d" % READY_ERR]]
    # backup service, called with the same request
    seq.append(["binner_call", str(c), "?"])
    if k2 is None:
        return seq
    seq[-1] = ["binner_call", str(c), str(k2)]
    if out2 is None:
        return seq
    seq.append(["binner_done", str(c), str(k2), out2])
    if out2 == "ok":
        return seq + ok(k2, c, tag)
    if out2 == "panic":
        return seq + [["result", str(c), "panic"]]
    kd2 = int(out2[3:])
    return seq + [["resp", str(c), "fallback_failed", str(kd2), str(k2)], ["result", str(c), "err:all_failed:inner%d:%d" % (kd2, k2)]]


def _outcome_of(seq):
    """the outcome a complete expected sequence ends in (from its `resp` line, which carries the full payload)"""
    if len(seq) >= 2 and seq[-2][0] == "resp" and seq[-1][0] == "result":
        w = seq[-2]
        if w[2] == "ok":
            return ("ok", int(w[3]), int(w[4]), int(w[5]))
        return ("inner" if w[2] == "inner" else "failed", int(w[3]), int(w[4]))
    return None


def _emit(c, out):
    if out[0] == "ok":
        return [["resp", str(c), "ok", str(out[1]), str(out[2]), str(out[3])], ["result", str(c), "ok:%d" % out[1]]]
    if out[0] == "inner":
        return [["resp", str(c), "inner", str(out[1]), str(out[2])], ["result", str(c), "err:inner%d:%d" % (out[1], out[2])]]
    return [["resp", str(c), "fallback_failed", str(out[1]), str(out[2])], ["result", str(c), "err:all_failed:inner%d:%d" % (out[1], out[2])]]


def _upper_ref(cfg, c, tag, out, nu, readiness=False):
    """The property once more, for the UPPER layer of a stack: its inner service is the lower layer, its inner error
    the lower layer's `FallbackError` — seen by its test functions as kind 2k (Inner) / 2k+1 (FallbackFailed).
    -> (lines of its user functions, its outcome); a success passes through and triggers nothing; a readiness failure
    is forwarded by `poll_ready` (wrapped once more), never handled."""
    if out[0] == "ok":
        return [], out
    kind = 2 * out[1] + (1 if out[0] == "failed" else 0)
    v = out[2]
    if readiness:
        return [], ("inner", kind, v)
    strat = cfg["upper"]
    mask = int(cfg["uhandle"]) if "uhandle" in cfg else None
    uval = int(cfg.get("uval", "0"))
    lines = []
    handled = True if mask is None else (kind < 64 and bool((mask >> kind) & 1))
    if mask is not None:
        lines.append(["upredicate", str(kind), str(v), "1" if handled else "0"])
    if not handled:
        return lines, ("inner", kind, v)
    if strat == "value_fn":
        return lines + [["ustrategy", "value_fn", str(nu)]], ("ok", uval + nu, 0, 1)
    if strat == "from_error":
        return lines + [["ustrategy", "from_error", str(kind), str(v)]], ("ok", v, 0, kind)
    if strat == "from_request_error":
        return lines + [["ustrategy", "from_request_error", str(c), str(tag), str(kind), str(v)]], ("ok", v, c, tag * 100 + kind)
    if strat == "exception":
        return lines + [["ustrategy", "exception", str(kind), str(v)]], ("inner", kind + 10, v)
    return lines, ("ok", uval, 0, 0)


def _post_ref(c, out, steps):
    """what the caller's post-processing of an error result must show: a clone is the same error, `map` keeps the variant
    and converts the payload (kind + 100), the accessors report the variant and the payload"""
    if out[0] == "ok":
        return [], out
    var, k, v = out
    lines = []
    for st in steps:
        if st == "m":
            k += 100
        elif st == "v":
            lines.append(["view", str(c), "1" if var == "inner" else "0", "1" if var == "failed" else "0", str(k), str(v), str(k), str(v)])
    return lines, (var, k, v)


def _stacked(cfg):
    return cfg.get("upper") not in (None, "service")


def _finish(cfg, c, tag, post, seq, nu, readiness=False):
    """a complete expected sequence of the (lower) layer -> what the caller must log: the upper layer's decision on that
    outcome (if there is one), then the caller's post-processing"""
    out = _outcome_of(seq)
    if out is None:
        return seq
    mid = []
    if _stacked(cfg):
        mid, out = _upper_ref(cfg, c, tag, out, nu, readiness)
    views, out = _post_ref(c, out, post)
    return seq[:-2] + mid + views + _emit(c, out)


def _probe_ref(cfg, o):
    """`probe strategy c= tag= kind= v=`: the clone of a strategy value is that strategy"""
    kv = kvs(o)
    c, tag, kd, v = int(kv.get("c", 0)), int(kv.get("tag", 0)), int(kv.get("kind", 0)), int(kv.get("v", 0))
    strat = cfg.get("strategy", "value")
    val = int(cfg.get("val", "0"))
    if strat == "value_fn":
        return "probe strategy value_fn ok %d 0 1" % val
    if strat == "from_error":
        return "probe strategy from_error ok %d 0 %d" % (v, kd)
    if strat == "from_request_error":
        return "probe strategy from_request_error ok %d %d %d" % (v, c, tag * 100 + kd)
    if strat == "service":
        return "probe strategy service ok %d %d %d" % (tag, c, tag)
    if strat == "exception":
        return "probe strategy exception inner %d %d" % (kd + 10, v)
    return "probe strategy value ok %d 0 0" % val


def _submitted_gens(case):
    """caller -> generation of the request it submitted (`gen=` of its first arrive; 0 = an original)"""
    gens = {}
    for o in case["ops"]:
        w = o.split()
        if len(w) >= 2 and w[0] == "arrive" and w[1].isdigit() and int(w[1]) not in gens:
            gens[int(w[1])] = int(kvs(o).get("gen", 0))
    return gens


_SIGHT_NEXT = {"inner": ["inner_call"], "backup": ["binner_call"], "from_request_error": ["strategy", "from_request_error"],
               "ufrom_request_error": ["ustrategy", "from_request_error"]}


def _split_reqgen(lines):
    """the log without its `reqgen` lines, and those as (who, caller, generation, words of the line that follows)"""
    rest = []
    sights = []
    for i, l in enumerate(lines):
        w = tparse(l)[1]
        if w[:1] == ["reqgen"]:
            nxt = tparse(lines[i + 1])[1] if i + 1 < len(lines) else []
            sights.append((w[1], int(w[2]), int(w[3]), nxt))
        else:
            rest.append(l)
    return rest, sights


def mon_request_copies(case, lines, meta):
    """Which copy of the request goes where. The property fixes the primary side: the wrapped service gets the request the
    caller submitted ("for that request", a success "passes through unchanged") — for a request type with an observable
    `Clone`, the SAME generation, on every call, successful ones included. That the request-taking strategies
    (`from_request_error`, the backup service) get exactly one copy further (lib.rs:279, `req.clone()` before the inner call) is
    the model's reading of the code, not of the property text: a deviation there is reported as a broken correspondence."""
    gens = _submitted_gens(case)
    rest, sights = _split_reqgen(lines)
    for (who, c, g, nxt) in sights:
        if who not in _SIGHT_NEXT:
            return "unknown receiver of a request: reqgen %s" % who
        head = _SIGHT_NEXT[who]
        if nxt[:len(head)] != head or (who in ("inner", "backup") and nxt[1:2] != [str(c)]) or \
                (who.endswith("from_request_error") and nxt[2:3] != [str(c)]):
            return "PINNED: `reqgen %s %d` is not followed by the %s line of caller %d (got %r)" % (who, c, " ".join(head), c, " ".join(nxt))
        if c not in gens:
            return "caller %d appears in the log but never arrived" % c
        if who == "inner" and g != gens[c]:
            return ("caller %d submitted generation %d of its request; the wrapped service was handed generation %d — not the request "
                    "the layer was given but a copy of it" % (c, gens[c], g))
    for (who, c, g, nxt) in sights:
        if who != "inner" and g != gens[c] + 1:
            return ("PINNED: caller %d submitted generation %d of its request; %s was handed generation %d, the model says %d "
                    "(the one copy taken before the inner call)" % (c, gens[c], who, g, gens[c] + 1))
    # nothing is handed a request without saying which one it got
    n_seen = {}
    for (who, c, g, nxt) in sights:
        n_seen[who] = n_seen.get(who, 0) + 1
    n_ev = {"inner": 0, "backup": 0, "from_request_error": 0, "ufrom_request_error": 0}
    for l in rest:
        w = tparse(l)[1]
        for who, head in _SIGHT_NEXT.items():
            if w[:len(head)] == head:
                n_ev[who] += 1
    for who in n_ev:
        if n_ev[who] != n_seen.get(who, 0):
            return "PINNED: %d %s lines but %d `reqgen %s` lines" % (n_ev[who], " ".join(_SIGHT_NEXT[who]), n_seen.get(who, 0), who)
    return None


def mon_c17(case, lines, meta):
    lines = _split_reqgen(lines)[0]
    cfg = config_in_force(kvs(case["header"]))
    tags = _requests(case)
    posts = _posts(case)
    want = [_probe_ref(cfg, o) for o in case["ops"] if o.split()[:2] == ["probe", "strategy"]]
    got = [" ".join(tparse(l)[1]) for l in lines if tparse(l)[1][:1] == ["probe"]]
    if want != got:
        i = 0
        while i < len(want) and i < len(got) and want[i] == got[i]:
            i += 1
        return "clone of a FallbackStrategy value (probe %d): expected %r, observed %r" % (
            i, want[i] if i < len(want) else "<nothing more>", got[i] if i < len(got) else "<nothing more>")
    r, err = _per_caller(lines)
    if err:
        return err
    per, order = r
    # invocation index of the value function, in log order
    vfn_index = {}
    uvfn_index = {}
    n = 0
    nu = 0
    for (c, w) in order:
        if w[:2] == ["strategy", "value_fn"]:
            vfn_index[c] = n
            n += 1
        if w[:2] == ["ustrategy", "value_fn"]:
            uvfn_index[c] = nu
            nu += 1
    serials = [int(w[2]) for (_, w) in order if w[0] in ("inner_call", "binner_call")]
    if serials != list(range(len(serials))):
        return "serials of inner/backup calls are not 0,1,2,… in call order: %s" % serials[:20]
    rans = _ready_answers(case)
    bans = _backup_answers(cfg, order)
    for c, a in rans.items():
        if a != "r" and c not in per:
            return "caller %d met a %s wrapped service on arrival: expected %r, nothing logged" % (
                c, "pending" if a == "p" else "failing", " ".join(_finish(cfg, c, tags.get(c, c), posts.get(c, ""), _expected_ready(c, a), 0, True)[0]))
    for c, evs in per.items():
        if c not in tags:
            return "caller %d appears in the log but never arrived" % c
        tag = tags[c]
        if rans.get(c, "r") != "r":
            exp = _finish(cfg, c, tag, posts.get(c, ""), _expected_ready(c, rans[c]), 0, True)
            if evs != exp:
                i = 0
                while i < len(evs) and i < len(exp) and evs[i] == exp[i]:
                    i += 1
                return "caller %d (readiness of the wrapped service: %s; poll_ready must forward it unchanged and call nothing): expected %r, observed %r" % (
                    c, "pending" if rans[c] == "p" else "error %d:%d" % READY_ERR,
                    " ".join(exp[i]) if i < len(exp) else "<nothing more>",
                    " ".join(evs[i]) if i < len(evs) else "<nothing more>")
            continue
        if evs[0][0] != "inner_call":
            return "caller %d: first event is %s, not its inner call" % (c, " ".join(evs[0]))
        k = int(evs[0][2])
        rest = evs[1:]
        if not rest:
            continue
        if rest == [["inner_drop", str(c), str(k)]]:
            continue
        if rest[0][0] != "inner_done":
            return "caller %d: %s before the inner call completed" % (c, " ".join(rest[0]))
        out = rest[0][3]
        k2 = None
        out2 = None
        for w in rest:
            if w[0] == "binner_call":
                k2 = int(w[2])
            if w[0] == "binner_done":
                out2 = w[3]
        exp = _expected(cfg, c, tag, k, out, k2, out2, vfn_index.get(c, n), bans.get(c, (0, "r"))[1])
        exp = _finish(cfg, c, tag, posts.get(c, ""), exp, uvfn_index.get(c, nu))
        got = rest
        if got and got[-1][0] == "binner_drop":
            if got[-1] != ["binner_drop", str(c), str(k2)] or out2 is not None:
                return "caller %d: unexpected %s" % (c, " ".join(got[-1]))
            got = got[:-1]
        if got != exp:
            i = 0
            while i < len(got) and i < len(exp) and got[i] == exp[i]:
                i += 1
            return "caller %d (tag %d, inner call %d -> %s%s): expected %r, observed %r" % (
                c, tag, k, out, "" if k2 is None else ", backup call %d -> %s" % (k2, out2),
                " ".join(exp[i]) if i < len(exp) else "<nothing more>",
                " ".join(got[i]) if i < len(got) else "<nothing more>")
    return None


def _dropsvc_tags(case, lines, meta):
    """in which phase of which request the service handles were dropped (first `manual dropsvc`)"""
    at = [i for (i, m) in (meta or []) if m.startswith("#dropsvc") and i >= 0]
    if not at:
        return []
    at = at[0]
    tags = ["dropsvc"]
    first = {}       # caller -> {event kind: index of its first occurrence}
    for i, l in enumerate(lines):
        _, w = tparse(l)
        if w and w[0] in ("inner_call", "inner_done", "inner_drop", "binner_call", "binner_done", "binner_drop", "result"):
            first.setdefault(int(w[1]), {}).setdefault(w[0], i)
        if i >= at and w:
            if w[0] == "inner_done" and w[3].startswith("err"):
                tags.append("inner-err-after-dropsvc")
            elif w[0] == "predicate":
                tags.append("predicate-after-dropsvc")
            elif w[0] == "strategy":
                tags.append("strategy-after-dropsvc")
            elif w[0] == "binner_call":
                tags.append("backup-call-after-dropsvc")
    for c, f in first.items():
        def before(k):
            return k in f and f[k] < at
        if not before("inner_call"):
            tags.append("dropsvc-before-first-poll")
        elif before("result"):
            tags.append("dropsvc-after-completion")
        elif before("binner_call") and not before("binner_done") and not before("binner_drop"):
            tags.append("dropsvc-backup-pending")
        elif not before("inner_done") and not before("inner_drop"):
            tags.append("dropsvc-inner-pending")
    seen = set()
    gone = False
    for o in case["ops"]:
        w = o.split()
        if w[:2] == ["manual", "dropsvc"]:
            gone = True
        elif len(w) >= 2 and w[0] == "arrive":
            if gone and w[1] not in seen:
                tags.append("arrive-after-dropsvc")
            seen.add(w[1])
    return tags


def canon(lines):
    """`noop` answers carry a timestamp or not depending on who gives them (world.rs / the adapter / the driver)"""
    return ["noop" if l.split()[-1:] == ["noop"] and len(l.split()) <= 2 else l for l in lines]


def _ready_tags(case, lines, cfg, strat):
    """readiness answers met by arrivals (with the strategy and the predicate's view of the readiness error), and by
    the backup closure"""
    tags = []
    r, err = _per_caller(lines)
    if err:
        return tags
    per, order = r
    mode = "nopred" if "handle" not in cfg else "accepted" if _handled(cfg, "err%d" % READY_KIND) else "rejected"
    for c, a in _ready_answers(case).items():
        if a == "e" and c in per:
            tags += ["ready-error", "ready-error-%s-%s" % (strat, mode)]
        elif a == "p" and c in per:
            tags.append("ready-pending")
        elif a == "r" and "ready" in cfg and c in per:
            tags.append("ready-ok-scripted")
    for c, (n, a) in _backup_answers(cfg, order).items():
        if "bready" in cfg:
            tags.append("backup-ready-error" if a == "e" else "backup-ready-ok-scripted")
            if n:
                tags.append("backup-ready-pending")
    return tags


def _caller_tags(case, lines, cfg):
    """the caller's side (post-processing, several services, handle reuse), the way the layer was built, stacks, probes"""
    tags = []
    if cfg.get("via") in ("short", "default"):
        tags.append("via-" + cfg["via"])
    if cfg.get("uvia") in ("short", "default"):
        tags.append("upper-via-" + cfg["uvia"])
    stacked = _stacked(cfg)
    posts = _posts(case)
    called = set()
    opts = {}
    for o in case["ops"]:
        w = o.split()
        if len(w) >= 2 and w[0] == "arrive" and w[1].isdigit() and int(w[1]) not in opts:
            opts[int(w[1])] = kvs(o)
    svcs = set()
    for l in lines:
        _, w = tparse(l)
        if not w:
            continue
        if w[0] == "inner_call":
            c = int(w[1])
            called.add(c)
            kv = opts.get(c, {})
            svcs.add(kv.get("svc", "0"))
            if kv.get("svc", "0") != "0":
                tags.append("call-on-other-service")
                if int(kv["svc"]) % 2 == 1:
                    tags.append("call-on-service-of-cloned-layer")
            if kv.get("reuse") == "1":
                tags.append("call-on-reused-handle")
        elif w[0] == "probe":
            tags.append("probe-strategy-clone")
        elif w[0] == "view":
            tags.append("view-inner" if w[2] == "1" else "view-failed")
        elif w[0] == "upredicate":
            tags.append("upper-predicate-accepts" if w[3] == "1" else "upper-predicate-rejects")
            tags.append("upper-sees-failed" if int(w[1]) % 2 == 1 else "upper-sees-inner")
        elif w[0] == "ustrategy":
            tags.append("upper-strategy-" + w[1])
            if w[1] != "value_fn":
                kd = int(w[-2])
                tags.append("upper-sees-failed" if kd % 2 == 1 else "upper-sees-inner")
                if w[1] == "exception" and kd % 2 == 1:
                    tags.append("upper-exception-on-failed-backup")
        elif w[0] == "resp" and w[2] in ("inner", "fallback_failed"):
            c = int(w[1])
            p = posts.get(c, "")
            for st, name in (("m", "map"), ("c", "clone"), ("v", "view")):
                if st in p:
                    tags.append("post-%s-on-%s" % (name, "failed" if w[2] == "fallback_failed" else "inner"))
            if stacked:
                tags.append("stack-error-result" if c in called else "stack-readiness-error")
        elif w[0] == "resp" and stacked:
            tags.append("stack-ok-result")
    if len(svcs) > 1:
        tags.append("several-services-of-one-layer")
    return tags


def _chain_tags(raw, lines):
    """builder chains: which strategy was set last, which ones it overrode, where the `handle` calls stand"""
    if "chain" not in raw or chain_in_force(raw["chain"]) is None:
        return []
    # only when the strategy question was actually put: an inner error was handled
    if not any(tparse(l)[1][:1] == ["inner_done"] and tparse(l)[1][3].startswith("err") for l in lines):
        return []
    toks = [t.partition(":")[0] for t in raw["chain"].split(".")]
    strs = [t for t in toks if t in STRATEGIES]
    tags = ["chain-last-" + strs[-1]]
    if len(strs) > 1:
        tags.append("chain-several-strategies")
        tags += ["chain-overridden-" + s for s in strs[:-1]]
        if strs[-1] in strs[:-1]:
            tags.append("chain-same-strategy-twice")
        if len(strs) > 2:
            tags.append("chain-three-strategies")
    hs = [i for i, t in enumerate(toks) if t[:1] == "h" and t[1:].isdigit()]
    ss = [i for i, t in enumerate(toks) if t in STRATEGIES]
    if len(hs) > 1:
        tags.append("chain-two-handles")
    for i in hs:
        if i < ss[0]:
            tags.append("chain-handle-before-strategies")
        elif i > ss[-1]:
            tags.append("chain-handle-after-strategies")
        else:
            tags.append("chain-handle-between-strategies")
    if not hs:
        tags.append("chain-no-handle")
    if "n" in toks:
        tags.append("chain-name")
    return tags


def transitions(case, lines, meta=None):
    raw = kvs(case["header"])
    cfg = config_in_force(raw)
    strat = cfg.get("strategy", "value")
    tags = _dropsvc_tags(case, lines, meta)     # (line indices of `meta` refer to the full log)
    lines, sights = _split_reqgen(lines)
    gens = _submitted_gens(case)
    for (who, c, g, _) in sights:
        sub = gens.get(c, 0)
        tags.append("request-%s-%s" % ("original" if sub == 0 else "copy", "to-" + who.replace("_", "-")))
        if who != "inner" and g == sub + 1:
            tags.append("strategy-gets-the-copy")
        if who == "inner" and g == sub:
            tags.append("inner-gets-the-submitted-request")
    tags += _ready_tags(case, lines, cfg, strat) + _caller_tags(case, lines, cfg) + _chain_tags(raw, lines)
    done_err = set()
    for l in lines:
        _, w = tparse(l)
        if not w:
            continue
        if w[0] == "inner_done":
            tags.append("inner-" + ("err" if w[3].startswith("err") else w[3]))
            if w[3].startswith("err"):
                done_err.add(w[1])
                if "handle" not in cfg:
                    tags.append("handled-no-predicate")
        elif w[0] == "predicate":
            tags.append("predicate-accepts" if w[3] == "1" else "predicate-rejects")
        elif w[0] == "strategy":
            tags.append("strategy-" + w[1])
        elif w[0] == "binner_call":
            tags.append("backup-call")
        elif w[0] == "binner_done":
            tags.append("backup-" + ("err" if w[3].startswith("err") else w[3]))
        elif w[0] == "inner_drop":
            tags.append("dropped-inner")
        elif w[0] == "binner_drop":
            tags.append("dropped-backup")
        elif w[0] == "resp":
            if w[2] == "fallback_failed":
                tags.append("result-fallback-failed")
            elif w[2] == "inner":
                tags.append("result-inner-error")
            elif w[1] in done_err:
                tags.append("result-replaced-" + strat)
            else:
                tags.append("result-pass-through")
        elif w[0] == "result" and w[2] == "panic":
            tags.append("result-panic")
    return tags


def nontrivial(case, lines, tags):
    return any(t.startswith("result-replaced") or t in ("result-fallback-failed", "result-inner-error", "dropped-backup") for t in tags)


ALL = (["inner-ok", "inner-err", "inner-panic", "handled-no-predicate", "predicate-accepts", "predicate-rejects",
        "strategy-value_fn", "strategy-from_error", "strategy-from_request_error", "strategy-exception",
        "backup-call", "backup-ok", "backup-err", "backup-panic", "dropped-inner", "dropped-backup",
        "result-pass-through", "result-inner-error", "result-fallback-failed", "result-panic"]
       + ["result-replaced-" + s for s in STRATEGIES if s != "exception"]
       + ["dropsvc", "dropsvc-before-first-poll", "dropsvc-inner-pending", "dropsvc-backup-pending", "dropsvc-after-completion",
          "inner-err-after-dropsvc", "predicate-after-dropsvc", "strategy-after-dropsvc", "backup-call-after-dropsvc",
          "arrive-after-dropsvc"]
       + ["ready-error", "ready-pending", "ready-ok-scripted", "backup-ready-error", "backup-ready-pending",
          "backup-ready-ok-scripted"]
       + ["ready-error-%s-%s" % (s, m) for s in STRATEGIES for m in ("nopred", "accepted", "rejected")]
       + ["post-%s-on-%s" % (p, v) for p in ("map", "clone", "view") for v in ("inner", "failed")]
       + ["view-inner", "view-failed", "via-short", "via-default", "upper-via-short", "upper-via-default",
          "several-services-of-one-layer", "call-on-other-service", "call-on-service-of-cloned-layer", "call-on-reused-handle",
          "probe-strategy-clone", "stack-ok-result", "stack-error-result", "stack-readiness-error",
          "upper-predicate-accepts", "upper-predicate-rejects", "upper-sees-failed", "upper-sees-inner",
          "upper-exception-on-failed-backup"]
       + ["upper-strategy-" + s for s in UPPERS if s != "value"]
       + ["chain-last-" + s for s in STRATEGIES] + ["chain-overridden-" + s for s in STRATEGIES]
       + ["chain-several-strategies", "chain-three-strategies", "chain-same-strategy-twice", "chain-two-handles",
          "chain-handle-before-strategies", "chain-handle-between-strategies", "chain-handle-after-strategies",
          "chain-no-handle", "chain-name"]
       + ["request-%s-to-%s" % (o, w) for o in ("original", "copy") for w in ("inner", "backup", "from-request-error", "ufrom-request-error")]
       + ["strategy-gets-the-copy", "inner-gets-the-submitted-request"])

LEVEL_NOTE = ("Trusted: Lean kernel; the reading of lib.rs:274-512 as TR.Model.Fallback.afterInner/afterBackup and of the async block as the "
              "three-phase machine (validated by the sampled correspondence check, which enumerates the complete strategy x predicate x inner "
              "outcome x backup outcome grid in every run); the harness (manual poller, scripted inner and backup services, the fixed test "
              "functions given to the builder — the instance TR.Fallback.test of the model's arbitrary functions) and the python diff/monitor. The Rust types guarantee nothing the model relies on. Not covered: "
              "the call-on-a-clone readiness question (C20), listeners/metrics/tracing, Display/Error::source of FallbackError; the upper layer of a "
              "stack never uses the backup-service strategy.")

SPECS = {
    "C17": {
        "group": "fallback",
        "module": "TR.Props.C17",
        "gen": gen,
        "monitors": [("c17-request-copies", mon_request_copies), ("c17-reference-function", mon_c17)],
        "canon": canon,
        "transitions": transitions,
        "nontrivial": nontrivial,
        "all_transitions": ALL,
        "model_modules": ["TR.Model.Fallback", "TR.Lemmas.Fallback", "TR.Lemmas.FallbackDrop", "TR.Lemmas.FallbackStack",
                          "TR.Lemmas.FallbackRun", "TR.Lemmas.FallbackRequest", "TR.Lemmas.FallbackCount", "TR.Lemmas.FallbackBuilder"],
        "lean_files": ["TR.Model.Fallback", "TR.Lemmas.Fallback", "TR.Lemmas.FallbackDrop", "TR.Lemmas.FallbackStack",
                       "TR.Lemmas.FallbackRun", "TR.Lemmas.FallbackRequest", "TR.Lemmas.FallbackCount", "TR.Lemmas.FallbackBuilder"],
        "sizes": (GRID_SIZE + 404, 20000),
        "rule": "the first %d cases of every run enumerate the grid 6 strategies x {no predicate, accepts kind 1, accepts kinds 1-2, rejects all} "
                "x inner {ok, err1, err2, panic, never} x backup {ok, err3, err1, panic, never} x latency pattern {0,5}x{0,3} ms (25 tagged "
                "requests per case) x service handles (service, clones, layer) {kept, dropped before the first poll, after the first polls, "
                "after the first latency, after completion}, then the readiness grid 6 strategies x predicate {none, accepts the readiness error "
                "(kind 9), rejects it} x latency pattern {0+0, 5+3} ms (8..12 requests meeting scripted ready/pending/error answers of the wrapped "
                "service, call errors of kind 9 next to them, a scripted backup readiness for the backup strategy), then the stack grid upper strategy "
                "{value, value_fn, from_error, from_request_error, exception} x upper predicate {none, FallbackFailed only, Inner only, three (variant, kind) pairs} x "
                "lower strategy {service, exception, from_request_error} (the 25 requests each, a second real FallbackLayer on top); in every case every "
                "second request's error result goes through a caller-side post-processing (clone / accessors / FallbackError::map steps), the layer "
                "is built in rotation through the builder, the strategy's shortcut constructor (no predicate) and the Default builder, in one case of "
                "four the requests are spread over several services built from the one layer value (odd ones from a clone of it) and some calls are "
                "made on the long-lived handles themselves, some cases probe a cloned FallbackStrategy value, the request type has an observable Clone (generation counter) and two requests in five are "
                "submitted as copies (gen=g > 0), every receiver of a request logging the generation it got; then the builder-chain grid: every ordered pair of "
                "strategy setters in one chain (the same one twice too, value setters with different values) and 12 chains of three, the handle call(s) "
                "{absent, before, between, after, two different ones} and name calls in between (25 requests each; header chain=…: the layer is built by "
                "exactly that sequence of builder calls); the rest are seeded random schedules (in a quarter of them and a fifth of the readiness cases the layer is built by a chain of 1..3 strategy setters with handle/name calls anywhere;  (arrive/poll/drop/adv/settle, 1..8 requests, "
                "random tags, kinds, masks, latencies, drops in every phase, in every second one the service handles dropped at a random point "
                "and requests attempted afterwards, in two of five a readiness script of the wrapped service / of the backup service); distinct = distinct implementation log; non-trivial = an error was replaced, returned "
                "unchanged, or the backup failed / was cancelled" % GRID_SIZE,
        "trusted": ["transcription of Fallback::poll_ready (lib.rs:270) and Fallback::call (lib.rs:274-512) in TR.Model.Fallback, sampled by the correspondence check (complete grid)",
                    "harness: manual poller, scripted inner/backup services, test functions handed to the builder", "python diff/monitor"],
        "assumptions": ["the theorems quantify over ARBITRARY user-supplied functions (TR.Fallback.Cfg: any predicate IErr -> Bool or none, any value, any "
                        "value function as a sequence Nat -> Resp of responses by invocation number, any from_error / from_request_error / transformation "
                        "function); a user function is modelled as a total deterministic function of its arguments (the value function: of its invocation "
                        "number). The correspondence runs are made with the instance TR.Fallback.test = the fixed test functions of the harness (value 'val', "
                        "value_fn = val+#calls, from_error, from_request_error, exception = kind+10, predicate = bit mask over kinds; test_instance)",
                        "one poll of one call future is atomic (single-threaded runtime)",
                        "the upper layer of a stack uses the same test functions over the injective encoding Inner(e) -> kind 2k, FallbackFailed(e) -> "
                        "kind 2k+1 of the lower layer's error; the caller's payload conversion is kind+100"],
        "level_text": "Theorems TR.Props.C17.*: the layer's decision logic as a pure function of (strategy, predicate, request, inner result, backup "
                      "result) passes every success through untouched with no predicate/strategy/backup call, triggers the strategy iff the "
                      "predicate accepts (always without one), returns unhandled errors unchanged, and yields exactly the strategy's value for that "
                      "request and error for each of the six strategies (backup failure -> FallbackFailed with the backup's error); and for every "
                      "operation sequence (all poll/drop/advance orders) each request's events in the log of the poll-level machine are exactly a "
                      "prefix stage of that function's canonical trace; and dropping every handle on the service (service, clones, layer) "
                      "at any point of any run changes nothing but the possibility of making further calls — the log, hence every outcome, is "
                      "independent of when or whether the handles are dropped (dropsvc_only_stops_new_calls, log_independent_of_dropsvc_time); "
                      "and a readiness error of the wrapped service is returned unchanged under the pass-through variant with no predicate, "
                      "strategy, inner or backup call, whatever the configuration (poll_ready_forwards, readiness_error_passed_through, "
                      "callbacks_only_after_call_error, readiness_failure_unchanged); and what the caller sees through FallbackError's own API "
                      "is what the layer produced: the accessors tell the variants apart and give the payload, map and clone keep the variant "
                      "(accessors_exact, map_keeps_variant, clone_faithful, post_exact, post_views_exact, failed_backup_survives_post); and a "
                      "second fallback layer on top is a second instance of the same decision function applied to the lower layer's result, "
                      "variant included (upper_sees_variant, stack_is_composition, upper_handles_iff, upper_exception_exact, "
                      "exception_over_failed_backup), in every run (stack_result_exact, upper_callbacks_only_for_lower_errors, "
                      "stack_success_untouched). All of this for arbitrary predicate and strategy functions (parameters of the model; the harness's "
                      "test functions are the instance test_instance). At run level additionally: the request given to the inner call, to the backup "
                      "call and to the from_request_error function is the request the caller handed in — (c, tag) of its arrive "
                      "(request_forwarded_unchanged, success_untouched_for_that_request); an error the predicate rejects leaves exactly [inner call, "
                      "inner done, predicate -> no, resp/result Inner(that error)] (rejected_untouched); EVERY invocation of a user function is the "
                      "predicate on the error of that request's failed inner call or, that error accepted, the strategy's one function with exactly that "
                      "request and error (callback_justified, strategy_callback_only_if_accepted, user_functions_invoked); the value-function counter is "
                      "the number of value_fn callbacks in the log, each invocation number is its position among them, and the completion block of an "
                      "inner call stands in the global log in one piece right after its inner_done, so the request a callback line belongs to is that of "
                      "the closest preceding inner_done (fnCalls_is_count, value_fn_counter_exact, completion_block_in_one_piece, callback_owner_in_log); "
                      "a delivered result is the value of the pure reference function resolve of (configuration, the request handed in, the number of "
                      "value_fn callbacks before the inner_done, inner result, backup result) with no existential left (result_exact_counted, "
                      "result_is_reference_function), at most one per request (at_most_one_completion_and_result); and the caller's log is postRun of what "
                      "was delivered (caller_result_is_post_run, caller_view_is_post_run); and WHICH configuration is in force is a function of the chain of "
                      "builder calls: the strategy setter called last is in force with the function it was given, whatever was set before (exception "
                      "included), the predicate is that of the last handle call or none, neither slot depends on the setters of the other, build() "
                      "fails exactly without a strategy setter (builder_strategy_last_wins, builder_predicate_independent, builder_needs_a_strategy, "
                      "install_reads_own_function, builder_behaviour_is_last_strategy, builder_exception_overridden). "
                      "For a request type whose Clone is observable: the inner call is handed the very request the caller submitted (generation "
                      "included), the backup service and from_request_error its one copy, in every run (handOut_exact, swapped_handOut_differs, "
                      "inner_gets_submitted_request, strategy_gets_the_copy, every_sight_justified, stack_hands_down_the_original). "
                      "Model tied to the real FallbackLayer by line-for-line agreement on the "
                      "complete grid plus random schedules.",
        "level_note": LEVEL_NOTE,
    },
}
