"""C14 — back-off delays: generator, implementation-side monitors.

Cases are of two shapes:
  * `backoff kind=… initial_ns=… mult_num=… mult_den=… cap_ns=…|none rf_pct=…` + `probe backoff attempt=<a>` lines:
    the real interval function / ReconnectPolicy is called directly with that attempt number;
    with `chain=<s1,…>` (`m<p>:<q>` = `.multiplier(p/q)`, `c<ns>` = `.max_interval(ns)`) the builder setters are applied in exactly
    that order, any permutation / repetition; the intended configuration is "the last value of each setting" (`parse_chain`);
    `rf_num=<n> rf_den=<d>`: the randomization factor handed to the constructor is the f64 n/d (any rational, also above 1: the
    constructor clamps it), instead of `rf_pct=`/100;
  * `reconnect policy=default` (end to end): a default ReconnectLayer against an inner service that fails for
    hours of virtual time; the request must keep retrying every 5 s and never panic.
"""
import random
from fractions import Fraction
from gen.util import kvs, tparse
from gen import reconnect as rc

I32_MAX = 2 ** 31 - 1
USIZE_MAX = 2 ** 64 - 1
DUR_MAX = (2 ** 64 - 1) * 10 ** 9 + 999999999
SEC = 10 ** 9
GRID = [(1, 1), (11, 10), (5, 4), (3, 2), (2, 1), (5, 2), (3, 1), (7, 2), (5, 1), (15, 2), (10, 1)]
JITTER_KINDS = ("rand", "policy_rand", "retry_policy_rand", "policy_rand_of")
POLICY2 = ("policy_exp", "policy_rand")            # two-argument constructors: x2, cap given, no chain
EXP_FAMILY = ("exp", "retry_policy", "policy_exp_of", "policy_custom")       # an ExponentialBackoff built by a chain
RAND_FAMILY = ("rand", "retry_policy_rand", "policy_rand_of")                # an ExponentialRandomBackoff built by a chain
BELOW2 = [(1, 1), (11, 10), (5, 4), (3, 2)]
# multipliers just above 1: growth by 0.01 % .. 5 % per attempt, where the cap is reached only after a thousand and more
# attempts; non-dyadic ones (the f64 multiplier is off by up to 2^-53, an error the exponent multiplies) and exactly
# representable ones (1 + 2^-k)
NEAR1 = [(1001, 1000), (2001, 2000), (501, 500), (401, 400), (251, 250), (1007, 1000), (101, 100), (1013, 1000), (81, 80), (51, 50),
         (103, 100), (26, 25), (21, 20), (4001, 4000), (1025, 1024), (513, 512), (257, 256), (129, 128), (65, 64), (33, 32)]


def tol_of(x, e):
    """relative (2e + 8)·2^-53 — at least the 2^-40 the envelope always had — plus one nanosecond: the f64 multiplier is off by up to
    2^-53 (e times in the power), square-and-multiply rounds at most e - 1 times in first-order units, three more roundings around
    it; e = the number of factors that decide the answer (the attempt, or the first exponent at which the cap is reached)"""
    return x * max(8192, 2 * e + 8) // 2 ** 53 + 1


# ----------------------------------------------------------------------------- exact oracle (python ints)

class Ideal:
    """min(floor(initial * (num/den)^min(a, i32::MAX)), cap), exact integers. `cross` = the first exponent at which the cap is reached
    (floor(initial·m^e) is non-decreasing in e: found by doubling + bisection, each value one big power — multipliers just above 1
    reach a far-away cap only after 10^4..10^6 factors, a step-by-step table would be quadratic)"""
    _memo = {}

    def __new__(cls, initial, num, den, cap, limit=None):
        key = (initial, num, den, cap, limit)
        obj = cls._memo.get(key)
        if obj is None:
            if len(cls._memo) > 4000:
                cls._memo.clear()
            obj = cls._memo[key] = object.__new__(cls)
            obj._init(initial, num, den, cap, limit)
        return obj

    def _init(self, initial, num, den, cap, limit):
        self.initial, self.num, self.den = initial, num, den
        self.cap = DUR_MAX if cap is None else cap
        self.const = None
        self.rawcross = None
        self.vals = {}
        if initial == 0 or num == den:
            self.const = min(initial, self.cap)
            self.cross = 0 if initial >= self.cap else None
            return
        hi = 1
        while self.raw(hi) < self.cap:
            hi *= 2
            if limit is not None and hi > 2 * limit:
                break
        if self.raw(0) >= self.cap:
            hi = 0
        lo = hi // 2                     # raw(lo) < cap (or hi == 0), raw(hi) >= cap (unless the limit was hit)
        if limit is not None and self.raw(min(hi, limit)) < self.cap:
            self.cross = None            # not reached within `limit` attempts
            return
        while hi - lo > 1:
            mid = (lo + hi) // 2
            if self.raw(mid) >= self.cap:
                hi = mid
            else:
                lo = mid
        self.cross = hi                  # first exponent at which the cap is reached
        self.rawcross = self.raw(hi)
        self.vals = {k: v for k, v in self.vals.items() if k < hi}

    def raw(self, e):
        v = self.vals.get(e)
        if v is None:
            v = self.vals[e] = self.initial * self.num ** e // self.den ** e
        return v

    @property
    def table(self):
        """table[e] for e <= cross (only `table[cross - 1]` / `table[cross]` are used by the coverage tags)"""
        outer = self

        class T:
            def __getitem__(_, e):
                return outer.cap if e >= outer.cross else outer.raw(e)
        return T()

    def at(self, a):
        if self.const is not None:
            return self.const
        e = min(a, I32_MAX)
        if self.cross is not None and e >= self.cross:
            return self.cap
        return min(self.raw(e), self.cap)

    def eff(self, a):
        """the number of factors that decide the answer"""
        if self.const is not None:
            return 0
        return min(a, I32_MAX) if self.cross is None else min(a, I32_MAX, self.cross)


def parse_chain(s):
    """[('m', (p, q)) | ('c', ns)] in the order of the calls; unknown items are skipped (as the harness does)"""
    items = []
    for w in s.split(","):
        try:
            if w.startswith("m"):
                p, q = w[1:].split(":")
                items.append(("m", (int(p), int(q))))
            elif w.startswith("c"):
                items.append(("c", int(w[1:])))
        except ValueError:
            pass
    return items


def last_wins(items):
    """what the builder's documentation promises: each setter overwrites its own setting; defaults x2, no maximum"""
    mult, cap = (2, 1), None
    for k, v in items:
        if k == "m":
            mult = v
        else:
            cap = v
    return mult[0], mult[1], cap


def eff(header_kv, op):
    kv = dict(header_kv)
    kv.update(kvs(op))
    kind = kv.get("kind", "exp")
    initial = int(kv.get("initial_ns", "0"))
    num, den = int(kv.get("mult_num", "2")), int(kv.get("mult_den", "1"))
    cap = kv.get("cap_ns", "none")
    cap = None if cap == "none" else int(cap)
    if kind in POLICY2:
        num, den = 2, 1
    elif "chain" in kv:
        num, den, cap = last_wins(parse_chain(kv["chain"]))
    if "rf_num" in kv:
        rf = (int(kv.get("rf_num", "1")), int(kv.get("rf_den", "2")))
    else:
        rf = (int(kv.get("rf_pct", "50")), 100)
    return kind, initial, num, den, cap, clamp_factor(rf), int(kv.get("attempt", "0"))


def clamp_factor(rf):
    """`randomization_factor.clamp(0.0, 1.0)` in `ExponentialRandomBackoff::new` (documented: "0.0 to 1.0"); n/0 = +inf"""
    fn, fd = rf
    return (1, 1) if fn > fd else (fn, fd)


def exactly_representable_secs(ns):
    """ns nanoseconds is a number of seconds binary64 represents exactly (python floats are binary64)"""
    try:
        return Fraction(float(Fraction(ns, SEC))) == Fraction(ns, SEC)
    except OverflowError:
        return False


def pow2_multiplier(num, den):
    if den == 0 or num % den:
        return None
    m = num // den
    return m.bit_length() - 1 if m > 0 and m & (m - 1) == 0 else None


def in_exact_region(initial, num, den, cap):
    """every f64 operation of capped_exponential is exact: initial interval and maximum exactly representable seconds (the
    maximum may also be absent / Duration::MAX, whose as_secs_f64 is 2^64), multiplier a power of two"""
    return (pow2_multiplier(num, den) is not None and num < 2 ** 53 and exactly_representable_secs(initial)
            and (cap is None or cap == DUR_MAX or exactly_representable_secs(cap)))


# ----------------------------------------------------------------------------- generator

def _outage_case(rng, tier):
    hours = rng.choice([1, 1, 2, 3]) if tier == "quick" else rng.choice([2, 6, 12, 24])
    return outage_case(hours)


def outage_case(hours):
    n = hours * 3600 // 5 + 20
    ops = ["arrive 1 inner=" + ",".join(["0:err1"] * (n + 40)), "poll 1"]
    for d in (200, 400, 800, 1600, 3200):
        ops += ["adv %d" % d, "poll 1"]
    for i in range(n):
        ops += ["adv 5000", "poll 1"]
        if i % 97 == 0:
            ops.append("probe state")
    return {"header": "reconnect policy=default", "ops": ops, "outage_hours": hours}


def _initial(rng):
    r = rng.random()
    if r < 0.08:
        return 0
    if r < 0.12:
        # "park instead of retrying": `new(Duration::MAX, f)` and initial intervals around 2^63 / 2^64 s, where every
        # conversion between Duration and f64 seconds is at (or over) the top of its range
        return rng.choice([DUR_MAX, DUR_MAX, DUR_MAX - 1, DUR_MAX - 999999999, (2 ** 64 - 1) * SEC, 2 ** 63 * SEC,
                           2 ** 63 * SEC + 1, 2 ** 62 * SEC + 12345, 3 * 2 ** 62 * SEC])
    if r < 0.55:
        return rng.choice([1, 999, 10 ** 6, 10 ** 8, 10 ** 8, 250 * 10 ** 6, SEC, 60 * SEC, 3600 * SEC, 86400 * SEC, 7 * 86400 * SEC])
    return int(10 ** rng.uniform(0, 15))


def _raw(initial, num, den, k):
    return initial * num ** k // den ** k


def _other_cap(rng, initial, cap):
    """a maximum that is set and then overridden"""
    base = cap if cap else max(initial, 1)
    return min(DUR_MAX, rng.choice([base // 2, base * 2, base + 1, max(base - 1, 0), initial, initial * rng.choice([3, 10, 50, 1000]),
                                    5 * SEC, 3600 * SEC, DUR_MAX]))


def _chain(rng, initial, num, den, cap):
    """a builder chain whose last multiplier is num/den and whose last maximum is cap (no `c` item at all if cap is None):
    both orders, default multiplier left out, overridden and repeated setters anywhere"""
    m, c = ("m", (num, den)), ("c", cap)
    r = rng.random()
    if cap is None:
        if (num, den) == (2, 1) and r < 0.5:
            return []
        items = [m]
        if r > 0.6:
            items = [("m", rng.choice(GRID)) for _ in range(rng.randint(1, 2))] + items
        return items
    if (num, den) == (2, 1) and r < 0.4:
        return [c] if r < 0.25 else [("c", _other_cap(rng, initial, cap)), c]
    if r < 0.35:
        return [c, m]
    if r < 0.55:
        return [m, c]
    # 1..3 overridden setters, interleaved anywhere; the last of each setting is the intended one
    extra = []
    for _ in range(rng.randint(1, 3)):
        if rng.random() < 0.6:
            extra.append(("m", rng.choice(GRID + [(2, 1), (2, 1), (10, 1), (num, den)])))
        else:
            extra.append(("c", _other_cap(rng, initial, cap)))
    items = extra + [m, c]
    rng.shuffle(items)
    for fin in (m, c):
        last = max(i for i, it in enumerate(items) if it[0] == fin[0])
        j = items.index(fin)
        items[j], items[last] = items[last], items[j]
    return items


def chain_word(items):
    return "chain=" + (",".join("m%d:%d" % v if k == "m" else "c%d" % v for k, v in items) or "-")


def _settings(items):
    """every multiplier / maximum that is in force at some point of the chain (defaults included)"""
    mults, caps = [(2, 1)], [None]
    for k, v in items:
        (mults if k == "m" else caps).append(v)
    return mults, caps


def _saturation_points(initial, items, num, den, cap, limit=20000):
    """first capped attempt of the intended configuration and of every stale combination of settings seen along the chain"""
    mults, caps = _settings(items)
    pts = []
    for mm in dict.fromkeys(mults[-3:] + [(num, den)]):
        for cc in dict.fromkeys(caps[-3:] + [cap]):
            x = Ideal(initial, mm[0], mm[1], cc, limit=limit).cross
            if x is not None and x <= limit:
                pts.append(x)
    return sorted(set(pts))


def _near_one_case(rng, tier):
    """a multiplier just above 1, a maximum that is reached only after more than a thousand attempts (or never below 10^4), and
    attempts in the thousands: dense around 1024 (2^10, f64::MAX_EXP), around the attempt at which the exact value reaches the
    maximum, samples in between and far beyond"""
    kind = rng.choice(["exp"] * 5 + ["rand", "retry_policy", "policy_exp_of", "policy_rand_of", "retry_policy_rand", "policy_custom"])
    num, den = rng.choice(NEAR1)
    kmax = 2600 if tier == "quick" else 6000
    # the attempt at which the maximum is to be reached
    r = rng.random()
    k = rng.randint(1025, 1100) if r < 0.35 else rng.randint(1025, kmax) if r < 0.9 else rng.randint(300, 1024)
    top = DUR_MAX * den ** k // num ** k          # the largest initial interval that is still below Duration::MAX at exponent k
    cands = [i for i in (1, 1000, 10 ** 6, 10 ** 8, 10 ** 8, SEC, 123456789, int(10 ** rng.uniform(0, 10))) if i * 4 <= top]
    if not cands:
        k = rng.randint(300, 900)
        cands = [1]
    initial = rng.choice(cands)
    exact_k = _raw(initial, num, den, k)
    r = rng.random()
    if r < 0.35:
        cap = exact_k + rng.choice([-1, 0, 0, 1, rng.randint(0, max(1, exact_k // 1000))])
    elif r < 0.7:
        cap = rng.choice([c for c in (3600 * SEC, 86400 * SEC, 365 * 86400 * SEC, 10 * 365 * 86400 * SEC, 5 * SEC, 60 * SEC) if c > initial] or [exact_k])
    elif r < 0.85:
        cap = DUR_MAX
    else:
        cap = None
    idl = Ideal(initial, num, den, cap, limit=kmax + 500)
    if idl.cross is None:
        cap = exact_k
        idl = Ideal(initial, num, den, cap)
    cap = None if cap is None else max(1, min(cap, DUR_MAX))
    words = ["backoff", "kind=" + kind, "initial_ns=%d" % initial]
    if rng.random() < 0.6:
        items = [("m", (num, den))] + ([] if cap is None else [("c", cap)])
        if rng.random() < 0.5:
            items.reverse()
        if rng.random() < 0.3:
            items.insert(0, ("m", rng.choice(GRID + NEAR1)))
        words.append(chain_word(items))
    else:
        words += ["mult_num=%d" % num, "mult_den=%d" % den, "cap_ns=" + ("none" if cap is None else str(cap))]
    if kind in JITTER_KINDS:
        words += ["rf_pct=%d" % rng.choice([0, 0, 0, 10, 50, 100])]
    x = idl.cross
    n = 1 if tier == "quick" else 3
    attempts = list(range(1024 - 3 * n, 1024 + 6 * n)) + list(range(max(0, x - 3 * n), x + 3 * n + 1))
    attempts += [rng.randint(0, x + 200) for _ in range(12 * n)] + [rng.randint(1000, 1100) for _ in range(4 * n)]
    s0 = rng.randint(0, x + 50)
    attempts += list(range(s0, s0 + 6 * n))
    attempts += [rng.randint(x, 10000 + x) for _ in range(3 * n)] + [2047, 2048, 4096, 10000, 65536, I32_MAX, I32_MAX + 1, 2 ** 32, USIZE_MAX]
    attempts += [min(USIZE_MAX, 2 ** rng.randint(11, 64) + rng.choice([-1, 0, 1])) for _ in range(3)]
    if rng.random() < 0.5:
        rng.shuffle(attempts)
    return {"header": " ".join(words), "ops": ["probe backoff attempt=%d" % a for a in attempts]}


def _factor_one_case(rng, tier):
    """jitter at the boundary of the documented range: randomization factor exactly 1 (or above, clamped) and capped delays with
    more than 53 significant bits in nanoseconds, whose f64 image may round up (`delta` then exceeds the delay itself)"""
    DAY = 86400 * SEC
    kind = rng.choice(JITTER_KINDS)
    r = rng.random()
    if r < 0.4:
        cap = rng.randint(105, 4000) * DAY + rng.choice([-1, 1, -3, 3, rng.randint(1, SEC - 1)])
    elif r < 0.7:
        cap = 2 ** rng.randint(53, 90) + rng.choice([-1, 1, 3, rng.randint(1, 2 ** 20)])
    else:
        cap = rng.randint(2 ** 53, min(DUR_MAX, 2 ** rng.randint(54, 94)))
    cap = min(cap, DUR_MAX)
    initial = rng.choice([DAY, SEC, 3600 * SEC, 123456789, cap, cap - 1])
    words = ["backoff", "kind=" + kind, "initial_ns=%d" % initial]
    if kind != "policy_rand":
        words += ["mult_num=2", "mult_den=1"]
    words += ["cap_ns=%d" % cap]
    words += rng.choice([["rf_pct=100"], ["rf_num=1", "rf_den=1"], ["rf_num=3", "rf_den=2"], ["rf_num=7", "rf_den=0"],
                         ["rf_num=999999999", "rf_den=1000000000"]])
    x = Ideal(initial, 2, 1, cap).cross or 0
    attempts = list(range(max(0, x - 3), x + 6)) + [0, 1, 64, 68, 1024, 10000, I32_MAX, 2 ** 32, USIZE_MAX]
    attempts += [rng.randint(x, x + 5000) for _ in range(6)]
    return {"header": " ".join(words), "ops": ["probe backoff attempt=%d" % a for a in attempts]}


def gen(rng, tier):
    # a directed stream drawn from its own generator (the main stream of cases stays what it was): one case in 25
    peek = random.Random()
    peek.setstate(rng.getstate())
    side = random.Random(peek.getrandbits(64) ^ 0x9E3779B97F4A7C15)
    if side.random() < 0.04:
        gen_main(rng, tier)
        return _factor_one_case(side, tier)
    return gen_main(rng, tier)


def gen_main(rng, tier):
    if rng.random() < (1 / 150.0):
        return _outage_case(rng, tier)
    if rng.random() < 0.07:
        return _near_one_case(rng, tier)
    kind = rng.choice(["exp"] * 6 + ["rand"] * 2 + ["retry_policy", "policy_exp", "policy_exp", "policy_rand", "policy_fixed", "fixed", "policy_none",
                                                    "retry_policy", "policy_exp_of", "policy_exp_of", "policy_rand_of", "retry_policy_rand", "policy_custom"])
    chainable = kind in EXP_FAMILY + RAND_FAMILY
    use_chain = chainable and rng.random() < 0.6
    initial = _initial(rng)
    num, den = rng.choice(BELOW2 + [(2, 1)]) if use_chain and rng.random() < 0.5 else rng.choice(GRID)
    n2, d2 = (2, 1) if kind in POLICY2 else (num, den)
    r = rng.random()
    if r < 0.2 and kind not in POLICY2:
        cap = None
    elif r < 0.35:
        cap = rng.choice([initial // 2, max(initial - 1, 0), initial, initial + 1])           # at / below the initial interval
    elif r < 0.55 and initial:
        # close to an uncapped value: of the configured multiplier or of another one (x2 is what a fresh builder has)
        pq = rng.choice([(n2, d2), (n2, d2), (2, 1), rng.choice(GRID)])
        cap = max(0, _raw(initial, pq[0], pq[1], rng.randint(1, 40)) + rng.choice([-1, 0, 0, 1]))
    elif r < 0.8:
        cap = initial * rng.choice([3, 10, 50, 100, 1000]) + rng.choice([0, 1, 7]) if initial else rng.choice([0, 5 * SEC])
    else:
        cap = rng.choice([5 * SEC, 3600 * SEC, 365 * 86400 * SEC, 10 * 365 * 86400 * SEC, DUR_MAX])
    if rng.random() < 0.05:
        # the product lands EXACTLY on 2^64 s (the f64 image of Duration::MAX, which `from_secs_f64` rejects): a power of two in
        # seconds times a power-of-two multiplier, no maximum (or one at the top of the range)
        initial = rng.choice([SEC << rng.randint(0, 12), SEC >> rng.randint(1, 9)])
        num, den = n2, d2 = (2, 1) if kind in POLICY2 else rng.choice([(2, 1), (2, 1), (4, 1), (8, 1)])
        cap = rng.choice([DUR_MAX, DUR_MAX - 999999999] + ([] if kind in POLICY2 else [None, None]))
    if rng.random() < 0.10:
        # inside the exact region of the float computation (initial interval and maximum exactly representable seconds, multiplier a
        # power of two): there the value is no choice, it must be `ideal` to the nanosecond — and one nanosecond outside it
        initial = rng.choice([1, 3, 5, 7, 9, 25, 625, 1023]) * 5 ** 9 << rng.randint(0, 30)
        num, den = n2, d2 = (2, 1) if kind in POLICY2 else rng.choice([(1, 1), (2, 1), (2, 1), (4, 1), (8, 1), (4, 2), (16, 4)])
        cap = rng.choice(([] if kind in POLICY2 else [None]) + [DUR_MAX, 5 * SEC, 3600 * SEC, initial << rng.randint(0, 12),
                          (initial << rng.randint(1, 12)) + 5 ** 9, rng.randint(1, 2 ** 40) * 5 ** 9, initial // 2 // 5 ** 9 * 5 ** 9])
        r2 = rng.random()
        if r2 < 0.15:
            initial += rng.choice([1, -1])
        elif r2 < 0.3 and cap is not None:
            cap = max(0, cap + rng.choice([1, -1]))
    cap = None if cap is None else min(cap, DUR_MAX)
    rf = rng.choice([0, 1, 25, 50, 50, 100, rng.randint(0, 100)] + ([0, 0, 10] if use_chain else []))
    rfq = None
    if rng.random() < 0.4:
        # any rational factor, not only whole percents; above 1 (and n/0 = +inf): the constructor clamps it to 1
        rfq = rng.choice([(1, 3), (2, 3), (1, 7), (123456789, 1000000000), (1, 10 ** 6), (999999, 10 ** 6), (0, 1), (1, 1), (3, 2), (5, 1),
                          (7, 0), (rng.randint(0, 10 ** 9), 10 ** 9), (rng.randint(1, 997), 997)])
    words = ["backoff", "kind=" + kind, "initial_ns=%d" % initial]
    items = []
    if use_chain:
        items = _chain(rng, initial, num, den, cap)
        words.append(chain_word(items))
    else:
        words += ["mult_num=%d" % num, "mult_den=%d" % den, "cap_ns=" + ("none" if cap is None else str(cap))]
    if kind in JITTER_KINDS:
        words += ["rf_pct=%d" % rf] if rfq is None else ["rf_num=%d" % rfq[0], "rf_den=%d" % rfq[1]]
    if rng.random() < 0.1:
        words.append("clone=1")
    idl = Ideal(initial, n2, d2, cap)
    attempts = []
    full = rng.random() < (0.02 if tier == "quick" else 0.05)
    if full:
        attempts += list(range(0, 10001))                      # dense 0..10^4
    else:
        L = 60 if tier == "quick" else 300
        starts = [0]
        if idl.cross:
            starts.append(max(0, idl.cross - rng.randint(2, L // 2)))
        starts.append(rng.randint(0, 10000 - L))
        for s in rng.sample(starts, min(len(starts), 2)):
            attempts += list(range(s, s + rng.randint(8, L)))
        # around the first capped attempt of the intended configuration and of every stale one, and in between
        pts = _saturation_points(initial, items, n2, d2, cap) if kind not in ("fixed", "policy_fixed", "policy_none") else []
        for x in pts:
            attempts += list(range(max(0, x - 2), x + 3))
        if len(pts) >= 2:
            lo, hi = pts[0], pts[-1]
            attempts += list(range(lo, hi + 1)) if hi - lo <= 40 else [rng.randint(lo, hi) for _ in range(20)]
    sparse = [67, 68, 69, 1023, 1024, 10000, I32_MAX - 1, I32_MAX, I32_MAX + 1, 2 ** 32 - 1, 2 ** 32, 2 ** 63, USIZE_MAX - 1, USIZE_MAX]
    for _ in range(6):
        k = rng.randint(4, 64)
        sparse += [min(USIZE_MAX, max(0, 2 ** k + rng.choice([-1, 0, 1])))]
    attempts += rng.sample(sparse, rng.randint(6, len(sparse)))
    if rng.random() < 0.5:
        rng.shuffle(attempts)
    ops = ["probe backoff attempt=%d" % a for a in attempts]
    if rng.random() < 0.15:
        # the same function reached through another type, keys given on the operation
        fam = EXP_FAMILY if kind in EXP_FAMILY else RAND_FAMILY if kind in RAND_FAMILY else (kind,)
        alt = rng.choice(fam)
        ops += ["probe backoff kind=%s attempt=%d" % (alt, a) for a in rng.sample(attempts, min(10, len(attempts)))]
    if use_chain and rng.random() < 0.3:
        # the same settings through other chains (other order, other overridden setters), chain given on the operation
        for _ in range(rng.randint(1, 2)):
            other = chain_word(_chain(rng, initial, num, den, cap))
            ops += ["probe backoff %s attempt=%d" % (other, a) for a in rng.sample(attempts, min(10, len(attempts)))]
    return {"header": " ".join(words), "ops": ops}


# ----------------------------------------------------------------------------- monitors (implementation values only)

def _probes(case, lines):
    """[(kind, initial, num, den, cap, rf, attempt, value)] value: int | 'none' | 'panic'"""
    hkv = kvs(case["header"])
    res = []
    it = iter(lines)
    for op in case["ops"]:
        w = op.split()
        if w[:2] != ["probe", "backoff"]:
            continue
        l = next(it, None)
        if l is None:
            res.append(eff(hkv, op) + ("missing",))
            continue
        v = l.rsplit("= ", 1)[-1].strip()
        res.append(eff(hkv, op) + (int(v) if v.isdigit() else v,))
    return res


def _is_outage(case):
    return case["header"].startswith("reconnect")


def mon_no_panic(case, lines, meta):
    if _is_outage(case):
        for _, m in meta:
            if m.startswith("#harness-panic"):
                return "the harness caught a panic escaping the runtime"
        last_call = None
        for l in lines:
            t, w = tparse(l)
            if w and w[0] == "result":
                return "the request against an always-failing service ended at t=%d ms with %s (unlimited attempts must keep retrying)" % (t, w[2])
            if w and w[0] == "inner_call":
                last_call = t
        horizon = sum(int(o.split()[1]) for o in case["ops"] if o.startswith("adv "))
        if last_call is None or last_call < horizon - 5000:
            return "no inner call in the last 5 s of a %d ms outage (last at %s)" % (horizon, last_call)
        return None
    for p in _probes(case, lines):
        if p[-1] in ("panic", "missing"):
            return "next_interval panicked: kind=%s initial_ns=%d multiplier=%d/%d cap_ns=%s factor=%s attempt=%d" % (
                p[:5] + ("%d/%d" % p[5], p[6]))
    return None


def mon_capped(case, lines, meta):
    if _is_outage(case):
        return None
    for kind, initial, num, den, cap, rf, a, v in _probes(case, lines):
        if not isinstance(v, int):
            continue
        c = DUR_MAX if cap is None else cap
        if kind in ("fixed", "policy_fixed"):
            c = initial
        hi = min(DUR_MAX, c * (rf[1] + rf[0]) // max(rf[1], 1) + c // 2 ** 40 + 2) if kind in JITTER_KINDS else c
        if v > hi:
            return "delay %d ns above the cap %d ns (kind=%s initial_ns=%d multiplier=%d/%d attempt=%d)" % (v, hi, kind, initial, num, den, a)
    return None


def mon_monotone(case, lines, meta):
    if _is_outage(case):
        return None
    groups = {}
    for kind, initial, num, den, cap, rf, a, v in _probes(case, lines):
        if kind in JITTER_KINDS or not isinstance(v, int):
            continue
        groups.setdefault((kind, initial, num, den, cap), []).append((a, v))
    for key, pts in groups.items():
        pts.sort()
        for (a0, v0), (a1, v1) in zip(pts, pts[1:]):
            if v1 < v0:
                return "delay decreases from %d ns (attempt %d) to %d ns (attempt %d): kind=%s initial_ns=%d multiplier=%d/%d cap_ns=%s" % ((v0, a0, v1, a1) + key)
    return None


def mon_exact(case, lines, meta):
    """equal to initial x multiplier^attempt (relative max(2^-40, (2e+8)·2^-53) + 1 ns, see `tol_of`) until that reaches the cap, the cap afterwards;
    jittered values within the randomization factor of that value"""
    if _is_outage(case):
        return None
    cache = {}
    for kind, initial, num, den, cap, rf, a, v in _probes(case, lines):
        if kind == "policy_none":
            if v != "none":
                return "ReconnectPolicy::None returned %s" % v
            continue
        if not isinstance(v, int):
            continue
        if kind in ("fixed", "policy_fixed"):
            if v != initial:
                return "fixed interval %d ns returned %d ns at attempt %d" % (initial, v, a)
            continue
        key = (initial, num, den, cap)
        if key not in cache:
            cache[key] = Ideal(initial, num, den, cap)
        x = cache[key].at(a)
        tol = tol_of(x, cache[key].eff(a))
        if kind in JITTER_KINDS:
            fn, fd = rf
            if fd == 0:
                continue                      # 0/0 = NaN: outside the property's [0,1], never generated
            lo, hi = x * (fd - fn) // fd, x * (fd + fn) // fd
            if v + tol + 1 < lo or v > min(DUR_MAX, hi + 2 * tol + 1):
                return "jittered delay %d ns outside [%d, %d] (factor %d/%d of %d ns; initial_ns=%d multiplier=%d/%d cap_ns=%s attempt=%d)" % (
                    v, lo, hi, fn, fd, x, initial, num, den, cap, a)
        elif in_exact_region(initial, num, den, cap) and v != x:
            return ("delay %d ns, exact value %d ns, and every f64 operation is exact for this configuration (kind=%s initial_ns=%d "
                    "multiplier=%d/%d cap_ns=%s attempt=%d)" % (v, x, kind, initial, num, den, cap, a))
        elif abs(v - x) > tol:
            return "delay %d ns, exact value %d ns (kind=%s initial_ns=%d multiplier=%d/%d cap_ns=%s attempt=%d)" % (v, x, kind, initial, num, den, cap, a)
    return None


def _outage_monitor(fn):
    def m(case, lines, meta):
        return fn(case, lines, meta) if _is_outage(case) else None
    return m


# ----------------------------------------------------------------------------- coverage

def transitions(case, lines, meta=None):
    if _is_outage(case):
        tags = ["e2e-outage"]
        n = sum(1 for l in lines if " inner_call " in l)
        if n >= 700:
            tags.append("e2e-outage>=1h")
        return tags
    tags = []
    cache = {}
    hkv = kvs(case["header"])
    if hkv.get("clone", "0") != "0":
        tags.append("clone")
    ops = [op for op in case["ops"] if op.split()[:2] == ["probe", "backoff"]]
    for op, (kind, initial, num, den, cap, rf, a, v) in zip(ops, _probes(case, lines)):
        tags.append("kind-" + kind)
        if kind in ("policy_none", "fixed", "policy_fixed"):
            continue
        key = (initial, num, den, cap)
        if key not in cache:
            cache[key] = Ideal(initial, num, den, cap)
        idl = cache[key]
        c = DUR_MAX if cap is None else cap
        if initial >= 2 ** 62 * SEC:
            tags.append("huge-initial")
            if kind in JITTER_KINDS:
                tags.append("huge-initial-jittered")
        if kind in JITTER_KINDS:
            if rf[0] * 100 % max(rf[1], 1):
                tags.append("factor-not-a-whole-percent")
            kvf = dict(hkv)
            kvf.update(kvs(op))
            if "rf_num" in kvf and int(kvf["rf_num"]) > int(kvf.get("rf_den", "2")):
                tags.append("factor-above-1-clamped")
            if rf[0] == 0:
                tags.append("factor-zero")
        else:
            tags.append("exact-region" if in_exact_region(initial, num, den, cap) else "outside-exact-region")
            if in_exact_region(initial, num, den, cap) and 0 < initial and idl.at(a) < c and a > 0:
                tags.append("exact-region-below-cap")
        if kind.startswith("policy_"):
            if initial == 0:
                tags.append("policy-zero-initial")
            elif initial < 10 ** 6:
                tags.append("policy-sub-ms-initial")
            if cap is not None and cap < 10 ** 6:
                tags.append("policy-sub-ms-maximum")
        if initial == 0:
            tags.append("zero-initial")
        elif idl.at(a) >= c:
            tags.append("at-cap")
            if idl.cross is not None and min(a, I32_MAX) == idl.cross:
                tags.append("first-capped-attempt")
            if cap is None:
                tags.append("saturated-duration-max")
        else:
            tags.append("below-cap")
        if cap is not None and 0 < initial and cap <= initial:
            tags.append("cap-at-or-below-initial")
        if a > I32_MAX:
            tags.append("attempt>i32max")
        if a == USIZE_MAX:
            tags.append("attempt=usize-max")
        if c >= DUR_MAX - 999999999 and idl.cross and idl.rawcross == 2 ** 64 * SEC and min(a, I32_MAX) == idl.cross:
            tags.append("product-exactly-2^64s")
        if num == den:
            tags.append("multiplier-one")
        elif num < 2 * den:
            tags.append("multiplier-below-2")
        if den < num and num * 100 <= den * 106:
            tags.append("multiplier-within-6%-of-one")
            if a > 1024 and idl.cross is not None and idl.cross > 1024:
                tags.append("below-cap-beyond-attempt-1024" if idl.at(a) < c else "at-cap-first-reached-beyond-attempt-1024")
            if idl.eff(a) > 4092:
                tags.append("tolerance-grows-with-exponent")
        if cap is not None and idl.cross and (idl.rawcross - cap <= 1 or cap - idl.table[idl.cross - 1] <= 1):
            tags.append("cap-within-1ns-of-uncapped-value")
        kv = dict(hkv)
        kv.update(kvs(op))
        if "chain" not in kv or kind in POLICY2:
            continue
        ck = ("chain", kv["chain"], initial)
        if ck not in cache:
            cache[ck] = _chain_tags(parse_chain(kv["chain"]), initial)
        ctags, stale = cache[ck]
        tags += ctags
        if initial and idl.at(a) < c and any(st.at(a) >= st.cap for st in stale):
            tags.append("below-cap-where-a-stale-setting-is-saturated")
        if initial and idl.at(a) >= c and any(st.at(a) < st.cap for st in stale):
            tags.append("at-cap-where-a-stale-setting-is-not")
    return tags


def _chain_tags(items, initial):
    """tags describing the shape of a chain + the exact oracles of the stale combinations (a setting that was in force
    when another setter ran, but is not the final one)"""
    tags = ["chain"]
    num, den, cap = last_wins(items)
    ms = [i for i, it in enumerate(items) if it[0] == "m"]
    cs = [i for i, it in enumerate(items) if it[0] == "c"]
    if not items:
        tags.append("chain-empty")
    if not ms:
        tags.append("chain-default-multiplier")
    if not cs:
        tags.append("chain-no-max_interval")
    if len(ms) > 1:
        tags.append("chain-overridden-multiplier")
    if len(cs) > 1:
        tags.append("chain-overridden-max_interval")
    if ms and cs:
        tags.append("chain-multiplier-before-max_interval" if ms[-1] < cs[-1] else "chain-max_interval-before-multiplier")
        if ms[-1] > cs[-1]:
            before = [items[i][1] for i in ms if i < cs[-1]]
            p, q = before[-1] if before else (2, 1)           # the multiplier in force when the last maximum was set
            if num * q < p * den:
                tags.append("chain-max_interval-before-smaller-multiplier")
            elif num * q > p * den:
                tags.append("chain-max_interval-before-larger-multiplier")
    mults, caps = _settings(items)
    stale = []
    for mm in dict.fromkeys(mults[-3:]):
        for cc in dict.fromkeys(caps[-3:]):
            if (mm[0] * den, cc) != (num * mm[1], cap):
                st = Ideal(initial, mm[0], mm[1], cc, limit=200000)
                if st.const is not None or st.cross is not None:
                    stale.append(st)
    return tags, stale


def nontrivial(case, lines, tags):
    s = set(tags)
    return "e2e-outage" in s or ("at-cap" in s and "below-cap" in s) or "attempt>i32max" in s


LEVEL_NOTE = ("Partial. Proved (Lean kernel): monotonicity, cap, exactness below the cap, saturation beyond i32::MAX and the jitter envelope (any "
              "rational factor in [0,1]) of the exact-arithmetic value `ideal` for all attempts and configurations; the transcribed code "
              "(capped_exponential, randomize including the range handed to random_range, ReconnectPolicy::delay_for_attempt, a loop over "
              "them) over an abstract arithmetic: it IS `ideal` on exact naturals / exact rationals; it never panics and returns <= cap under "
              "the four FloatLike laws; it is monotone in the attempt and exact on the exact region under the named hypotheses F64Laws; the "
              "jitter range is well-formed, randomize total and within its bounds, every built-in interval function / policy / loop total "
              "under JitterLaws; all laws hold of a concrete arithmetic with overflow, +inf and NaN (consistency). "
              "Sampled, not proved: that binary64 / Duration satisfy FloatLike, F64Laws (in particular monotonicity of powi in the exponent, "
              "which IEEE does not promise) and JitterLaws, and that outside the exact region the float result stays within max(2^-40, (2e+8)·2^-53) relative + "
              "1 ns of `ideal` (e = the effective exponent: attempt, or first capped attempt) — the correspondence check feeds every observed value to the model, which demands `ideal` exactly inside the "
              "exact region and rejects a value outside the envelope, above the cap or out of order with an earlier accepted value elsewhere; "
              "independent python monitors check no-panic / cap / monotone / exactness directly on the implementation's values. "
              "Trusted: harness (catch_unwind around the call), python oracle.")

SPECS = {
    "C14": {
        "group": "backoff",
        "module": "TR.Props.C14",
        "gen": gen,
        "monitors": [("c14-no-panic", mon_no_panic), ("c14-capped", mon_capped), ("c14-monotone", mon_monotone),
                     ("c14-exact-until-cap-jitter-in-factor", mon_exact),
                     ("c14-outage-retries-only-reconnectable", _outage_monitor(rc.mon_calls)),
                     ("c14-outage-delay-is-policy", _outage_monitor(rc.mon_delay)),
                     ("c14-outage-state", _outage_monitor(rc.mon_state))],
        "transitions": transitions,
        "nontrivial": nontrivial,
        "all_transitions": ["kind-exp", "kind-rand", "kind-retry_policy", "kind-policy_exp", "kind-policy_rand", "kind-policy_fixed",
                            "kind-fixed", "kind-policy_none", "kind-retry_policy_rand", "kind-policy_exp_of", "kind-policy_rand_of",
                            "kind-policy_custom", "clone", "chain", "chain-empty", "chain-default-multiplier", "chain-no-max_interval",
                            "chain-overridden-multiplier", "chain-overridden-max_interval", "chain-multiplier-before-max_interval",
                            "chain-max_interval-before-multiplier", "chain-max_interval-before-smaller-multiplier",
                            "chain-max_interval-before-larger-multiplier", "below-cap-where-a-stale-setting-is-saturated",
                            "at-cap-where-a-stale-setting-is-not", "multiplier-below-2", "multiplier-within-6%-of-one", "below-cap-beyond-attempt-1024",
                            "at-cap-first-reached-beyond-attempt-1024", "cap-within-1ns-of-uncapped-value", "product-exactly-2^64s", "below-cap", "at-cap", "first-capped-attempt", "saturated-duration-max",
                            "zero-initial", "huge-initial", "huge-initial-jittered", "cap-at-or-below-initial", "attempt>i32max", "attempt=usize-max", "multiplier-one",
                            "exact-region", "exact-region-below-cap", "outside-exact-region", "factor-not-a-whole-percent", "factor-above-1-clamped",
                            "factor-zero", "policy-zero-initial", "policy-sub-ms-initial", "policy-sub-ms-maximum",
                            "e2e-outage", "e2e-outage>=1h"],
        "model_modules": ["TR.Model.Backoff", "TR.Lemmas.Backoff", "TR.Model.BackoffFloat", "TR.Lemmas.BackoffFloat",
                          "TR.Mutants.BackoffCapAfter", "TR.Mutants.BackoffJitterSecs", "TR.Mutants.BackoffPolicyFloor"],
        "lean_files": ["TR.Model.Backoff", "TR.Lemmas.Backoff", "TR.Model.BackoffFloat", "TR.Lemmas.BackoffFloat",
                       "TR.Mutants.BackoffCapAfter", "TR.Mutants.BackoffJitterSecs", "TR.Mutants.BackoffPolicyFloor"],
        "sizes": (400, 6000), "drift_factor": 3,
        "rule": "seeded cases, each one configuration (kind exp/rand/retry_policy/retry_policy_rand/policy_exp/policy_rand/policy_exp_of/policy_rand_of/"
                "policy_custom/fixed/policy_fixed/policy_none; 4 % with an initial interval of Duration::MAX / around 2^63..2^64 s; 60 % of the builder-made ones given by their setter chain `chain=` — both orders of "
                "multiplier / max_interval, default multiplier left out, 1..3 overridden or repeated setters anywhere — with multipliers below 2 "
                "favoured, caps within 1 ns of an uncapped value, and attempts around the first capped attempt of the intended and of every stale "
                "combination of settings seen along the chain; 10 % asked through a clone; initial 0, "
                "1 ns .. 7 days, log-uniform; multiplier on the grid {1,1.1,1.25,1.5,2,2.5,3,3.5,5,7.5,10}; 7 % with a multiplier just above 1 (1.00025 .. 1.05, non-dyadic and 1+2^-k), a maximum first reached "
                "at an attempt between 1025 and 2600 (thorough 6000), attempts dense around 1024 and around that attempt, samples in between and up to usize::MAX; 5 % power-of-two seconds x 2/4/8 without a maximum, so that the product "
                "hits 2^64 s exactly; 10 % inside the exact region of the float computation (initial interval and maximum exactly representable "
                "seconds, multiplier 1/2/4/8) or one nanosecond outside it; cap absent / below / equal / above the "
                "initial interval / years / Duration::MAX; factor 0..100 % or (40 %) any rational n/d incl. above 1 and n/0, which the constructor clamps) probed at dense windows of consecutive attempts inside 0..10^4 (around 0, "
                "around the first capped attempt, random; about 2 % of the cases sweep all of 0..10^4) and at sparse attempts 2^k±1 up to usize::MAX, "
                "i32::MAX±1, u32::MAX±1; plus end-to-end outage cases (default ReconnectLayer, always-failing service, 1..3 h of virtual time; "
                "thorough: up to 24 h); distinct = distinct implementation log; non-trivial = both sides of the cap probed, or an attempt beyond "
                "i32::MAX, or an outage case",
        "trusted": ["IEEE-754 binary64, Duration::as_secs_f64 / from_secs_f64 and rand 0.9's random_range satisfy the FloatLike, F64Laws and "
                    "JitterLaws hypotheses (sampled)", "harness: catch_unwind around the real call, "
                    "virtual clock for the outage cases", "python exact-arithmetic oracle in the monitors"],
        "assumptions": ["valid configurations only: multiplier >= 1, randomization factor any number (the constructor clamps it to [0,1]); NaN "
                        "factors are outside the property's quantifier", "usize is 64 bits"],
        "level_text": "Theorems TR.Props.C14.*: (A) for the exact-arithmetic delay `ideal` (Nat nanoseconds, rational multiplier >= 1, exponent = "
                      "attempt clamped to i32::MAX as in the code, saturating at max_interval or Duration::MAX): non-decreasing in the attempt, never "
                      "above the cap, equal to floor(initial*multiplier^attempt) below the cap, equal to the cap for ever once reached, constant "
                      "beyond i32::MAX, jittered values within the randomization factor (any rational factor) — for all attempts (unbounded) and all "
                      "configurations, and for every ReconnectPolicy kind; the early-exit evaluation the driver runs equals `ideal`. (B) the code "
                      "transcribed over an abstract arithmetic: code_is_ideal_natArith / code_is_ideal_ratArith ((B) = (A) on exact arithmetic); "
                      "total_over_any_arithmetic (never panics, <= cap); float_monotone and float_exact_in_exact_region under the named hypothesis "
                      "structure F64Laws (powi monotone in the exponent for multipliers >= 1, exact for powers of two, ...); "
                      "jitter_range_well_formed (random_range cannot panic), randomize_total, randomize_within_bounds, "
                      "jitter_code_within_factor_ratArith under JitterLaws; interval_function_total, delay_for_attempt_total, loop_never_crashes, "
                      "loop_runs_forever; reconnect_policy_* (zero / sub-millisecond delays); laws_consistent (a concrete arithmetic with overflow, "
                      "+inf, NaN satisfies every law). TR.Mutants.BackoffCapAfter / BackoffJitterSecs / BackoffPolicyFloor: the pinned code and the "
                      "seeded changes C14-w5m2 / C14-w5m1, transcribed the same way, provably violate these statements. The float implementation is "
                      "tied to `ideal` by the check: exactly inside the exact region, by the sampled envelope + cap + monotonicity outside it.",
        "level_note": LEVEL_NOTE,
    },
}
