"""C10 — cache: generator, implementation-side monitors (reference caches), coverage tags

Implementation log grammar (harness/src/mw_cache.rs):
  t=<ms> req <c> key=<k> svc=<i>        echo of the request, logged just before `call()` (= the lookup)
  t=<ms> inner_call <c> <serial>        directly after the `req` line of <c>  <=> the lookup missed
  t=<ms> inner_done <c> <serial> ok|errK|panic
  t=<ms> inner_drop <c> <serial>
  t=<ms> result <c> ok:<v> | err:inner<K>:<v> | panic
"""
from gen.util import kvs, tparse


# ----------------------------------------------------------------------------- generator

def _outcome(rng):
    r = rng.random()
    if r < 0.72:
        return "ok"
    if r < 0.90:
        return "err%d" % rng.randint(1, 2)
    if r < 0.95:
        return "panic"
    return "never"


def _entry(rng, shared, private_multi=False):
    """construction paths and handles (ENTRYPOINT_BRIEF): how many services are built from the one layer value, through
    which builder constructor, with listeners / a name or not, and on which handle of a service each call is made.
    None of it changes what ONE store does, except `private_multi`: a plain `CacheLayer` (shared=0) builds a store per
    service, so scenarios that aim with a single reference store must not ask for it.
    -> (header words, svc(): the ` svc=… h=… lc=…` words of one arrive, listen)"""
    if shared == 0:
        nsvc = rng.choice([2, 2, 3]) if (private_multi and rng.random() < 0.4) else 1
    else:
        nsvc = rng.choice([2, 2, 2, 3])
    words = []
    if (shared == 0 and nsvc > 1) or (shared != 0 and (nsvc != 2 or rng.random() < 0.3)):
        words.append("nsvc=%d" % nsvc)
    listen = rng.random() < 0.25
    if listen:
        words.append("listen=1")
    if rng.random() < 0.15:
        words.append("name=" + rng.choice(["c1", "users", "x-y"]))
    v = rng.random()
    if v < 0.12:
        words.append("via=new")
    elif v < 0.24:
        words.append("via=default")
    hmode = rng.choice(["fresh", "fresh", "mixed", "mixed", "own", "reuse"])

    def svc():
        w = ""
        if nsvc > 1:
            k = rng.randrange(nsvc)
            if rng.random() < 0.05:
                k += nsvc                         # the service index is taken modulo the number of services
            w = " svc=%d" % k
        r = rng.random()
        if hmode == "own" or (hmode == "mixed" and r < 0.25):
            w += " h=0"                           # the service value `layer()` returned, again and again
        elif hmode == "reuse" or (hmode == "mixed" and r < 0.6):
            w += " h=%d" % rng.randint(1, 2)      # a clone of it taken once and then reused
        if nsvc > 1 and rng.random() < 0.3:
            w += " lc=1"                          # (at the first use of a service) build it from a clone of the layer value
        return w
    return ("".join(" " + x for x in words)), svc, listen


def _pol(rng, policy):
    """the ` policy=…` header word; LRU is the builder's documented default: sometimes `eviction_policy` is not called"""
    return "" if policy == "lru" and rng.random() < 0.4 else " policy=%s" % policy


def _probe(rng, ops, listen, p=0.08):
    if listen and rng.random() < p:
        ops.append("probe events")


def gen_expired_refresh_fails(rng, tier):
    """an entry expires, the refresh of that key fails (or is cancelled) so it is never re-inserted, the cache
    refills with entries that are used more often, then one more key arrives: size bound and victim choice"""
    policy = rng.choice(["lfu", "lfu", "lru", "fifo"])
    mx = rng.choice([1, 2, 2, 3])
    ttl = rng.choice([5, 10])
    shared = rng.choice([0, 0, 1])
    extra, svcw, listen = _entry(rng, shared)
    header = "cache max=%d%s ttl=%d shared=%d" % (mx, _pol(rng, policy), ttl, shared) + extra
    ops = []
    c = [0]

    def call(key, out="ok", lat=0):
        c[0] += 1
        ops.append("arrive %d key=%d%s inner=%d:%s" % (c[0], key, svcw(), lat, out))
        ops.append("poll %d" % c[0])
        _probe(rng, ops, listen)
        return c[0]
    call(1)                                   # key 1 cached (count 1)
    if rng.random() < 0.5:
        call(1)                               # a hit (count 2)
    ops.append("adv %d" % (ttl + rng.choice([1, 1, 5])))
    x = call(1, out=rng.choice(["err1", "err2", "never", "panic"]), lat=rng.choice([0, 0, 3]))   # expired; the refresh fails
    if rng.random() < 0.4:
        ops.append("drop %d" % x)
    for k in range(2, 2 + mx):                # refill with more popular entries
        call(k)
        for _ in range(rng.randint(1, 3)):
            call(k)
    call(2 + mx)                              # one more key: a victim must go
    for k in range(2, 3 + mx):                # who is still there?
        call(k)
    ops.append("settle")
    _probe(rng, ops, listen, 1.0)
    return {"header": header, "ops": ops}


def gen_expiry_restore_evict(rng, tier):
    """the store is filled at staggered instants (sometimes an entry's `inserted_at` is refreshed by a late concurrent
    completion, which under FIFO keeps its queue position); time advances so that some entries - never only the
    newest - have expired while younger ones are still valid; some of the expired keys are requested again in any
    order (lazy removal of an oldest / middle slot, then a re-store); new keys then force evictions, and after them
    every key is looked up, survivors first, which reveals the victim. One or two such rounds, any policy.
    The generator follows the reference store (`_Ref`, first allowed LFU victim) only to aim its time advances
    and lookups; it is not an oracle."""
    policy = rng.choice(["fifo", "lru", "lfu"])
    mx = rng.choice([2, 3, 3, 4, 4, 5])
    us = rng.random() < 0.15                     # tick = 1 us: staggered sub-millisecond stamps, 'just expired' = by 1 us
    ttl = _us_ttl(rng, lo=2) if us else rng.choice([10, 20, rng.randint(6, 40)])
    shared = rng.choice([0, 0, 1, 2])
    extra, svcw, listen = _entry(rng, shared)
    header = "cache max=%d%s ttl=%d shared=%d" % (mx, _pol(rng, policy), ttl, shared) + extra + (" tick=us" if us else "")
    ref = _Ref(policy, mx, ttl)
    w = {"st": (), "now": 0, "c": 0, "nextkey": mx + 1}
    ops = []
    slow = []           # [caller, key, due]: concurrent misses that complete (and re-insert) later

    def arrive(key, lat, out):
        w["c"] += 1
        ops.append("arrive %d key=%d%s inner=%d:%s" % (w["c"], key, svcw(), lat, out))
        hit, w["st"] = ref.get(w["st"], key, w["now"])
        return w["c"], hit

    def request(key, out="ok"):
        c, hit = arrive(key, 0, out)
        ops.append("poll %d" % c)
        _probe(rng, ops, listen, 0.05)
        if not hit and out == "ok":
            w["st"] = ref.insert(w["st"], key, w["now"])[0][0]

    def adv(d):
        ops.append("adv %d" % d)
        w["now"] += d
        for p in [p for p in slow if p[2] <= w["now"]]:
            slow.remove(p)
            ops.append("poll %d" % p[0])
            w["st"] = ref.insert(w["st"], p[1], w["now"])[0][0]

    def present():
        return [k for k, _, _ in w["st"]]

    def readback():
        here = present()
        rng.shuffle(here)
        gone = [k for k in range(1, w["nextkey"]) if k not in here]
        rng.shuffle(gone)
        for k in here + gone[:rng.randint(1, max(1, len(gone)))]:
            request(k)

    for k in range(1, mx + 1):                   # fill, oldest first
        if rng.random() < 0.25:
            lat = rng.randint(2, ttl)
            c, hit = arrive(k, 0 if us else lat, "ok")       # tick=us: the completion is timed by the (late) poll alone
            if not hit:
                slow.append([c, k, w["now"] + lat])
        request(k)
        adv(rng.choice([0, 1, 1, 2, 3, max(1, ttl // 4)] + ([rng.randint(1, 1500), rng.randint(1, 1500)] if us else [])))
    for _ in range(rng.randint(0, 3)):           # uses: LRU order / LFU counts differ from the insertion order
        if present():
            request(rng.choice(present()))
        if rng.random() < 0.3:
            adv(rng.choice([0, 1]))
    for _ in range(rng.choice([1, 1, 2])):
        stamps = sorted({ins for _, ins, _ in w["st"]})
        if len(stamps) >= 2:                     # expire the entries stamped <= stamps[j], keep the younger ones
            j = rng.randint(0, len(stamps) - 2)
            lo, hi = stamps[j] + ttl + 1, stamps[j + 1] + ttl
            adv(max(0, rng.choice([lo, lo, hi, rng.randint(lo, hi)]) - w["now"]))
        else:
            adv(rng.choice([1, ttl, ttl + 1]))
        old = [k for k, ins, _ in w["st"] if w["now"] - ins > ttl]
        rng.shuffle(old)
        for k in old[:rng.randint(1, max(1, len(old)))]:     # lazy removal + re-store, in any order
            request(k, out="ok" if rng.random() < 0.9 else "err1")
            if rng.random() < 0.25 and present():
                request(rng.choice(present()))
        for _ in range(rng.randint(1, 2)):       # new keys: evictions
            request(w["nextkey"])
            w["nextkey"] += 1
            if rng.random() < 0.6:
                readback()
    ops.append("settle")
    readback()
    ops.append("settle")
    _probe(rng, ops, listen, 1.0)
    return {"header": header, "ops": ops}


def _us_ttl(rng, lo=1):
    """a TTL in microsecond ticks: whole milliseconds, milliseconds + a fraction, below one millisecond, around a boundary"""
    if lo == 0 and rng.random() < 0.07:
        return 0                                  # `Duration::ZERO`: every entry of positive age has expired
    r = rng.random()
    if r < 0.35:
        t = rng.randint(1, 8) * 1000
    elif r < 0.70:
        t = rng.randint(0, 8) * 1000 + rng.randint(1, 999)
    elif r < 0.85:
        t = rng.choice([1, 2, 500, 999, 1000, 1001, 1999, 2001, 4999])
    else:
        t = rng.randint(1, 12000)
    return max(lo, t)


def _us_age(rng, ttl):
    """an age (in us ticks) worth a lookup for a TTL of `ttl` us: ttl-1 / ttl / ttl+1, strictly between the TTL and the
    next whole millisecond of age, the millisecond boundaries around the TTL, anything"""
    floor_ms = ttl // 1000 * 1000
    nxt = floor_ms + 1000                         # first whole-millisecond age > ttl
    r = rng.random()
    if r < 0.30:
        return max(0, ttl + rng.choice([-1, 0, 1]))
    if r < 0.60:
        return rng.randint(ttl + 1, max(ttl + 1, nxt - 1))
    if r < 0.75:
        return max(0, rng.choice([floor_ms - 1, floor_ms, floor_ms + 1, nxt - 1, nxt, nxt + 1]))
    if r < 0.85:
        return rng.randint(floor_ms, ttl)
    return rng.randint(0, 2 * ttl + 1500)


def gen_subms_ttl(rng, tier):
    """tick = 1 us (`tick=us`): TTLs that are and are not whole milliseconds, entries stored at arbitrary microsecond
    instants (also by a late poll of a miss), lookups at ages ttl-1 / ttl / ttl+1 us, between the TTL and the next whole
    millisecond, at the millisecond boundaries around it. The generator follows the reference store only to aim."""
    policy = rng.choice(["lru", "lfu", "fifo"])
    mx = rng.choice([1, 2, 2, 3, 4])
    ttl = _us_ttl(rng, lo=0)
    shared = rng.choice([0, 0, 1, 2])
    nkeys = mx + rng.choice([0, 0, 1])
    extra, svcw, listen = _entry(rng, shared)
    header = "cache max=%d%s ttl=%d shared=%d" % (mx, _pol(rng, policy), ttl, shared) + extra + " tick=us"
    ref = _Ref(policy, mx, ttl)
    w = {"st": (), "now": 0, "c": 0}
    ops = []

    def adv(d):
        if d > 0:
            ops.append("adv %d" % d)
            w["now"] += d

    def request(key, out="ok", delay=0):
        w["c"] += 1
        ops.append("arrive %d key=%d%s inner=0:%s" % (w["c"], key, svcw(), out))
        hit, w["st"] = ref.get(w["st"], key, w["now"])
        adv(delay)                                # a miss is stored at the instant of its completion = of this poll
        ops.append("poll %d" % w["c"])
        _probe(rng, ops, listen, 0.05)
        if not hit and out == "ok":
            w["st"] = ref.insert(w["st"], key, w["now"])[0][0]

    adv(rng.choice([0, rng.randint(1, 2500)]))
    for _ in range(rng.randint(3, 9)):
        st = w["st"]
        if not st or rng.random() < 0.2:
            adv(rng.choice([0, 0, rng.randint(1, 1500)]))
            request(rng.randint(1, nkeys), delay=rng.choice([0, 0, rng.randint(1, 1200)]))
            continue
        k, ins, _ = rng.choice(st)
        want = _us_age(rng, ttl)
        adv(max(0, ins + want - w["now"]))
        request(k, out="ok" if rng.random() < 0.9 else "err1", delay=rng.choice([0, 0, 0, rng.randint(1, 1200)]))
        others = [x for x, _, _ in w["st"] if x != k]
        rng.shuffle(others)
        for x in others[:rng.randint(0, 2)]:      # the other entries, at whatever age they have now
            request(x)
    ops.append("settle")
    _probe(rng, ops, listen, 1.0)
    return {"header": header, "ops": ops}


def gen_big_cache(rng, tier):
    """max_size 9..40, any policy. The store is filled; the entries are then used unequally so that the policy's victim
    is unique (LFU: counts 1, 2, 3 at the low end, everything else above; LRU: a random use order; FIFO: uses are
    irrelevant) - sometimes a two-way LFU tie, which stays an observed choice; new keys then force evictions (a new
    entry is sometimes used until it is no longer the least frequently used, so that the next victim is an old entry
    again); read-back of the presumed victims (mostly as a probe: the refresh fails, nothing is stored) and of the entries
    next in line. Sometimes a TTL and staggered stamps, so that some entries have expired by then. The generator follows the reference store (first allowed LFU victim)
    only to aim; before an LFU eviction it breaks ties wider than 2 by using tied entries."""
    policy = rng.choice(["lfu", "lfu", "lru", "fifo"])
    mx = rng.choice([9, 12, 16, 20, 24, 28, 32, 36, 40, rng.randint(9, 40), rng.randint(17, 40)])
    ttl = rng.choice([None, None, None, rng.choice([40, 80, 150])])
    shared = rng.choice([0, 0, 1, 2])
    extra, svcw, listen = _entry(rng, shared)
    dflt_max = rng.random() < 0.08               # no `max_size` call: the builder's documented default, 100 entries
    if dflt_max:
        mx = 100
    header = ("cache" + ("" if dflt_max else " max=%d" % mx) + _pol(rng, policy)
              + ("" if ttl is None else " ttl=%d" % ttl) + " shared=%d" % shared + extra)
    ref = _Ref(policy, mx, ttl)
    w = {"st": (), "now": 0, "c": 0, "nextkey": mx + 1}
    ops = []
    victims = []
    unsure = set()      # keys that were in an LFU tie: present or not, depending on the implementation's choice

    def adv(d):
        if d > 0:
            ops.append("adv %d" % d)
            w["now"] += d

    def request(key, out="ok"):
        """-> (hit, evicted key or None, number of allowed victims); with out="err1" it is a probe: a hit counts as a
        use, a miss reaches the inner service, which fails, so nothing is stored and nothing evicted"""
        w["c"] += 1
        ops.append("arrive %d key=%d%s inner=0:%s" % (w["c"], key, svcw(), out))
        ops.append("poll %d" % w["c"])
        _probe(rng, ops, listen, 0.02)
        hit, w["st"] = ref.get(w["st"], key, w["now"])
        if hit or out != "ok":
            return hit, None, 0
        w["st"], victim, nallowed = ref.insert(w["st"], key, w["now"])[0]
        if victim is not None:
            victims.append(victim)
        return False, victim, nallowed

    def line():
        """the entries in the order in which the policy would evict them"""
        st = w["st"]
        if policy == "lru":
            return list(reversed(st))
        if policy == "fifo":
            return list(st)
        return sorted(st, key=lambda e: e[2])

    def store_new(key):
        """a key that is not stored; under LFU a tie wider than two is narrowed first by using tied entries"""
        if policy == "lfu" and len(w["st"]) >= mx:
            for _ in range(8):
                m = min(c for _, _, c in w["st"])
                tied = [k for k, _, c in w["st"] if c == m]
                if len(tied) <= 2:
                    break
                sure = [k for k in tied if k not in unsure]
                if not sure:
                    return False
                request(rng.choice(sure))
            else:
                return False
        _, victim, nallowed = request(key)
        if nallowed > 1:
            # which of the tied entries went is the implementation's choice and this generator does not see it: from
            # here on the tied keys are treated alike - each is probed once now (which also tells the monitors who
            # went), and later they are only ever probed, never re-stored - so that what follows does not depend on it
            tied = [victim] + [k for k, _, c in w["st"] if c == m and k != key]
            rng.shuffle(tied)
            unsure.update(tied)
            for k in tied:
                request(k, out="err1")
        return True

    keys = list(range(1, mx + 1))
    rng.shuffle(keys)
    for k in keys:                                # fill
        request(k)
        if ttl is not None:
            adv(rng.choice([0, 0, 1, 2]))
    order = keys[:]
    rng.shuffle(order)
    if policy == "lfu":
        nlow = rng.choice([1, 2, 2, 3]) if mx <= 24 else rng.choice([1, 1, 2])
        for i, k in enumerate(order):
            if i < nlow:
                uses = i                          # counts 1, 2, 3 at the low end
            elif i == nlow and rng.random() < 0.25:
                uses = nlow - 1                   # a two-way tie at the top of the low end
            else:
                uses = nlow + rng.choice([0, 0, 0, 1, 2])
            for _ in range(uses):
                request(k)
    else:
        for k in order[:rng.randint(mx // 3, mx)]:
            request(k)
    if ttl is not None and rng.random() < 0.6:
        stamps = sorted({ins for _, ins, _ in w["st"]})
        j = rng.randint(0, max(0, min(3, len(stamps) - 2)))
        adv(max(0, stamps[j] + ttl + rng.choice([0, 1, 1]) - w["now"]))
        old = [k for k, ins, _ in w["st"] if w["now"] - ins > ttl]
        rng.shuffle(old)
        for k in old[:rng.randint(0, 2)]:
            request(k)
    for _ in range(rng.randint(1, 4)):            # evictions
        nk = w["nextkey"]
        w["nextkey"] += 1
        if not store_new(nk):
            break
        if policy == "lfu" and rng.random() < 0.7:   # lift the new entry above the next old one
            ln = line()
            nxt = [c for k, _, c in ln if k != nk]
            for _ in range(min(4, nxt[0] if nxt else 0)):
                request(nk)
        if rng.random() < 0.4:
            for k, _, _ in line()[:rng.randint(1, 2)]:
                if k not in unsure:
                    request(k)
    ops.append("settle")
    nxt = [k for k, _, _ in line()[:3]]
    rest = [k for k, _, _ in w["st"] if k not in nxt]
    rng.shuffle(rest)
    gone = list(dict.fromkeys(victims))[:4]
    back = nxt + rest[:rng.randint(1, 4)] + gone
    if rng.random() < 0.5:
        rng.shuffle(back)
    for k in back:                                # survivors next in line, some others, the presumed victims
        if k in unsure or (k in gone and (policy == "lfu" or rng.random() < 0.5)):
            request(k, out="err1")                # probe: a re-store would evict again (under LFU possibly out of a wide tie)
        else:
            request(k)
    ops.append("settle")
    _probe(rng, ops, listen, 1.0)
    return {"header": header, "ops": ops}


def gen_ttl_zero(rng, tier):
    """`ttl(Duration::ZERO)`: a TTL of zero is a TTL - an entry is served at the instant it was stored and has expired
    as soon as the clock has moved at all (`elapsed() > 0`); it is NOT "no TTL". Requests over a few keys at the same
    and at later instants (1 tick later, much later), 1 ms or 1 us ticks, every policy, private and shared stores,
    concurrent misses, failing refreshes, evictions among entries that are all dead."""
    policy = rng.choice(["lru", "lfu", "fifo"])
    mx = rng.choice([1, 2, 2, 3, 4])
    us = rng.random() < 0.4
    shared = rng.choice([0, 0, 1, 2])
    extra, svcw, listen = _entry(rng, shared)
    header = "cache max=%d%s ttl=0 shared=%d" % (mx, _pol(rng, policy), shared) + extra + (" tick=us" if us else "")
    nkeys = mx + rng.choice([0, 1, 1])
    ops = []
    c = 0
    stored = []
    for _ in range(rng.randint(4, 12)):
        c += 1
        key = rng.choice(stored[-2:]) if stored and rng.random() < 0.6 else rng.randint(1, nkeys)
        out = "ok" if rng.random() < 0.85 else rng.choice(["err1", "panic"])
        lat = 0 if us or rng.random() < 0.8 else rng.randint(1, 3)
        ops.append("arrive %d key=%d%s inner=%d:%s" % (c, key, svcw(), lat, out))
        if lat == 0 and rng.random() < 0.85:
            ops.append("poll %d" % c)
            if out == "ok":
                stored.append(key)
        _probe(rng, ops, listen)
        r = rng.random()
        if r < 0.35:
            pass                                  # the next request comes at the same instant: a stored entry is still served
        elif r < 0.65:
            ops.append("adv 1")
        else:
            ops.append("adv %d" % rng.choice([1, 2, 5, 999, 1000, 1001] if us else [1, 2, 3, 10]))
        if rng.random() < 0.15:
            ops.append("settle")
    ops.append("settle")
    _probe(rng, ops, listen, 1.0)
    return {"header": header, "ops": ops}


DUR_MAX_NS = 2 ** 64 * 10 ** 9 - 1               # `Duration::MAX` in nanoseconds


def _ttl_ticks(word, us):
    """the header word `ttl=<word>` in clock ticks: `max` is `Duration::MAX`, anything else n ticks (any natural n)"""
    return DUR_MAX_NS // (1000 if us else 1000000) if word == "max" else int(word)


# TTLs (in nanoseconds) that are ordinary configuration values for a response that must "never" expire - most of
# them beyond what `Instant + ttl` can represent (on Linux: seconds beyond i64::MAX - now), all of them beyond every
# clock reading of a case. None of them may ever expire an entry.
_YEAR_NS = 365 * 86400 * 10 ** 9
_HUGE_NS = [100 * _YEAR_NS, 292 * _YEAR_NS, 293 * _YEAR_NS, 2 ** 63 - 1, 2 ** 63, 2 ** 63 + 1, 2 ** 64 - 1, 2 ** 64, 2 ** 64 + 1,
            10 ** 6 * _YEAR_NS, (2 ** 31) * 10 ** 9, (2 ** 32) * 10 ** 9, (2 ** 62) * 10 ** 9,
            (2 ** 63 - 100000) * 10 ** 9, (2 ** 63 - 2000) * 10 ** 9, (2 ** 63 - 1001) * 10 ** 9, (2 ** 63 - 1000) * 10 ** 9,
            (2 ** 63 - 999) * 10 ** 9, (2 ** 63 - 1) * 10 ** 9, (2 ** 63) * 10 ** 9, (2 ** 63 + 1) * 10 ** 9,
            (2 ** 64 - 1) * 10 ** 9, DUR_MAX_NS - 999999, DUR_MAX_NS]


def _huge_ttl(rng, us):
    """-> header word for a huge TTL: `max` (`Duration::MAX`) or a number of ticks around 2^63 ns / 2^64 ns / centuries /
    2^63 s (where `Instant + ttl` stops being representable) / `u64::MAX` s"""
    if rng.random() < 0.35:
        return "max"
    ns = rng.choice(_HUGE_NS)
    if rng.random() < 0.3:
        ns = max(1, min(DUR_MAX_NS, ns + rng.choice([-1, 1]) * rng.choice([1, 999, 10 ** 6, 10 ** 9, 3 * 10 ** 9, 10 ** 12])))
    return "%d" % max(1, ns // (1000 if us else 1000000))


def gen_ttl_huge(rng, tier):
    """`ttl(Duration::MAX)` and other TTLs no clock reading can exceed ("never expires"): every policy, private and shared
    stores, 1 ms and 1 us ticks; keys are stored, the clock advances by nothing / a tick / minutes / years, the keys are
    requested again (hits unless the policy evicted them), new keys force evictions, concurrent misses overwrite."""
    policy = rng.choice(["lru", "lfu", "fifo"])
    mx = rng.choice([1, 2, 2, 3, 4])
    us = rng.random() < 0.3
    shared = rng.choice([0, 0, 1, 2])
    extra, svcw, listen = _entry(rng, shared)
    header = "cache max=%d%s ttl=%s shared=%d" % (mx, _pol(rng, policy), _huge_ttl(rng, us), shared) + extra + (" tick=us" if us else "")
    nkeys = mx + rng.choice([0, 0, 1, 2])
    ops = []
    c = 0
    stored = []
    far = False
    for _ in range(rng.randint(4, 14)):
        c += 1
        key = rng.choice(stored[-3:]) if stored and rng.random() < 0.6 else rng.randint(1, nkeys)
        out = "ok" if rng.random() < 0.9 else rng.choice(["err1", "panic"])
        lat = 0 if us or rng.random() < 0.8 else rng.randint(1, 3)
        ops.append("arrive %d key=%d%s inner=%d:%s" % (c, key, svcw(), lat, out))
        if lat == 0 and rng.random() < 0.9:
            ops.append("poll %d" % c)
            if out == "ok":
                stored.append(key)
        _probe(rng, ops, listen)
        r = rng.random()
        if r < 0.35:
            pass
        elif r < 0.7:
            ops.append("adv %d" % rng.choice([1, 2, 10, 1000, 60000]))
        elif not far and rng.random() < 0.3:      # a year of ticks, at most once per case: the virtual clock (u64 ns,
            far = True                            # 584 years) is shared by the 2000 cases of a harness process
            ops.append("adv %d" % (365 * 86400 * (1000000 if us else 1000)))
        else:                                     # an hour, a day
            ops.append("adv %d" % (rng.choice([3600, 86400]) * (1000000 if us else 1000)))
        if rng.random() < 0.15:
            ops.append("settle")
    ops.append("settle")
    for k in range(1, nkeys + 1):                 # read-back
        c += 1
        ops.append("arrive %d key=%d%s inner=0:ok" % (c, k, svcw()))
        ops.append("poll %d" % c)
    ops.append("settle")
    _probe(rng, ops, listen, 1.0)
    return {"header": header, "ops": ops}


def gen(rng, tier):
    r0 = rng.random()
    if r0 < 0.08:
        return gen_expired_refresh_fails(rng, tier)
    if r0 < 0.20:
        return gen_expiry_restore_evict(rng, tier)
    if r0 < 0.28:
        return gen_subms_ttl(rng, tier)
    if r0 < 0.35:
        return gen_big_cache(rng, tier)
    if r0 < 0.38:
        return gen_ttl_zero(rng, tier)
    if r0 < 0.41:
        return gen_ttl_huge(rng, tier)
    policy = rng.choice(["lru", "lfu", "fifo"])
    mx = rng.choice([1, 1, 2, 2, 2, 3, 3, 4])
    if rng.random() < 0.02:
        mx = 0                                   # degenerate: containers clamp (LRU -> 100, LFU/FIFO -> 1)
    ttl = rng.choice([None, None, rng.randint(1, 10), rng.choice([5, 10]), rng.randint(20, 60)])
    if ttl is not None and rng.random() < 0.08:
        ttl = 0                                  # `Duration::ZERO`: served at the instant of the store only
    us = rng.random() < 0.08                     # tick = 1 us: the same random walk at microsecond instants (inner latency 0,
    if us and ttl is not None:                   # completions are timed by late polls)
        ttl = _us_ttl(rng, lo=0)
    ttlw = None if ttl is None else "%d" % ttl   # the header word
    if ttl is not None and rng.random() < 0.06:
        ttlw = _huge_ttl(rng, us)                # `Duration::MAX` / centuries / 2^63 s: never expires
        ttl = None                               # (for aiming the advances below: nothing to aim at)
    shared = rng.choice([0, 0, 1, 2])
    nkeys = max(1, min(6, mx + rng.choice([-1, 0, 1, 1, 2])))
    keys = list(range(1, nkeys + 1))
    extra, svcw, listen = _entry(rng, shared, private_multi=True)
    dflt = rng.random() < 0.03                   # no `max_size` / `eviction_policy` call: the builder's defaults (100, LRU)
    header = ("cache" + ("" if dflt else " max=%d%s" % (mx, _pol(rng, policy))) + ("" if ttlw is None else " ttl=%s" % ttlw)
              + " shared=%d" % shared + extra + (" tick=us" if us else ""))
    ops = []
    now = 0
    marks = []          # instants worth visiting: completions, completions + ttl
    live = []
    inflight_keys = []
    nextc = 1
    recent = []

    def arrive(key=None, lat=None, out=None, pollnow=None):
        nonlocal nextc
        c = nextc
        nextc += 1
        if key is None:
            r = rng.random()
            if inflight_keys and r < 0.25:
                key = rng.choice(inflight_keys)          # concurrent miss on the same key
            elif recent and r < 0.55:
                key = rng.choice(recent[-3:])
            else:
                key = rng.choice(keys)
        if lat is None:
            lat = 0 if us else rng.choice([0, 0, 0, 0, 1, 3, 5, rng.randint(0, 20)])
        if out is None:
            out = _outcome(rng)
        ops.append("arrive %d key=%d%s inner=%d:%s" % (c, key, svcw(), lat, out))
        live.append(c)
        recent.append(key)
        if lat > 0:
            inflight_keys.append(key)
        marks.append(now + lat)
        if ttl is not None:
            marks.append(now + lat + ttl)
        if (rng.random() < 0.65) if pollnow is None else pollnow:
            ops.append("poll %d" % c)
        return c

    nsteps = rng.randint(10, 45)
    for _ in range(nsteps):
        r = rng.random()
        if r < 0.42 or not live:
            arrive()
        elif r < 0.60:
            ops.append("poll %d" % rng.choice(live))
        elif r < 0.64:
            ops.append("drop %d" % rng.choice(live))
        elif r < 0.86:
            fut = [m for m in marks if m >= now]
            if fut and rng.random() < 0.75:
                d = max(0, rng.choice(fut) - now + rng.choice([-1, 0, 0, 0, 1]))
            elif us:
                d = rng.choice([1, rng.randint(1, 999), rng.randint(1, 999), 1000, rng.randint(0, 2 * (ttl or 1500))])
            else:
                d = rng.choice([0, 1, 2, 5, rng.randint(0, 30)])
            ops.append("adv %d" % d)
            now += d
            if d > 0 and rng.random() < 0.5:
                ops.append("settle")
                del inflight_keys[:]
        elif r < 0.97:
            ops.append("settle")
            _probe(rng, ops, listen, 0.5)
        else:
            # degenerate stream: duplicate arrival, poll/drop of a caller that never existed
            ops.append(rng.choice(["arrive %d key=1 inner=0:ok" % rng.choice(live), "poll 999", "drop 998"]))
    ops.append("settle")
    # read-back: which keys are present now (exposes the victim choices made so far)
    if rng.random() < 0.85:
        order = keys[:]
        rng.shuffle(order)
        for k in order[:rng.randint(1, len(order))]:
            arrive(key=k, lat=0, out="ok", pollnow=rng.random() < 0.7)
        ops.append("settle")
    if ttl is not None and rng.random() < 0.5:
        # boundary read of the youngest entries: ttl-1 / ttl / ttl+1 after the last instant
        d = _us_age(rng, ttl) if us else max(0, ttl + rng.choice([-1, 0, 1]))
        ops.append("adv %d" % d)
        order = keys[:]
        rng.shuffle(order)
        for k in order[:rng.randint(1, len(order))]:
            arrive(key=k, lat=0, out="ok", pollnow=True)
        ops.append("settle")
    _probe(rng, ops, listen, 1.0)
    return {"header": header, "ops": ops}


# ----------------------------------------------------------------------------- reading the implementation log

def _cfg(case):
    cfg = kvs(case["header"])
    mx = int(cfg.get("max", "100"))              # no `max=` word: `max_size` is not called, the builder's default applies
    policy = cfg.get("policy", "lru")            # likewise (`EvictionPolicy::default()`)
    ttl = _ttl_ticks(cfg["ttl"], cfg.get("tick") == "us") if "ttl" in cfg else None      # `ttl=0` is a TTL of zero, not "no TTL"
    cap = mx if mx >= 1 else (100 if policy == "lru" else 1)
    return mx, cap, policy, ttl


def _store_of(case):
    """-> function: `svc` word of a request -> index of the store that request uses. A plain `CacheLayer` (shared=0)
    builds one store per service (layer.rs: "Each call to layer() creates a new cache store"); a `SharedCacheLayer`
    (shared=1, or shared=2: `CacheLayer::shared()`) has one store for all services built from it."""
    cfg = kvs(case["header"])
    shared = int(cfg.get("shared", "0"))
    nsvc = max(1, int(cfg.get("nsvc", "1" if shared == 0 else "2")))
    if shared != 0:
        return lambda svc: 0
    return lambda svc: int(svc) % nsvc


def _events(lines):
    """-> list of dicts in log order:
       {kind: lookup, c, key, svc, t, hit}  |  {kind: done, c, k, out, t}  |  {kind: drop, c, k, t}
       {kind: result, c, res, t}
    plus the first structural complaint, if any"""
    evs = []
    parsed = [tparse(l) for l in lines]
    complaint = None
    ncalls = {}
    for i, (t, w) in enumerate(parsed):
        if not w:
            continue
        if w[0] == "req":
            kv = dict(x.split("=", 1) for x in w[2:] if "=" in x)
            nxt = parsed[i + 1][1] if i + 1 < len(parsed) else []
            hit = not (len(nxt) >= 2 and nxt[0] == "inner_call" and nxt[1] == w[1])
            evs.append({"kind": "lookup", "c": w[1], "key": int(kv.get("key", "0")), "svc": kv.get("svc", "0"),
                        "t": t, "hit": hit, "serial": (int(nxt[2]) if not hit else None), "pos": i})
        elif w[0] == "inner_call":
            ncalls[w[1]] = ncalls.get(w[1], 0) + 1
            prev = parsed[i - 1][1] if i > 0 else []
            if not (len(prev) >= 2 and prev[0] == "req" and prev[1] == w[1]) and complaint is None:
                complaint = "line %d: inner call of caller %s is not made inside its call() (%s)" % (i, w[1], lines[i])
            if ncalls[w[1]] > 1 and complaint is None:
                complaint = "line %d: caller %s reaches the inner service %d times" % (i, w[1], ncalls[w[1]])
        elif w[0] == "inner_done":
            evs.append({"kind": "done", "c": w[1], "k": int(w[2]), "out": w[3], "t": t, "pos": i})
        elif w[0] == "inner_drop":
            evs.append({"kind": "drop", "c": w[1], "k": int(w[2]), "t": t, "pos": i})
        elif w[0] == "result":
            evs.append({"kind": "result", "c": w[1], "res": w[2], "t": t, "pos": i})
        elif w[0] == "probe" and len(w) >= 2 and w[1] == "events":
            evs.append({"kind": "probe", "kv": dict(x.split("=", 1) for x in w[2:] if "=" in x), "t": t, "pos": i})
    return evs, complaint


# ----------------------------------------------------------------------------- monitor 1: hits return the latest unexpired value of the right key

def mon_hit_latest(case, lines, meta):
    """reference, per store: key -> (value, storedAt) of the latest Ok completion; needs no knowledge of victims"""
    mx, cap, policy, ttl = _cfg(case)
    store_of = _store_of(case)
    evs, complaint = _events(lines)
    if complaint:
        return complaint
    latest = {}         # (store, key) -> (value, storedAt)
    history = {}        # (store, key) -> [values ever stored]
    caller = {}         # c -> lookup event (+ snapshot of the reference at lookup time)
    serial_key = {}
    serial_store = {}
    ended = {}          # serial -> outcome
    for e in evs:
        if e["kind"] == "lookup":
            e["store"] = store_of(e["svc"])
            e["snap"] = latest.get((e["store"], e["key"]))
            caller[e["c"]] = e
            if not e["hit"]:
                serial_key[e["serial"]] = e["key"]
                serial_store[e["serial"]] = e["store"]
        elif e["kind"] == "done":
            ended[e["k"]] = e["out"]
            lk = caller.get(e["c"])
            if lk is None or lk["hit"] or lk["serial"] != e["k"]:
                return "inner call %d completes for caller %s which never made it" % (e["k"], e["c"])
            if e["out"] == "ok":
                latest[(lk["store"], lk["key"])] = (e["k"], e["t"])
                history.setdefault((lk["store"], lk["key"]), []).append(e["k"])
        elif e["kind"] == "result":
            lk = caller.get(e["c"])
            if lk is None:
                return "result for caller %s without a request" % e["c"]
            res = e["res"]
            if lk["hit"]:
                if not res.startswith("ok:"):
                    return "caller %s: no inner call was made, yet the result is %s" % (e["c"], res)
                v = int(res[3:])
                snap = lk["snap"]
                if v in ended and ended[v] != "ok":
                    return "caller %s: hit returns %d, the response of a failed inner call (errors must not be cached)" % (e["c"], v)
                if v in serial_key and serial_key[v] != lk["key"]:
                    return "caller %s: hit for key %d returns %d, which was produced for key %d" % (e["c"], lk["key"], v, serial_key[v])
                if v in serial_store and serial_store[v] != lk["store"]:
                    return ("caller %s (service %s): hit for key %d returns %d, a response stored through another service built from the "
                            "same plain CacheLayer value - each layer() call must have its own store" % (e["c"], lk["svc"], lk["key"], v))
                if snap is None:
                    return "caller %s: hit for key %d at t=%d although nothing had been stored for that key" % (e["c"], lk["key"], lk["t"])
                if v != snap[0]:
                    old = "an older value of the key" if v in history.get((lk["store"], lk["key"]), []) else "a value never stored for the key"
                    return "caller %s: hit for key %d at t=%d returns %d (%s); the latest stored value is %d (t=%d)" % (
                        e["c"], lk["key"], lk["t"], v, old, snap[0], snap[1])
                if ttl is not None and lk["t"] - snap[1] > ttl:
                    return "caller %s: hit for key %d at t=%d returns %d stored at t=%d, older than ttl=%d" % (
                        e["c"], lk["key"], lk["t"], v, snap[1], ttl)
            else:
                k = lk["serial"]
                want = {"ok": "ok:%d" % k, "panic": "panic"}.get(ended.get(k))
                if want is None and ended.get(k, "").startswith("err"):
                    want = "err:inner%s:%d" % (ended[k][3:], k)
                if want is None:
                    return "caller %s: result %s before its inner call %d finished" % (e["c"], res, k)
                if res != want:
                    return "caller %s: missed, its own inner call %d ended %s, but the result is %s" % (e["c"], k, ended[k], res)
    return None


# ----------------------------------------------------------------------------- monitor 2: size bound (no victim knowledge)

def mon_size(case, lines, meta):
    """every hit proves that its entry was in the store from the instant it was stored to the instant of the
    lookup; every store proves that its entry is in the store right afterwards. The number of distinct keys
    proved present at one point of the log must not exceed the capacity."""
    mx, cap, policy, ttl = _cfg(case)
    store_of = _store_of(case)
    evs, complaint = _events(lines)
    store_pos = {}     # value -> ((store, key), position of its inner_done)
    caller = {}
    intervals = []     # (from, to, (store, key))
    for e in evs:
        if e["kind"] == "lookup":
            caller[e["c"]] = e
        elif e["kind"] == "done" and e["out"] == "ok":
            lk = caller.get(e["c"])
            if lk is not None:
                sk = (store_of(lk["svc"]), lk["key"])
                store_pos[e["k"]] = (sk, e["pos"])
                intervals.append((e["pos"], e["pos"], sk))
        elif e["kind"] == "result":
            lk = caller.get(e["c"])
            if lk is not None and lk["hit"] and e["res"].startswith("ok:"):
                v = int(e["res"][3:])
                if v in store_pos:
                    intervals.append((store_pos[v][1], lk["pos"], store_pos[v][0]))
    points = sorted({a for a, _, _ in intervals} | {b for _, b, _ in intervals})
    for p in points:
        here = {k for a, b, k in intervals if a <= p <= b}
        for st in {s for s, _ in here}:
            present = {k for s, k in here if s == st}
            if len(present) > cap:
                return "at log line %d the keys %s are all in the cache (each is stored before and hit after that point): %d entries, max_size=%d" % (
                    p, sorted(present), len(present), mx)
    return None


# ----------------------------------------------------------------------------- monitor 3: the victim follows the policy (python reference stores)

class _Ref:
    """reference containers with the semantics of eviction.rs + store.rs; a state is a tuple of
    (key, inserted_at, count) in container order (LRU: most recent first; FIFO: oldest first)"""

    def __init__(self, policy, cap, ttl):
        self.policy, self.cap, self.ttl = policy, cap, ttl

    def get(self, st, key, now):
        """-> (hit, new state)"""
        for i, (k, ins, cnt) in enumerate(st):
            if k == key:
                if self.ttl is not None and now - ins > self.ttl:
                    return False, st[:i] + st[i + 1:]
                if self.policy == "lru":
                    return True, ((k, ins, cnt),) + st[:i] + st[i + 1:]
                if self.policy == "lfu":
                    return True, st[:i] + ((k, ins, cnt + 1),) + st[i + 1:]
                return True, st
        return False, st

    def insert(self, st, key, now):
        """-> list of (new state, evicted key or None, number of allowed victims)"""
        for i, (k, ins, cnt) in enumerate(st):
            if k == key:
                if self.policy == "lru":
                    return [(((k, now, cnt),) + st[:i] + st[i + 1:], None, 0)]
                if self.policy == "lfu":
                    return [(st[:i] + ((k, now, cnt + 1),) + st[i + 1:], None, 0)]
                return [(st[:i] + ((k, now, cnt),) + st[i + 1:], None, 0)]
        new = (key, now, 1)
        if len(st) >= self.cap and st:
            if self.policy == "lru":
                return [((new,) + st[:-1], st[-1][0], 1)]
            if self.policy == "fifo":
                return [(st[1:] + (new,), st[0][0], 1)]
            m = min(c for _, _, c in st)
            vs = [i for i, (_, _, c) in enumerate(st) if c == m]
            return [(st[:i] + st[i + 1:] + (new,), st[i][0], len(vs)) for i in vs]
        if self.policy == "lru":
            return [((new,) + st, None, 0)]
        return [(st + (new,), None, 0)]


def _policy_walk(case, lines):
    """runs the reference store(s) along the implementation log.
    -> (message or None, tags)"""
    mx, cap, policy, ttl = _cfg(case)
    store_of = _store_of(case)
    evs, _ = _events(lines)
    ref = _Ref(policy, cap, ttl)
    allc = {}           # store index -> set of candidate states
    caller = {}
    tags = []
    allrestored = {}    # store index -> keys whose expired entry was lazily removed at some point (a later store is a re-store)
    for e in evs:
        if e["kind"] in ("lookup", "done"):
            lk0 = e if e["kind"] == "lookup" else caller.get(e["c"])
            if lk0 is None:
                continue
            six = store_of(lk0["svc"])
            cands = allc.get(six, {()})
            restored = allrestored.setdefault(six, set())
        if e["kind"] == "lookup":
            caller[e["c"]] = e
            nxt = set()
            for st in cands:
                hit, st2 = ref.get(st, e["key"], e["t"])
                if hit == e["hit"]:
                    nxt.add(st2)
                    if len(st2) < len(st):
                        restored.add(e["key"])
                        i = [k for k, _, _ in st].index(e["key"])
                        if len(st) >= 3 and i != (0 if policy == "lru" else len(st) - 1):
                            tags.append("expired-removed-not-newest")
            if not nxt:
                what = "hit" if e["hit"] else "missed"
                shown = sorted(cands)[:3]
                return ("policy %s, max_size=%d, ttl=%s: caller %s %s key %d at t=%d, but under every allowed victim choice the "
                        "store then holds (key, inserted_at, count) = %s" % (policy, mx, ttl, e["c"], what, e["key"], e["t"], shown)), tags
            if len(nxt) < len({ref.get(st, e["key"], e["t"])[1] for st in cands}):
                tags.append("lfu-candidates-pruned")
            allc[six] = nxt
        elif e["kind"] == "done" and e["out"] == "ok":
            lk = caller.get(e["c"])
            if lk is None:
                continue
            nxt = set()
            for st in cands:
                for st2, victim, nallowed in ref.insert(st, lk["key"], e["t"]):
                    nxt.add(st2)
                    if victim is not None:
                        tags.append("evict-" + policy)
                        if len(st) > 8:
                            tags.append("evict-from-more-than-8-" + policy)
                        if any(k in restored for k, _, _ in st):
                            tags.append("evict-after-expiry-restore")
                        if nallowed > 1:
                            tags.append("lfu-tie")
            allc[six] = nxt
    return None, tags


def mon_policy(case, lines, meta):
    msg, _ = _policy_walk(case, lines)
    return msg


# ----------------------------------------------------------------------------- monitor 4: no needless miss while nothing can have been evicted

def mon_needless_miss(case, lines, meta):
    """as long as at most `capacity` distinct keys have ever been stored no eviction can have happened;
    a lookup of a key whose latest value is within its TTL must then hit"""
    mx, cap, policy, ttl = _cfg(case)
    store_of = _store_of(case)
    shared = int(kvs(case["header"]).get("shared", "0"))
    evs, _ = _events(lines)
    alllatest = {}      # store index -> key -> (value, storedAt, svc word of the request that stored it)
    caller = {}
    for e in evs:
        if e["kind"] == "lookup":
            caller[e["c"]] = e
            latest = alllatest.get(store_of(e["svc"]), {})
            snap = latest.get(e["key"])
            if not e["hit"] and snap is not None and len(latest) <= cap and (ttl is None or e["t"] - snap[1] <= ttl):
                how = ""
                if shared != 0 and snap[2] != e["svc"]:
                    how = " (stored through service %s of the same SharedCacheLayer value, requested on service %s: they must share the store)" % (snap[2], e["svc"])
                return "caller %s missed key %d at t=%d although value %d was stored at t=%d (ttl=%s) and only %d distinct keys were ever stored (max_size=%d)%s" % (
                    e["c"], e["key"], e["t"], snap[0], snap[1], ttl, len(latest), mx, how)
        elif e["kind"] == "done" and e["out"] == "ok":
            lk = caller.get(e["c"])
            if lk is not None:
                alllatest.setdefault(store_of(lk["svc"]), {})[lk["key"]] = (e["k"], e["t"], lk["svc"])
    return None


# ----------------------------------------------------------------------------- monitor 5: the listeners see every lookup

def mon_listeners(case, lines, meta):
    """`listen=1`: at every `probe events` the `on_hit` listener has fired once per lookup that did not reach the inner
    service, the `on_miss` listener once per inner call (a miss calls the wrapped service exactly once, a hit does not),
    whichever of the services built from the layer value served the request; the `on_eviction` listener has fired at
    most once per stored response, and at least once per store of a new key into a store that was provably full"""
    mx, cap, policy, ttl = _cfg(case)
    store_of = _store_of(case)
    evs, _ = _events(lines)
    ref = _Ref(policy, cap, ttl)
    hits = misses = oks = forced = 0
    allc = {}
    caller = {}
    for e in evs:
        if e["kind"] == "lookup":
            caller[e["c"]] = e
            hits += 1 if e["hit"] else 0
            misses += 0 if e["hit"] else 1
            six = store_of(e["svc"])
            nxt = {st2 for hit, st2 in (ref.get(st, e["key"], e["t"]) for st in allc.get(six, {()})) if hit == e["hit"]}
            allc[six] = nxt or {ref.get(st, e["key"], e["t"])[1] for st in allc.get(six, {()})}
        elif e["kind"] == "done" and e["out"] == "ok":
            lk = caller.get(e["c"])
            if lk is None:
                continue
            oks += 1
            six = store_of(lk["svc"])
            res = [r for st in allc.get(six, {()}) for r in ref.insert(st, lk["key"], e["t"])]
            if res and all(victim is not None for _, victim, _ in res) and mx >= 1:
                forced += 1
            allc[six] = {st2 for st2, _, _ in res}
        elif e["kind"] == "probe":
            kv = e["kv"]
            if "hit" not in kv:
                continue
            h, m, ev = int(kv["hit"]), int(kv["miss"]), int(kv["evict"])
            if h != hits or m != misses:
                return ("probe at t=%d: the listeners counted %d hits and %d misses, the log shows %d lookups served without an inner "
                        "call and %d inner calls" % (e["t"], h, m, hits, misses))
            if not (forced <= ev <= oks):
                return ("probe at t=%d: on_eviction fired %d times; %d responses were stored, %d of them new keys into a full store"
                        % (e["t"], ev, oks, forced))
    return None


# ----------------------------------------------------------------------------- coverage

def transitions(case, lines, meta=None):
    mx, cap, policy, ttl = _cfg(case)
    hdr = kvs(case["header"])
    us = hdr.get("tick") == "us"
    store_of = _store_of(case)
    evs, _ = _events(lines)
    tags = []
    latest = {}          # (store, key) -> (v, t, svc, pos)
    caller = {}
    inflight = {}        # serial -> ((store, key), position of the call)
    handles = {}         # (service, handle) -> number of calls made on it
    year = 365 * 86400 * (1000000 if us else 1000)
    huge = 100 * year    # a TTL no clock reading of a case exceeds
    if "max" not in hdr:
        tags.append("builder-default-max")
    if "policy" not in hdr:
        tags.append("builder-default-policy")
    if hdr.get("via") in ("new", "default"):
        tags.append("builder-via-" + hdr["via"])
    for op in case["ops"]:
        ws = op.split()
        if ws and ws[0] == "arrive":
            okv = dict(x.split("=", 1) for x in ws[2:] if "=" in x)
            if "h" in okv:
                hk = (okv.get("svc", "0"), okv["h"])
                handles[hk] = handles.get(hk, 0) + 1
                if handles[hk] == 2:
                    tags.append("handle-reused" if okv["h"] != "0" else "service-value-reused")
            if okv.get("lc") == "1":
                tags.append("layer-clone-requested")
    for e in evs:
        if e["kind"] == "probe":
            if "hit" in e["kv"]:
                tags.append("listeners-probed")
                if int(e["kv"]["evict"]) > 0:
                    tags.append("eviction-listener-fired")
            continue
        if e["kind"] == "lookup":
            caller[e["c"]] = e
            e["sk"] = (store_of(e["svc"]), e["key"])
            snap = latest.get(e["sk"])
            if not e["hit"] and snap is None and any(k == e["key"] and (ttl is None or e["t"] - v[1] <= ttl) for (_, k), v in latest.items()):
                tags.append("private-cross-miss")   # fresh in the store of another service of the same plain layer value
            if ttl == 0 and snap is not None:
                tags.append("ttl0-hit-same-instant" if e["hit"] and e["t"] == snap[1] else "ttl0-miss-later" if not e["hit"] and e["t"] > snap[1] else "ttl0-other")
            if ttl is not None and ttl >= huge and snap is not None and e["hit"]:
                tags.append("unreachable-ttl-hit")
                if hdr.get("ttl") == "max":
                    tags.append("ttl-max-hit")
                if e["t"] - snap[1] >= year:
                    tags.append("unreachable-ttl-hit-after-a-year")
            if e["hit"]:
                tags.append("hit")
                if snap is not None and ttl is not None and e["t"] - snap[1] == ttl:
                    tags.append("hit-at-ttl")
                    if us and ttl % 1000:
                        tags.append("us-hit-at-ttl-not-whole-ms")
                if snap is not None and snap[2] != e["svc"]:
                    tags.append("shared-cross-hit")
            else:
                if snap is None:
                    tags.append("miss-cold")
                elif ttl is not None and e["t"] - snap[1] > ttl:
                    tags.append("miss-expired")
                    if e["t"] - snap[1] == ttl + 1:
                        tags.append("miss-at-ttl+1")
                    if us and e["t"] - snap[1] < ttl // 1000 * 1000 + 1000:
                        tags.append("us-miss-expired-by-less-than-1ms")
                else:
                    tags.append("miss-evicted")
                if any(k == e["sk"] for k, _ in inflight.values()):
                    tags.append("concurrent-miss-same-key")
                inflight[e["serial"]] = (e["sk"], e["pos"])
        elif e["kind"] == "done":
            lk = caller.get(e["c"])
            call = inflight.pop(e["k"], None)
            if e["out"] == "ok" and lk is not None:
                snap = latest.get(lk["sk"])
                tags.append("store-new-key" if snap is None else "store-again")
                if snap is not None and call is not None and snap[3] > call[1]:
                    tags.append("overwrite-by-later-completion")
                latest[lk["sk"]] = (e["k"], e["t"], lk["svc"], e["pos"])
            elif e["out"] == "panic":
                tags.append("panic-not-cached")
            else:
                tags.append("err-not-cached")
        elif e["kind"] == "drop":
            inflight.pop(e["k"], None)
            tags.append("dropped-pending")
    _, ptags = _policy_walk(case, lines)
    if "max" not in hdr and any(t in ("evict-lru", "evict-lfu", "evict-fifo") for t in ptags):
        tags.append("evict-at-default-max")      # the 101st key into a store built without a `max_size` call
    return tags + ptags


def nontrivial(case, lines, tags):
    s = set(tags)
    return "hit" in s and bool(s & {"miss-evicted", "miss-expired", "concurrent-miss-same-key", "overwrite-by-later-completion",
                                    "evict-lru", "evict-lfu", "evict-fifo", "hit-at-ttl"})


LEVEL_NOTE = ("Trusted: Lean kernel; the transcription of lru::LruCache (get promotes, push replaces+promotes, tail evicted), of the "
              "HashMap/VecDeque containers and of the TTL layer in TR.Model.Cache, validated only by the sampled correspondence check; "
              "the harness (virtual std::time::Instant by clock_gettime interposition, manual poller, scripted inner service) and the python "
              "diff/monitors. The LFU victim among minimum-count ties (hash-map order) is an input of the model: the driver keeps every "
              "model state reachable under some allowed victim sequence and prunes by the observed hit/miss of each lookup; the theorems "
              "hold for every allowed choice. lru::LruCache and std HashMap themselves are not verified. max_size=0 (outside the property) "
              "is modelled as the containers clamp it (LRU 100, LFU/FIFO 1) and sampled, the theorems assume max_size >= 1.")

SPECS = {
    "C10": {
        "group": "cache",
        "module": "TR.Props.C10",
        "gen": gen,
        "monitors": [("c10-hit-is-latest-right-key-unexpired", mon_hit_latest),
                     ("c10-size-bound", mon_size),
                     ("c10-victim-by-policy", mon_policy),
                     ("c10-no-needless-miss", mon_needless_miss),
                     ("c10-listeners-count-lookups", mon_listeners)],
        "transitions": transitions,
        "nontrivial": nontrivial,
        "all_transitions": ["hit", "miss-cold", "miss-expired", "miss-evicted", "hit-at-ttl", "miss-at-ttl+1", "store-new-key",
                            "store-again", "overwrite-by-later-completion", "concurrent-miss-same-key", "err-not-cached",
                            "panic-not-cached", "dropped-pending", "shared-cross-hit", "evict-lru", "evict-lfu", "evict-fifo",
                            "lfu-tie", "lfu-candidates-pruned", "expired-removed-not-newest", "evict-after-expiry-restore",
                            "us-miss-expired-by-less-than-1ms", "us-hit-at-ttl-not-whole-ms", "evict-from-more-than-8-lru",
                            "evict-from-more-than-8-lfu", "evict-from-more-than-8-fifo",
                            "ttl0-hit-same-instant", "ttl0-miss-later", "unreachable-ttl-hit", "ttl-max-hit", "unreachable-ttl-hit-after-a-year",
                            "private-cross-miss", "handle-reused", "service-value-reused",
                            "layer-clone-requested", "listeners-probed", "eviction-listener-fired", "builder-default-max", "builder-default-policy",
                            "builder-via-new", "builder-via-default", "evict-at-default-max"],
        "model_modules": ["TR.Model.Cache", "TR.Lemmas.Cache", "TR.Lemmas.CacheFifo", "TR.Lemmas.CacheTtl", "TR.Lemmas.CacheLayer",
                          "TR.Lemmas.CacheLog", "TR.Lemmas.CacheRecency", "TR.Lemmas.CacheResult", "TR.Lemmas.CacheSince", "TR.Lemmas.CacheWhen"],
        "lean_files": ["TR.Model.Cache", "TR.Lemmas.Cache", "TR.Lemmas.CacheFifo", "TR.Lemmas.CacheTtl", "TR.Lemmas.CacheLayer",
                          "TR.Lemmas.CacheLog", "TR.Lemmas.CacheRecency", "TR.Lemmas.CacheResult", "TR.Lemmas.CacheSince", "TR.Lemmas.CacheWhen"],
        "sizes": (720, 40000),
        "rule": "seeded random op sequences (arrive key=1..6 / poll / drop / adv / settle) against the real CacheLayer and SharedCacheLayer "
                "(two services), policy lru/lfu/fifo, max_size 1..4 (2% max_size=0), ttl none/1..10/20..60 ms, inner latency 0..20 ms with "
                "ok/err/panic/never, keys biased to in-flight and recent ones (concurrent misses, re-inserts), advances biased to "
                "completion and completion+ttl -1/0/+1, a final read-back of the key space; every inner response carries a fresh serial. "
                "8% expired-entry-whose-refresh-fails scenarios; 12% expiry/re-store/evict scenarios (max_size 2..5, any policy, store "
                "filled at staggered instants, inserted_at sometimes refreshed by a late concurrent completion, advance so that a "
                "non-newest subset has expired, some expired keys requested again in any order, new keys forcing evictions, read-back "
                "of every key, survivors first; one or two rounds; 15% of them with 1 us ticks). "
                "8% of the random walks and 8% dedicated scenarios run with `tick=us` (one clock tick = 1 us, the cache is timed by "
                "std::time::Instant alone; inner latency 0, completions timed by late polls): TTLs of whole milliseconds, milliseconds + "
                "a fraction, below 1 ms; entries stamped at arbitrary microseconds; lookups at ages ttl-1 / ttl / ttl+1 us, strictly "
                "between the TTL and the next whole millisecond, at the millisecond boundaries around the TTL. "
                "7% big-cache scenarios (max_size 9..40, any policy, sometimes a TTL with staggered stamps): fill, unequal uses that "
                "leave a unique LFU / LRU / FIFO victim (LFU counts 1,2,3 at the low end, 25% a two-way tie; ties wider than two are "
                "narrowed before an eviction), 1-4 new keys (a new LFU entry is usually lifted above the next old one), read-back of "
                "the entries next in line, of some others and of the presumed victims (8% of them without a max_size call: the "
                "builder's default of 100 entries, the 101st key evicts). "
                "TTL 0 (`Duration::ZERO`, a TTL, not 'no TTL') is a generated value: 8% of the TTLs of the random walks, 7% of the "
                "microsecond TTLs, and 3% dedicated scenarios (requests at the same instant and 1 tick / many ticks later, ms and us). "
                "Unreachable TTLs ('never expires') are generated values: 6% of the TTLs of the random walks and 3% dedicated scenarios "
                "use `ttl=max` (Duration::MAX) or tick counts around 2^63 ns, 2^64 ns, centuries, 2^63 s -1000..+1 s (where Instant + ttl "
                "stops being representable), u64::MAX s; advances of ticks, minutes, a day, a year; ms and us ticks. "
                "Construction paths and handles, in every scenario family: 2-3 services built from ONE layer value, lazily, some from a "
                "clone of the layer value taken after other services were used (`svc=k`, `lc=1`) - a SharedCacheLayer "
                "(SharedCacheLayer::builder() or CacheLayer::shared()) must serve them from one store, a plain CacheLayer (40% of the "
                "private random walks) from one store per service; calls on a fresh clone of the service, on the service value itself "
                "again and again (`h=0`), on a clone taken once and reused (`h=j`); builder through builder() / new() / "
                "Default::default(), with or without .name(), with or without max_size / eviction_policy calls (documented defaults "
                "100 / LRU); 25% with on_hit / on_miss / on_eviction listeners (plain and shared builder) whose counts are compared "
                "with the model at `probe events` points. "
                "distinct = distinct implementation event log; non-trivial = at least one hit and an eviction, an expiry, a hit exactly at "
                "the TTL, concurrent misses on one key or an overwrite by a later completion",
        "level_text": "Theorems TR.Props.C10.{size_bounded, keys_unique, store_refines_spec, stored_only_by_ok_completion, hit_is_latest, "
                      "hit_right_key, hit_no_inner_call, hit_result, miss_calls_once, only_arrive_calls, inner_call_at_most_once, "
                      "errors_not_cached, cached_values_are_ok_responses, completion_inserts, victim_lru, victim_fifo, victim_lfu, "
                      "no_eviction_otherwise, ttl_boundary_exact, expiry_is_unit_free, victim_lfu_unique_min, fifo_queue_step, fifo_survivors_keep_order, fifo_queue_in_creation_order, "
                      "victim_fifo_oldest_stored, cap_is_max, ttl_zero_served_only_at_store_instant, zero_ttl_is_not_no_ttl, "
                      "stores_step_independently, request_on_other_service_leaves_store_alone, poll_of_other_service_leaves_store_alone, "
                      "shared_layer_one_store, private_layer_store_per_service, size_bounded_per_store, hit_is_latest_per_store, "
                      "builder_defaults_ok, read_is_two_phase, promote_then_remove_is_remove, two_phase_read_is_one_phase, "
                      "present_unexpired_key_hits, present_key_hits_without_ttl, present_key_hits_while_clock_within_ttl, "
                      "present_key_hits_while_advances_within_ttl, max_ttl_never_expires, absent_key_misses, echo_determines_request, "
                      "log_bookkeeping, call_key_is_request_key, spec_map_is_last_ok_completion, "
                      "hit_returns_last_stored_response_of_its_key, hit_has_request_in_log, miss_returns_own_response, "
                      "lru_order_is_log_recency, victim_lru_log, one_result_per_caller, insertion_is_unique, "
                      "lfu_count_is_accesses_since_insertion, lfu_count_step, victim_lfu_log, fifo_queue_is_insertion_order, "
                      "victim_fifo_first_inserted, clock_is_sum_of_advances, hit_not_older_than_ttl_in_history, "
                      "hit_returns_last_stored_response_per_store, victim_lru_log_per_store}: "
                      "for every operation sequence (any key space, any interleaving of lookups, "
                      "completions, cancellations and time advances, concurrent misses on one key), every policy, every max_size >= 1, TTL "
                      "absent or any value, every LFU victim choice: the store never exceeds max_size and holds no key twice; it refines the "
                      "specification map key -> (value, instant) of the latest Ok completion; a hit returns exactly that value, stored no "
                      "longer than ttl ago, produced for that key by an Ok completion, without an inner call; a miss makes exactly one inner "
                      "call; errors/panics store nothing; a new key into a full store removes the least-recently-used / first-inserted / a "
                      "minimum-count entry and nothing else (of a store of any size; a unique minimum-count entry leaves no choice); a stored key "
                      "is served while its age is <= ttl clock ticks and not one tick longer, whatever the length of a tick (the expiry test "
                      "commutes with a change of unit); under FIFO every operation either leaves the queue slots alone, deletes exactly the "
                      "slot of the expired entry it read (front, middle or back; the others keep their order), or appends a newly created "
                      "entry at the back (after popping the front when full), so after any interleaving of expiry-removals and re-stores the "
                      "victim is the front of the queue = the entry stored longest without interruption; with a TTL of zero a stored key is served "
                      "at the instant of its store only and misses as soon as it has any age (a different configuration from 'no TTL'); with a TTL "
                      "the clock has not reached (ttl >= sum of the advances; Duration::MAX, 2^63 s, ...) a present key always hits, as without a TTL; the "
                      "stores of several services built from a plain CacheLayer value are independent (an operation steps the store it "
                      "concerns and leaves every other store exactly as it was; each store satisfies every statement above on its own), a "
                      "shared layer has one store that sees the whole history. The ghost maps are functions of the event log the correspondence check "
                      "compares (the echo line determines caller, key and service; callKey v = k iff the log shows inner_call c v of a caller "
                      "whose echo has key k; the specification map holds v for k iff the LAST inner_done _ v ok of a caller whose echo has "
                      "key k carries v), and the clauses are restated over the log alone: a caller answered ok:v without an inner call of "
                      "its own got the response of the last inner call for its key that completed Ok before its request, in log order, "
                      "a response of a call made for that key and for no other; a miss gets the response of its own call; one result per "
                      "caller; under LRU the container is sorted by recency in the log (access = echo of a request served from the cache "
                      "or successful completion for the key) and the victim is the resident key accessed least recently; under LFU an "
                      "entry's count is the number of accesses of its key among the log lines written since the operation that inserted "
                      "it; under FIFO the queue is in the order of the inserting operations and the victim is the key inserted first; the clock is the sum of the advances and a hit's value was stored by a completing "
                      "operation of the history since which the advances sum to at most the TTL. The "
                      "read path is modelled in the code's two phases (container get, then expiry test and remove) and promote-then-remove "
                      "= remove is proved. Proved by inductive invariants over all histories. The model is tied to the "
                      "real CacheLayer / SharedCacheLayer by line-for-line agreement of event logs on generated histories.",
        "level_note": LEVEL_NOTE,
        "trusted": ["lru::LruCache / HashMap / VecDeque semantics as transcribed in TR.Model.Cache (sampled by the correspondence check)",
                    "harness: clock_gettime interposition (std::time::Instant is virtual), manual poller, scripted inner service",
                    "python diff/monitors"],
        "assumptions": ["one call()/one poll of one call future is atomic (the store mutex is never held across an await)",
                        "usize modelled as unbounded Nat; TTL and all instants are whole clock ticks (1 ms, or 1 us in `tick=us` cases)",
                        "theorems assume max_size >= 1 (the property's quantifier)",
                        "several services: the stores are modelled as independent copies of the single-store model, each run on the "
                        "operations that concern it; the inner-call serial numbers of a case are a renaming of each store's own serials "
                        "(done by the driver); listeners (hit/miss/eviction counts) are tracked by the driver only, not by the theorems"],
    },
}
