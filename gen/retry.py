"""C05 — retry: generator, implementation-side monitors.

header: retry [max=N] [dyn=1] [retry=<bitmask of retryable kinds>] [bo=fixed:D|exp:D|fn:a,b,…] [unit=us]
              [budget=bucket:<max>:<initial> | aimd:<min>:<max>:<dep>:<wd>:<q>]
        back-off values D are milliseconds, microseconds with unit=us, or `max` (= Duration::MAX); the op clock
        (adv, t=, inner latencies) is always in milliseconds
   or:  retry chain=<s1,s2,…> [unit=us]   the builder chain itself, left to right: m<n> = max_attempts(n), f<n> =
        max_attempts_fn (the request's ma=, else <n>), bf<D> / be<D> / bt<D>/<D>/… = fixed_backoff / exponential_backoff /
        backoff(table), p<mask> = retry_on, ubucket:… / uaimd:… = budget(a new one); `chain=-` = no setter. Every setting
        is the one set LAST (max_attempts and max_attempts_fn set the same thing, as do the three back-off setters).
        interval-function objects handed to .backoff(..), every public constructor (bo= kind / chain item):
          ifixed:<D> / bi<D>                     FixedInterval::new(D)
          iexp:<D>_<p>_<q>_<cap> / bx…           ExponentialBackoff::new(D).multiplier(p/q).max_interval(cap)
          rand:<D>_<pct>_<p>_<q>_<cap> / br…     ExponentialRandomBackoff::new(D, pct/100).multiplier(p/q).max_interval(cap)
        (a field `-` or absent = setter not called); their answers are observed: `#bo <retry index> <ns>` meta lines
        budgets through RetryBudgetBuilder: bucket:<max>:<initial>[:<tps>], aimdb:<min>:<max>:<dep>:<wd>:<q> (`-` = the
        builder's default: 100 / =max / 10 / 1000 / 1 / 1 / factor 0.5)
        chain item n<name> = .name(..); via=exponential_backoff|aggressive|conservative: the chain starts from that preset
        ready=<script of r/p/e>: the inner service's answers to the readiness polls between attempts; rec=<ms>: an instance
        answers Pending until <ms> after the call it last served
ops:    arrive <c> [ma=N] [svc=<k>] [lclone=1] [h=same|clone] inner=<lat>:<out>,…   poll/drop/adv/settle
        probe balance|limit   manual deposit|withdraw
log:    besides inner_call / inner_done / inner_drop / result / probe: `budget <c> grant|refused` — the answer of the budget
        to a try_withdraw made by the loop of request c (logged by a wrapper around the budget handed to the layer); meta
        `#budget_exhausted <attempt>` — the layer's BudgetExhausted listener event
"""
import re
from gen.util import kvs, tparse


# ------------------------------------------------------------------------------ generator

def _plan(rng, n):
    parts = []
    for i in range(n):
        lat = rng.choice([0, 0, 0, 0, 1, 3, 5, rng.randint(0, 12)])
        r = rng.random()
        if r < 0.22:
            out = "ok"
        elif r < 0.90:
            out = "err%d" % rng.choice([1, 1, 1, 2, 3])
        elif r < 0.95:
            out = "panic"
        else:
            out = "never"
        parts.append("%d:%s" % (lat, out))
    return ",".join(parts)


def gen(rng, tier):
    words = ["retry"]
    use_chain = rng.random() < 0.5       # the settings below are written as a builder chain (any order, overridden setters)
    mx = rng.choice([None, 0, 1, 2, 2, 3, 3, 4, 5, 6])
    if mx is not None:
        words.append("max=%d" % mx)
    dyn = rng.random() < 0.3
    if dyn:
        words.append("dyn=1")
    if rng.random() < 0.7:
        words.append("retry=%d" % rng.choice([0, 2, 2, 2, 4, 6, 10, 14, 14]))
    r = rng.random()
    # one in three configurations has back-offs with sub-millisecond resolution (unit=us); a few have a
    # Duration::MAX-like value (`max`, or the largest u64 of the unit) somewhere
    us = rng.random() < 0.34
    huge = rng.random() < 0.10

    def val(pool):
        if huge and rng.random() < 0.4:
            return rng.choice(["max", "max", str(2 ** 64 - 1)])
        return str(rng.choice(pool))

    bo_us = []        # the finite configured delays, in µs (advances are biased to them)
    if r < 0.06:
        bo_us = [100000, 200000, 400000]
    elif rng.random() < 0.30:
        # an interval-function object built through its own constructor and setters (observed: jittered / float-computed)
        word = _gen_interval(rng, us)
        words.append("bo=" + word)
        bo_us = _interval_points(word, us)
    elif r < 0.40:
        if us:
            d = val([0, 1, 500, 900, 999, 1000, 1001, 1500, 2250, 2999, 10500, rng.randint(1, 6000)])
        else:
            d = val([0, 0, 1, 5, 10, rng.randint(1, 30)])
        words.append("bo=fixed:%s" % d)
        bo_us = [_us(d, us)]
    elif r < 0.70:
        if us:
            d = rng.choice([0, 1, 300, 500, 900, 999, 1000, 1001, 1500, rng.randint(1, 4000)])
        else:
            d = rng.choice([0, 1, 2, 3, 5, 7, rng.randint(1, 50)])
        if huge and rng.random() < 0.4:
            d = "max"                  # saturates: every delay is Duration::MAX
        words.append("bo=exp:%s" % d)
        bo_us = [min(_us(d, us) * 2 ** k, DUR_MAX_US) for k in range(4)]
    else:
        if us:
            t = [val([0, 0, 1, 400, 900, 999, 1000, 1001, 1500, 3000, 2250, rng.randint(0, 5000)])
                 for _ in range(rng.randint(0, 5))]
        else:
            t = [val([0, 0, 1, 3, 10, rng.randint(0, 25)]) for _ in range(rng.randint(0, 5))]
        words.append("bo=fn:" + ",".join(t))
        bo_us = [_us(x, us) for x in t] or [0]
    if us:
        words.append("unit=us")
    # advances (ms) around the configured delays: the last whole ms before, and the first at/after the deadline
    bo_vals = []
    for x in bo_us:
        if x < 10 ** 9:
            bo_vals += [x // 1000, -(-x // 1000)]
    bo_vals = bo_vals or [0]
    r = rng.random()
    budget = None
    if r < 0.35:
        pass
    elif r < 0.70:
        m = rng.choice([0, 1, 1, 2, 3, 4])
        i = rng.choice([0, 1, m, m, max(0, m - 1), m + 1, m + 2])
        budget = "bucket:%d:%d" % (m, i)
    else:
        mn = rng.choice([0, 1, 1, 2, 3])
        mxb = mn + rng.choice([0, 1, 2, 3, 5])
        budget = "aimd:%d:%d:%d:%d:%d" % (mn, mxb, rng.choice([0, 1, 1, 2, 3]), rng.choice([0, 1, 1, 2, 3]),
                                         rng.choice([0, 1, 2, 2, 3, 4]))
    if budget and rng.random() < 0.35:
        budget = _via_budget_builder(rng, budget)
    if budget:
        words.append("budget=" + budget)
    if use_chain:
        chain = _gen_chain(rng, words[1:], us)
        words = ["retry", "chain=" + chain] + (["unit=us"] if us else [])
        if rng.random() < 0.12:
            words.append("via=" + rng.choice(list(PRESETS)))
        eff = parse_chain(chain, kvs(" ".join(words)).get("via"))
        dyn = eff["dyn"]
        budget = eff["budget"]
        bo_vals = sorted(set(bo_vals + _bo_vals(eff["bo"], us and not eff.get("bo_ms"))))
    elif rng.random() < 0.05:
        words.append("name=" + rng.choice(["r1", "payments", "x"]))
    # the inner service's readiness between attempts: scripted answers (at most 6 pending ones: the poller re-polls a
    # self-waking future 8 times), and / or a recovery time of the instance after every call
    if rng.random() < 0.14:
        if rng.random() < 0.75:
            n = rng.randint(1, 6)
            sc = [rng.choice("rrrrpee") for _ in range(n)]
            while sc.count("p") > 6:
                sc[sc.index("p")] = "r"
            words.append("ready=" + "".join(sc))
        if rng.random() < 0.45 or not any(w.startswith("ready=") for w in words):
            words.append("rec=%d" % rng.choice([1, 2, 3, 5, 8, rng.randint(1, 12)]))
    rec = int(kvs(" ".join(words)).get("rec", "0"))
    if rec:
        bo_vals = sorted(set(bo_vals + [rec, max(0, rec - 1)]))
    header = " ".join(words)

    ncall = rng.choice([1, 1, 2, 2, 3, 3, 4, 4, 5, 6])
    pending = list(range(1, ncall + 1))
    arrived = []
    ops = []
    nsteps = rng.randint(6, 40)
    for _ in range(nsteps):
        r = rng.random()
        if pending and (r < 0.22 or not arrived):
            c = pending.pop(0)
            kw = ""
            if dyn and rng.random() < 0.85:
                kw = " ma=%d" % rng.choice([0, 1, 2, 3, 3, 4, 5, 7])
            elif not dyn and rng.random() < 0.1:
                kw = " ma=%d" % rng.randint(0, 6)      # ignored by a fixed max_attempts
            n = rng.choice([0, 1, 2, 3, 4, 5, 6, 8])
            # which service of the one layer value / which handle the request is made through
            if rng.random() < 0.25:
                kw += " svc=%d" % rng.choice([0, 1, 1, 2])
                if rng.random() < 0.3:
                    kw += " lclone=1"
            if rng.random() < 0.2:
                kw += " h=" + rng.choice(["same", "same", "clone"])
            ops.append("arrive %d%s inner=%s" % (c, kw, _plan(rng, n)))
            arrived.append(c)
            if rng.random() < 0.6:
                ops.append("poll %d" % c)
        elif r < 0.55 and arrived:
            ops.append("poll %d" % rng.choice(arrived))
        elif r < 0.59 and arrived:
            ops.append("drop %d" % rng.choice(arrived))
        elif r < 0.80:
            base = rng.choice(bo_vals * 3 + [0, 1, 2, 3, 5, 12])
            d = max(0, base + rng.choice([-1, 0, 0, 0, 0, 0, 0, 1]))
            ops.append("adv %d" % d)
            if rng.random() < 0.6:
                ops.append("settle")
        elif r < 0.86:
            ops.append("settle")
        elif r < 0.93:
            ops.append("probe " + rng.choice(["balance", "balance", "limit", "nonsense"]))
        else:
            ops.append("manual " + rng.choice(["deposit", "deposit", "withdraw", "withdraw", "nonsense"]))
    if rng.random() < 0.7:
        for _ in range(rng.randint(1, 4)):
            ops.append("adv %d" % rng.choice(bo_vals + [1, 5, 50]))
            ops.append("settle")
    ops.append("probe balance")
    if budget and budget.startswith("aimd"):
        ops.append("probe limit")
    return {"header": header, "ops": ops}


# ------------------------------------------------------------------------------ interval-function objects

PRESETS = {"exponential_backoff": (3, 100), "aggressive": (5, 50), "conservative": (2, 500)}   # max_attempts, initial ms
HUGE = ["max", "max", str(2 ** 64 - 1), str(2 ** 63), str(2 ** 62 + 12345)]


def _gen_interval(rng, us):
    """`ifixed:<d>` / `iexp:<d>_<p>_<q>_<cap>` / `rand:<d>_<pct>_<p>_<q>_<cap>`; every third one with a huge initial
    interval / maximum (`Duration::MAX`, 2^64-1, 2^63 of the unit) so that the capped exponential saturates"""
    small = [0, 1, 500, 900, 999, 1000, 1001, 1500, 2500, rng.randint(1, 6000)] if us else [0, 1, 2, 3, 5, 10, rng.randint(1, 40)]
    if rng.random() < 0.25:
        # "park instead of retrying": the initial interval is Duration::MAX, so the capped exponential is saturated from
        # the first retry on (2^64 s does not fit a Duration: the top clamp of every conversion is what is exercised)
        mult = rng.choice(["-_-", "-_-", "2_1", "1_1", "3_2", "10_1"])
        cap = rng.choice(["-", "-", "max", "max", str(rng.choice(small))])
        r = rng.random()
        if r < 0.1:
            return "ifixed:max"
        if r < 0.25:
            return "iexp:max_%s_%s" % (mult, cap)
        return "rand:max_%d_%s_%s" % (rng.choice([0, 0, 0, 1, 10, 50, 50, 90, 100]), mult, cap)
    huge = rng.random() < 0.2
    d = rng.choice(HUGE) if huge and rng.random() < 0.8 else str(rng.choice(small))
    r = rng.random()
    if r < 0.15:
        return "ifixed:" + d
    mult = rng.choice(["-", "-", "2_1", "3_2", "1_1", "5_4", "10_1", "4_1"])
    cap = "-"
    rc = rng.random()
    if rc < 0.2:
        cap = "max"
    elif rc < 0.45 and d.isdigit() and int(d) < 10 ** 9:
        cap = str(rng.choice([int(d) * 3, int(d) * 2 + 1, max(int(d) - 1, 0), int(d), int(d) * 10 + 7]))
    elif rc < 0.5:
        cap = rng.choice(HUGE)
    tail = "_".join([mult if mult != "-" else "-_-", cap])
    if r < 0.40:
        return "iexp:%s_%s" % (d, tail)
    pct = rng.choice([0, 0, 0, 10, 50, 50, 100, rng.randint(1, 99)])
    return "rand:%s_%d_%s" % (d, pct, tail)


def _ivl(word, us):
    """-> None (an exact builder shortcut / table) or {"init","p","q","cap","pct"} in ns (pct None: not jittered;
    ifixed: p = q = 1, no cap) — what the word asks the constructors and setters for"""
    kind, _, arg = word.partition(":")
    if kind == "ifixed":
        return {"init": _ns(arg, us), "p": 1, "q": 1, "cap": None, "pct": None, "exact": True}
    if kind not in ("iexp", "rand"):
        return None
    fs = arg.split("_")
    o = 1 if kind == "rand" else 0

    def f(i):
        return fs[i] if i < len(fs) and fs[i] not in ("-", "") else None
    p, q = 2, 1
    if f(1 + o) is not None:
        p = int(f(1 + o)) if f(1 + o).isdigit() else 0
        q = int(f(2 + o)) if (f(2 + o) or "").isdigit() else 1
    cap = _ns(f(3 + o), us) if f(3 + o) is not None else None
    pct = None
    if kind == "rand":
        pct = min(100, int(f(1))) if (f(1) or "").isdigit() else 50
    return {"init": _ns(fs[0] if fs else "0", us), "p": p, "q": q, "cap": cap, "pct": pct, "exact": False}


def _envelope(iv, k):
    """[lo, hi] in ns of what the object may answer for retry k: the capped exponential in exact arithmetic, within the
    float tolerance (2^-40 relative + 1 ns); jitter: within the randomization factor of it, never above Duration::MAX"""
    cap = DUR_MAX_NS if iv["cap"] is None else iv["cap"]
    x = min(iv["init"] * iv["p"] ** k // max(iv["q"], 1) ** k, cap) if iv["q"] else 0
    if iv.get("exact"):
        return x, x, x
    tol = x // 2 ** 40 + 1
    if iv["pct"] is None:
        return max(0, x - tol), min(x + tol, cap), x
    f = iv["pct"]
    return max(0, x * (100 - f) // 100 - tol - 1), min(x * (100 + f) // 100 + (2 * x) // 2 ** 40 + 2, DUR_MAX_NS), x


def _interval_points(word, us):
    """finite delays (µs) the advances are biased to: the ends and the middle of the envelopes of the first retries"""
    iv = _ivl(word, us)
    out = []
    for k in range(3):
        lo, hi, x = _envelope(iv, k)
        out += [v // 1000 for v in (lo, x, hi) if v < 10 ** 15]
    return out or [0]


def _via_budget_builder(rng, budget):
    """the same budget through RetryBudgetBuilder, some setters left at the builder's defaults (`-`)"""
    kind, _, arg = budget.partition(":")
    p = arg.split(":")
    if kind == "bucket":
        r = rng.random()
        if r < 0.3:
            return "bucket:-:%s:%d" % (p[1] if rng.random() < 0.6 else "-", rng.choice([0, 1, 10, 50]))
        return "bucket:%s:%s:%d" % (p[0], p[1] if rng.random() < 0.7 else "-", rng.choice([0, 1, 10, 50]))
    mn, mx = int(p[0]), int(p[1])
    f = list(p)
    if rng.random() < 0.3:
        f[1] = "-"                     # max 1000
    elif mx >= 10 and rng.random() < 0.5:
        f[0] = "-"                     # min 10 (only with max >= 10: AimdBudget::new panics on min > max)
    if f[1] != "-" and int(f[1]) < 10 and f[0] == "-":
        f[0] = p[0]
    for i in (2, 3, 4):
        if rng.random() < 0.35:
            f[i] = "-"
    return "aimdb:" + ":".join(f)


# ------------------------------------------------------------------------------ builder chains

def parse_chain(text, via=None):
    """the configuration a builder chain asks for: every setting is the one set last (`max_attempts` and
    `max_attempts_fn` set the same setting, so do the back-off setters); defaults: 3 attempts, every error
    retried, exponential back-off from 100 ms, no budget; a preset (`via`) is the builder with `max_attempts` and
    `exponential_backoff` already set (layer.rs). Stated from the builder's documentation, not from the Lean
    model. -> {"max", "dyn", "mask", "bo" (as the header word bo=), "budget" (as budget=), "order": [...] }"""
    cfg = {"max": 3, "dyn": False, "mask": None, "bo": None, "budget": None, "order": [], "bo_ms": False, "name": None}
    if via in PRESETS:
        cfg["max"], cfg["bo"], cfg["bo_ms"] = PRESETS[via][0], "exp:%d" % PRESETS[via][1], True    # always milliseconds
        cfg["order"] += ["max_attempts", "backoff"]
    for it in text.split(","):
        if not it.isascii():
            continue
        h1, a1, h2, a2 = it[:1], it[1:], it[:2], it[2:]
        if h1 in ("m", "f") and a1.isdigit():
            cfg["max"], cfg["dyn"] = int(a1), h1 == "f"
            cfg["order"].append("max_attempts_fn" if h1 == "f" else "max_attempts")
        elif h1 == "p" and a1.isdigit():
            cfg["mask"] = int(a1)
            cfg["order"].append("retry_on")
        elif h2 in ("bf", "be", "bt", "bi", "bx", "br"):
            cfg["bo"] = {"bf": "fixed", "be": "exp", "bt": "fn", "bi": "ifixed", "bx": "iexp", "br": "rand"}[h2] + ":" + a2.replace("/", ",")
            cfg["bo_ms"] = False
            cfg["order"].append("backoff")
        elif h1 == "n":
            cfg["name"] = a1
        elif h1 == "u" and a1.partition(":")[0] in ("bucket", "aimd", "aimdb"):
            cfg["budget"] = a1
            cfg["order"].append("budget")
    return cfg


def _bo_vals(bo, us):
    """advance values (ms) around the delays of a back-off word"""
    if bo is None:
        return [100, 200]
    kind, _, arg = bo.partition(":")
    if kind == "fixed":
        ds = [_us(arg, us)]
    elif kind == "exp":
        ds = [min(_us(arg, us) * 2 ** k, DUR_MAX_US) for k in range(4)]
    elif kind in ("ifixed", "iexp", "rand"):
        ds = _interval_points(bo, us)
    else:
        ds = [_us(x, us) for x in arg.split(",") if x]
    out = []
    for x in ds:
        if x < 10 ** 9:
            out += [x // 1000, -(-x // 1000)]
    return out


def _item(word):
    """a classic header word as the chain item that asks for the same thing"""
    k, _, v = word.partition("=")
    if k == "retry":
        return "p" + v
    if k == "budget":
        return "u" + v
    if k == "bo":
        kind, _, arg = v.partition(":")
        return {"fixed": "bf", "exp": "be", "ifixed": "bi", "iexp": "bx", "rand": "br"}.get(kind, "bt") + arg.replace(",", "/")
    return None


def _noise(rng, us):
    """one more setter with values of its own (overridden if it comes to stand before another of its setting)"""
    r = rng.random()
    if r < 0.30:
        return "m%d" % rng.choice([0, 1, 2, 2, 3, 4, 7])
    if r < 0.55:
        return "f%d" % rng.choice([0, 1, 2, 3, 4, 5, 6])
    if r < 0.75:
        d = rng.choice([0, 1, 500, 999, 1001, 2250] if us else [0, 1, 2, 5, 10])
        return rng.choice(["bf%d" % d, "be%d" % d, "bt%d/%d" % (d, rng.choice([0, 1, 3])), "bt", "bi%d" % d,
                           "bx%d_3_2_-" % d, "br%d_%d" % (d, rng.choice([0, 50]))])
    if r < 0.88:
        return "p%d" % rng.choice([0, 2, 6, 8, 14])
    if r < 0.94:
        return rng.choice(["ubucket:%d:%d" % (m, i) for m in (0, 1, 3) for i in (0, 1, 4)]
                          + ["uaimd:0:2:1:1:2", "uaimd:1:4:2:1:3", "uaimdb:0:2:-:-:-", "ubucket:-:2:5", "uaimdb:-:-:-:-:-"])
    if r < 0.97:
        return "n" + rng.choice(["a", "retry-7", "x.y"])                 # .name(..): no setting the property depends on
    return rng.choice(["x9", "m", "unone:1", "mm3", "p-1"])          # not a setter: skipped


def _gen_chain(rng, words, us):
    """the settings of the classic header `words` as a builder chain: the intended setters in a random order, with
    0..3 further setters (any setting, other values) anywhere — those standing before the intended one of their setting
    are overridden, those after it override it; the two max_attempts setters in both orders on purpose"""
    if rng.random() < 0.03:
        return "-"               # no setter at all: the builder's defaults
    kv = dict(w.partition("=")[::2] for w in words)
    items = [x for x in (_item(w) for w in words) if x]
    mx = kv.get("max")
    if kv.get("dyn") == "1":
        items.append("f%s" % (mx if mx is not None else "3"))
    elif mx is not None:
        items.append("m%s" % mx)
    rng.shuffle(items)
    r = rng.random()
    if r < 0.30:                 # an extractor first, a fixed limit later (and the other way round)
        a, b = "f%d" % rng.choice([3, 4, 5, 6, 8]), "m%d" % rng.choice([0, 1, 2, 2, 3])
        if rng.random() < 0.7:
            a, b = b, a
        items = [x for x in items if x[:1] not in "mf"]
        j = rng.randint(0, len(items))
        items.insert(j, b)
        items.insert(rng.randint(0, j), a)         # a stands somewhere before b
    n_extra = rng.choice([0, 0, 1, 1, 2, 3])
    for _ in range(n_extra):
        items.insert(rng.randint(0, len(items)), _noise(rng, us))
    return ",".join(items) if items else "-"


# ------------------------------------------------------------------------------ reading a case

DUR_MAX_US = 2 ** 64 * 10 ** 6          # Duration::MAX (u64::MAX s + 999 999 999 ns), rounded up to whole µs


def _us(x, us):
    """one configured back-off value -> µs"""
    x = str(x)
    if x == "max":
        return DUR_MAX_US
    n = int(x) if x.isdigit() else 0
    return n if us else n * 1000


DUR_MAX_NS = (2 ** 64 - 1) * 10 ** 9 + 999999999


def _ns(x, us):
    """one configured duration -> ns"""
    x = str(x)
    if x == "max":
        return DUR_MAX_NS
    n = int(x) if x.isdigit() else 0
    return n * (1000 if us else 1000000)


def _fmt_ns(d):
    if d >= DUR_MAX_NS:
        return "Duration::MAX"
    return "%d ns" % d if d % 1000 else _fmt_us(d // 1000)


def _fmt_us(d):
    if d >= DUR_MAX_US:
        return "Duration::MAX"
    return "%d us" % d if d % 1000 else "%d ms" % (d // 1000)


def _cfg(case):
    kv = kvs(case["header"])
    mx = int(kv.get("max", "3"))
    dyn = kv.get("dyn") == "1"
    mask = int(kv["retry"]) if "retry" in kv else None
    bo = kv.get("bo")
    us = kv.get("unit") == "us"
    budget_word = kv.get("budget")
    if "chain" in kv:            # the effective settings, computed here from the chain: the last setter of each wins
        eff = parse_chain(kv["chain"], kv.get("via"))
        mx, dyn, mask, bo, budget_word = eff["max"], eff["dyn"], eff["mask"], eff["bo"], eff["budget"]
        if eff["bo_ms"]:
            us = False           # the back-off of a preset is in milliseconds whatever the unit of the case
    # backoff(k): the configured delay before retry k+1, in MICROSECONDS — for an interval-function object with an
    # envelope (float-computed / jittered) the LEAST value it may answer, rounded up to µs; `ivl`: the object itself
    ivl = None
    if bo is None:
        backoff = lambda k: 100000 * 2 ** k
    else:
        kind, _, arg = bo.partition(":")
        ivl = _ivl(bo, us)
        if ivl is not None:
            backoff = lambda k: -(-_envelope(ivl, k)[0] // 1000)
        elif kind == "fixed":
            d = _us(arg, us)
            backoff = lambda k: d
        elif kind == "exp":
            d = _us(arg, us)
            backoff = lambda k: min(d * 2 ** k, DUR_MAX_US)
        else:
            t = [_us(x, us) for x in arg.split(",") if x]
            backoff = lambda k: t[k] if k < len(t) else 0
    budget = None
    if budget_word is not None:
        kind, _, arg = budget_word.partition(":")
        raw = arg.split(":")

        def fld(i, dflt, absent):
            if i < len(raw) and raw[i] == "-":
                return dflt                          # the budget builder's default
            return int(raw[i]) if i < len(raw) and raw[i].isdigit() else absent
        if kind == "bucket":
            m = fld(0, 100, 1)
            # the constructor clamps the initial balance to max_tokens
            budget = {"kind": "bucket", "max": m, "init": min(fld(1, m, m), m), "cost": 1, "amount": 1}
        elif kind == "aimd":
            p = [int(x) for x in arg.split(":") if x]
            budget = {"kind": "aimd", "min": p[0], "max": p[1], "dep": p[2], "wd": p[3], "q": p[4],
                      "init": p[1], "cost": p[3], "amount": p[2]}
        elif kind == "aimdb":
            mxb = fld(1, 1000, 1000)
            budget = {"kind": "aimdb", "min": fld(0, 10, 10), "max": mxb, "dep": fld(2, 1, 1), "wd": fld(3, 1, 1),
                      "q": fld(4, 2, 2), "init": mxb, "cost": fld(3, 1, 1), "amount": fld(2, 1, 1)}
    reqs = {}
    for o in case["ops"]:
        w = o.split()
        if len(w) >= 2 and w[0] == "arrive" and w[1].isdigit() and w[1] not in reqs:
            a = kvs(o)
            plan = []
            for part in a.get("inner", "0:ok").split(","):
                if not part:
                    continue
                lat, _, out = part.partition(":")
                plan.append(out if out else "ok")
            ma = int(a["ma"]) if (dyn and "ma" in a) else mx
            reqs[w[1]] = {"max": ma, "plan": plan}
    retryable = (lambda kind: True) if mask is None else (lambda kind: kind < 64 and (mask >> kind) & 1 == 1)
    return {"backoff": backoff, "budget": budget, "reqs": reqs, "retryable": retryable, "ivl": ivl,
            "ready": kv.get("ready", ""), "rec": int(kv.get("rec", "0")) if kv.get("rec", "0").isdigit() else 0}


READY_ERR = "err:inner9:0"        # what a failed readiness poll of the scripted inner service carries


def canon(lines):
    """with a readiness script the inner service logs `inner_call c k tag=… ready=…`: the model claims the call, not the tag"""
    return [re.sub(r" tag=\d+ ready=\d+$", "", l) for l in lines]


def _observed(lines, meta):
    """answers of the interval-function object: [(caller, retry index, ns, position in the log)] — the `#bo k ns` meta
    line follows the `inner_done` of the attempt whose failure made the loop ask (and the budget's `grant` line)"""
    out = []
    for pos, m in meta:
        ws = m.split()
        if len(ws) == 3 and ws[0] == "#bo" and pos >= 1:
            _, w = tparse(lines[pos - 1])
            if pos >= 2 and _budget_line(lines[pos - 1]) is not None:      # … and the budget's grant, if there is a budget
                _, w0 = tparse(lines[pos - 2])
                w = w0 if len(w0) > 1 and w0[1] == w[1] and _budget_line(lines[pos - 1])[1] else []
            c = w[1] if len(w) > 1 and w[0] == "inner_done" else None
            out.append((c, int(ws[1]), int(ws[2]), pos))
    return out


def _scripted(req, j):
    """scripted outcome of the j-th inner call of a request (exhausted plan: ok at once)"""
    return req["plan"][j] if j < len(req["plan"]) else "ok"


def _per_caller(lines):
    """-> {c: [ (kind, t, words, line index) ]} over inner_call / inner_done / inner_drop / result"""
    per = {}
    for i, l in enumerate(lines):
        t, w = tparse(l)
        if not w or w[0] not in ("inner_call", "inner_done", "inner_drop", "result"):
            continue
        per.setdefault(w[1], []).append((w[0], t, w, i))
    return per


def _budget_line(line, c=None):
    """`budget <c> grant|refused` -> (c, granted) (None if the line is not one, or not of request c)"""
    _, w = tparse(line)
    if len(w) == 3 and w[0] == "budget" and w[2] in ("grant", "refused") and (c is None or w[1] == c):
        return w[1], w[2] == "grant"
    return None


def _after_budget(lines, i, c):
    """index of the first line after line i that is not a budget line of request c"""
    j = i + 1
    while j < len(lines) and _budget_line(lines[j], c) is not None:
        j += 1
    return j


def _errkind(out):
    return int(out[3:]) if out.startswith("err") and out[3:].isdigit() else None


# ------------------------------------------------------------------------------ monitors

def mon_attempts(case, lines, meta):
    """at least one and at most max(1, max_attempts) inner calls per request"""
    cfg = _cfg(case)
    per = _per_caller(lines)
    polled = set(m[1].split()[1] for m in meta if m[1].startswith("#fp"))
    for c, req in cfg["reqs"].items():
        evs = per.get(c, [])
        n = sum(1 for e in evs if e[0] == "inner_call")
        bound = max(1, req["max"])
        if n > bound:
            return "request %s: %d inner calls, max(1, max_attempts=%d) = %d" % (c, n, req["max"], bound)
        if (c in polled or any(e[0] == "result" for e in evs)) and n < 1:
            return "request %s was polled / resolved without a single inner call" % c
    return None


def mon_stop(case, lines, meta):
    """stops at the first success / refused error; never gives up while a retry is due (no budget)"""
    cfg = _cfg(case)
    per = _per_caller(lines)
    for c, evs in per.items():
        req = cfg["reqs"].get(c)
        if req is None:
            continue
        final = False
        ncalls = 0
        for j, (kind, t, w, i) in enumerate(evs):
            if kind == "inner_call":
                if final:
                    return "request %s: inner call %s made after a success / refused error / panic" % (c, w[2])
                ncalls += 1
            elif kind == "inner_done":
                out = w[3]
                ek = _errkind(out)
                if out == "ok" or out == "panic" or (ek is not None and not cfg["retryable"](ek)):
                    final = True
                    nxt = evs[j + 1] if j + 1 < len(evs) else None
                    if not (nxt and nxt[0] == "result" and nxt[3] == i + 1):
                        return "request %s: outcome %s of call %s is final but the result was not delivered in that step" % (c, out, w[2])
                elif ek is not None:
                    nxt = evs[j + 1] if j + 1 < len(evs) else None
                    stopped = nxt is not None and nxt[0] == "result" and nxt[3] == _after_budget(lines, i, c)
                    if stopped and nxt[2][2] == READY_ERR and "e" in cfg["ready"]:
                        stopped = False        # not given up: the retry was due (zero back-off), its readiness poll failed
                    if stopped and ncalls < max(1, req["max"]) and cfg["budget"] is None:
                        return "request %s gave up after %d of %d attempts on a retryable error without a budget" % (c, ncalls, req["max"])
                    if not stopped and ncalls >= max(1, req["max"]):
                        return "request %s: attempts exhausted (%d) but no result delivered" % (c, ncalls)
    return None


def mon_result(case, lines, meta):
    """the outer result is the scripted outcome of the last attempt made (its serial)"""
    cfg = _cfg(case)
    per = _per_caller(lines)
    for c, evs in per.items():
        req = cfg["reqs"].get(c)
        if req is None:
            continue
        calls = [e for e in evs if e[0] == "inner_call"]
        for (kind, t, w, i) in evs:
            if kind != "result":
                continue
            if not calls:
                return "request %s has a result but no inner call" % c
            before = [e for e in calls if e[3] < i]
            last = before[-1]
            if len(before) != len(calls):
                return "request %s: inner call after the result" % c
            serial = last[2][2]
            scripted = _scripted(req, len(before) - 1)
            if w[2] == READY_ERR and scripted != "err9":
                # the error of a failed readiness poll between attempts: the last thing the request observed of the inner
                # service — legitimate only if the inner service's script has such an answer, after a retryable failure
                # with attempts left (and, here, after the back-off: checked by c05-backoff-gap's twin below)
                ek = _errkind(scripted)
                if "e" not in cfg["ready"]:
                    return "request %s: result %s although the inner service never fails a readiness poll" % (c, w[2])
                if ek is None or not cfg["retryable"](ek) or len(before) >= max(1, req["max"]):
                    return ("request %s: ended by a readiness error after attempt %d (scripted %s, max_attempts %d): no retry "
                            "was due, so no readiness poll either" % (c, len(before) - 1, scripted, req["max"]))
                done = [e for e in evs if e[0] == "inner_done" and e[3] < i]
                d = cfg["backoff"](len(before) - 1)
                if done and t * 1000 < done[-1][1] * 1000 + d:
                    return "request %s: readiness error delivered at t=%d ms, before the back-off %s after the failure at t=%d ms ended" % (
                        c, t, _fmt_us(d), done[-1][1])
                continue
            if scripted == "ok":
                want = "ok:%s" % serial
            elif scripted == "panic":
                want = "panic"
            elif scripted.startswith("err"):
                want = "err:inner%s:%s" % (scripted[3:], serial)
            else:
                want = "<none: the last call never completes>"
            if w[2] != want:
                return "request %s: result %s, but the last attempt (call %s, attempt %d) was scripted %s => %s" % (
                    c, w[2], serial, len(before) - 1, scripted, want)
    return None


def _visited(case):
    now = 0
    v = [0]
    for o in case["ops"]:
        w = o.split()
        if w and w[0] == "adv" and len(w) > 1 and w[1].isdigit():
            now += int(w[1])
            v.append(now)
    return v


def mon_backoff(case, lines, meta):
    """gap between the end of attempt k-1 and the start of attempt k >= backoff(k-1), compared in MICROSECONDS
    (instants of the log are whole ms, configured back-offs have µs resolution); equal to the first whole
    ms at/after the deadline when polled on time; a late start is only legitimate if the waker fired at the deadline.
    For an interval-function object (float-computed / jittered) `backoff(k-1)` is the least value its configuration
    allows; what it actually answered (`#bo`) must lie in the envelope of the retry number the loop asked for — the
    attempt that just failed —, and the retry must wait at least THAT."""
    cfg = _cfg(case)
    per = _per_caller(lines)
    visited = _visited(case)
    wakes = {}
    for pos, m in meta:
        ws = m.split()
        if ws and ws[0] == "#wake" and pos >= 0:
            wakes.setdefault(ws[1], []).append((pos, [int(x) for x in ws[2].split(",")]))
    answered = {}
    if cfg["ivl"] is not None:
        ncalls = {}
        pos_calls = []
        for i, l in enumerate(lines):
            _, w = tparse(l)
            if w and w[0] == "inner_call":
                pos_calls.append((i, w[1]))
        for c, k, ns, pos in _observed(lines, meta):
            if c is None:
                return "the interval function was asked (retry %d) at a point that is not right after a failed attempt" % k
            made = sum(1 for (i, cc) in pos_calls if cc == c and i < pos)
            if k != made - 1:
                return "request %s: after attempt %d failed the interval function was asked for retry index %d (the back-off before retry k+1 is the one configured for k = the attempt that failed)" % (c, made - 1, k)
            lo, hi, x = _envelope(cfg["ivl"], k)
            if not (lo <= ns <= hi):
                iv = cfg["ivl"]
                what = "initial %s x (%d/%d)^%d%s = %s" % (_fmt_ns(iv["init"]), iv["p"], iv["q"], k,
                                                      "" if iv["cap"] is None else " capped at " + _fmt_ns(iv["cap"]), _fmt_ns(x))
                if iv["pct"] is not None:
                    what += ", randomization factor %d %%" % iv["pct"]
                return "request %s: the configured back-off for retry %d is %s, i.e. within [%s, %s]; the interval function answered %s" % (
                    c, k + 1, what, _fmt_ns(lo), _fmt_ns(hi), _fmt_ns(ns))
            answered[(c, k)] = ns
    for c, evs in per.items():
        k = 0
        last_done = None
        for (kind, t, w, i) in evs:
            if kind == "inner_done":
                last_done = t
            elif kind == "inner_call":
                if k > 0:
                    if last_done is None:
                        return "request %s: attempt %d started before attempt %d finished" % (c, k, k - 1)
                    d = cfg["backoff"](k - 1)
                    if t * 1000 < last_done * 1000 + d:
                        return "request %s: retry %d started at t=%d ms, %d ms after attempt %d ended (t=%d ms); backoff(%d) = %s" % (
                            c, k, t, t - last_done, k - 1, last_done, k - 1, _fmt_us(d))
                    dns = answered.get((c, k - 1), d * 1000)
                    if t * 10 ** 6 < last_done * 10 ** 6 + dns:
                        return "request %s: retry %d started at t=%d ms, %d ms after attempt %d ended (t=%d ms); the interval function had answered %s" % (
                            c, k, t, t - last_done, k - 1, last_done, _fmt_ns(dns))
                    due = next((x for x in visited if x * 10 ** 6 >= last_done * 10 ** 6 + dns), None)
                    if due is not None and t > due and dns > 0:
                        fired = any(due in ws for (pos, ws) in wakes.get(c, []) if pos <= i)
                        if not fired:
                            return "request %s: back-off before retry %d ended at t=%d but the future was not woken then (retry only at t=%d)" % (c, k, due, t)
                k += 1
                last_done = None
    return None


def mon_ready(case, lines, meta):
    """with a scripted readiness (`ready=` / `rec=`) the inner service records on every call whether the instance it is
    called on had answered `Ready(Ok)` since its previous call: the retry loop must poll its instance ready before every
    further attempt (and stop when that poll fails)"""
    for l in lines:
        _, w = tparse(l)
        if w and w[0] == "inner_call" and "ready=0" in w:
            return "request %s: inner call %s was made on a service instance that had not answered ready since its previous call" % (w[1], w[2])
    return None


class _Budget:
    def __init__(self, b):
        self.b = b
        self.tokens = b["init"]
        self.limit = b["max"]

    def withdraw(self):
        b = self.b
        if b["kind"] == "bucket":
            if self.tokens >= 1:
                self.tokens -= 1
                return True
            return False
        if self.tokens < b["wd"]:
            self.limit = max(self.limit * b["q"] // 4, b["min"])
            return False
        self.tokens -= b["wd"]
        return True

    def deposit(self):
        b = self.b
        if b["kind"] == "bucket":
            self.tokens = min(self.tokens + 1, b["max"])
        else:
            self.tokens = min(self.tokens + b["dep"], self.limit)
            self.limit = min(self.limit + 1, b["max"])


def mon_budget(case, lines, meta):
    """no grant, no retry: every retry was preceded by a withdrawal the (sequential) budget can grant;
    conservation over all requests sharing the budget; the probed balance is the sequential one"""
    cfg = _cfg(case)
    if cfg["budget"] is None:
        return None
    bud = _Budget(cfg["budget"])
    cost, amount, init = cfg["budget"]["cost"], cfg["budget"]["amount"], cfg["budget"]["init"]
    ncalls = {}
    granted = 0
    deposits = 0
    for i, l in enumerate(lines):
        t, w = tparse(l)
        if not w:
            continue
        if w[0] == "inner_call":
            ncalls[w[1]] = ncalls.get(w[1], 0) + 1
        elif w[0] == "inner_done":
            c = w[1]
            req = cfg["reqs"].get(c)
            ek = _errkind(w[3])
            if req is None or ek is None or not cfg["retryable"](ek):
                continue
            if ncalls.get(c, 0) >= req["max"]:
                continue                        # exhausted: the budget is not consulted
            j = _after_budget(lines, i, c)
            nt, nw = tparse(lines[j]) if j < len(lines) else (None, [])
            answers = [_budget_line(l, c)[1] for l in lines[i + 1:j]]
            stopped = nw[:2] == ["result", c] and not (nw[2] == READY_ERR and "e" in cfg["ready"] and answers != [False])
            if stopped:
                if bud.withdraw():
                    return "line %d: request %s was refused a retry although the budget could grant one" % (i, c)
                if answers and answers != [False]:
                    return "line %d: request %s stopped although the budget answered %s" % (i, c, answers)
            else:
                if answers and answers != [True]:
                    return "line %d: request %s goes on to retry %d although the budget answered %s" % (i, c, ncalls.get(c, 0), answers)
                if not bud.withdraw():
                    return "line %d: request %s goes on to retry %d without a grant (balance %d, cost %d)" % (
                        i, c, ncalls.get(c, 0), bud.tokens, cost)
                granted += 1
                if granted * cost + bud.tokens > init + deposits * amount:
                    return "line %d: conservation broken: granted %d x %d + balance %d > initial %d + deposits %d x %d" % (
                        i, granted, cost, bud.tokens, init, deposits, amount)
        elif w[0] == "result" and w[2].startswith("ok:"):
            bud.deposit()
            deposits += 1
        elif w[0] == "probe" and len(w) > 1:
            if w[1] == "deposited":
                bud.deposit()
                deposits += 1
            elif w[1].startswith("withdraw="):
                g = bud.withdraw()
                if g:
                    granted += 1
                if (w[1] == "withdraw=1") != g:
                    return "line %d: manual try_withdraw answered %s, sequential budget says %s" % (i, w[1], g)
            elif w[1].startswith("balance="):
                if int(w[1][8:]) != bud.tokens:
                    return "line %d: balance() = %s, sequential budget has %d" % (i, w[1][8:], bud.tokens)
            elif w[1].startswith("limit="):
                if cfg["budget"]["kind"] != "aimd":
                    return "line %d: %s answered for a budget that has no current_max()" % (i, w[1])
                if int(w[1][6:]) != bud.limit:
                    return "line %d: current_max() = %s, sequential budget has %d" % (i, w[1][6:], bud.limit)
    return None


def mon_grant(case, lines, meta):
    """the order of grant and retry, on the log: with a budget the loop asks it after every retryable failure that leaves
    attempts (and only then, once); every inner call of a request after its first is preceded, since the previous one, by
    a `grant` line of that request; a `refused` line is followed at once by the result, which is the outcome of the
    attempt that just failed; the layer reports exactly the refusals (`BudgetExhausted`, with the number of attempts made);
    without a budget there is no budget line"""
    cfg = _cfg(case)
    ncalls, granted, last_done = {}, {}, {}
    exhausted = dict((pos, m.split()) for pos, m in meta if m.startswith("#budget_exhausted"))
    for i, l in enumerate(lines):
        t, w = tparse(l)
        if not w:
            continue
        c = w[1] if len(w) > 1 else None
        req = cfg["reqs"].get(c)
        if w[0] == "inner_call":
            if ncalls.get(c, 0) >= 1 and cfg["budget"] is not None and not granted.get(c):
                return "line %d: request %s starts retry %d without a grant line since its previous attempt" % (i, c, ncalls[c])
            granted[c] = False
            ncalls[c] = ncalls.get(c, 0) + 1
        elif w[0] == "inner_done":
            last_done[c] = (i, w[2], w[3])
            ek = _errkind(w[3])
            if cfg["budget"] is not None and req is not None and ek is not None and cfg["retryable"](ek) \
                    and ncalls.get(c, 0) < req["max"]:
                if i + 1 >= len(lines) or _budget_line(lines[i + 1], c) is None:
                    return "line %d: attempt %d of request %s failed with a retryable error, attempts are left, but the budget was not asked" % (
                        i, ncalls.get(c, 0) - 1, c)
        elif w[0] == "budget":
            bl = _budget_line(l)
            if cfg["budget"] is None or bl is None or req is None:
                return "line %d: `%s` - no budget is configured / not a request" % (i, l)
            d = last_done.get(c)
            if d is None or d[0] != i - 1:
                return "line %d: the budget was asked for request %s, but not right after a failed attempt of it" % (i, c)
            ek = _errkind(d[2])
            if ek is None or not cfg["retryable"](ek):
                return "line %d: the budget was asked for request %s after outcome %s (no retry is due: the predicate comes first)" % (i, c, d[2])
            if ncalls.get(c, 0) >= req["max"]:
                return "line %d: the budget was asked for request %s with its attempts exhausted (%d of %d)" % (i, c, ncalls.get(c, 0), req["max"])
            if bl[1]:
                granted[c] = True
            else:
                want = "result %s err:inner%d:%s" % (c, ek, d[1])
                got = " ".join(tparse(lines[i + 1])[1]) if i + 1 < len(lines) else "<nothing>"
                if got != want:
                    return "line %d: request %s was refused a retry; it must end at once with its last outcome (%s), next line: %s" % (i, c, want, got)
                ex = exhausted.pop(i + 1, None)
                if ex is None:
                    return "line %d: request %s was refused by the budget but the layer did not report BudgetExhausted" % (i, c)
                if len(ex) != 2 or ex[1] != str(ncalls.get(c, 0)):
                    return "line %d: BudgetExhausted reports attempt %s, request %s had made %d attempts" % (i, ex[1:], c, ncalls.get(c, 0))
        elif w[0] == "result":
            if granted.get(c) and not (w[2] == READY_ERR and "e" in cfg["ready"]):
                return "line %d: request %s ends with %s after the budget granted a retry" % (i, c, w[2])
    if exhausted:
        pos = sorted(exhausted)[0]
        return "the layer reported BudgetExhausted (before line %d) where the budget had not refused" % pos
    return None


# ------------------------------------------------------------------------------ coverage

def transitions(case, lines, meta=None):
    cfg = _cfg(case)
    tags = []
    per = _per_caller(lines)
    for c, evs in per.items():
        req = cfg["reqs"].get(c)
        if req is None:
            continue
        n = 0
        last_done = None
        last_out = None
        for j, (kind, t, w, i) in enumerate(evs):
            if kind == "inner_call":
                if n == 0:
                    tags.append("first-call")
                else:
                    tags.append("retry-same-instant" if last_done == t else "retry-after-sleep")
                    d = cfg["backoff"](n - 1)
                    if last_done is not None and t == last_done + -(-d // 1000) and t != last_done:
                        tags.append("retry-exactly-at-deadline")
                    elif last_done is not None and t > last_done + -(-d // 1000):
                        tags.append("retry-late")
                    if d % 1000:
                        tags.append("retry-after-broken-ms-backoff")
                        if d < 1000:
                            tags.append("retry-after-sub-ms-backoff")
                    if d == 0:
                        tags.append("retry-zero-backoff")
                n += 1
            elif kind == "inner_done":
                last_done, last_out = t, w[3]
                nxt = evs[j + 1] if j + 1 < len(evs) else None
                if (nxt is None or nxt[0] != "result") and _errkind(w[3]) is not None \
                        and cfg["backoff"](n - 1) >= 10 ** 15:
                    tags.append("sleeping-huge-backoff")
            elif kind == "inner_drop":
                tags.append("dropped-calling")
            elif kind == "result":
                ek = _errkind(last_out or "")
                if w[2] == READY_ERR and "e" in cfg["ready"]:
                    tags.append("stop-readiness-error")
                elif w[2] == "panic":
                    tags.append("stop-panic")
                elif w[2].startswith("ok:"):
                    tags.append("stop-ok-first" if n == 1 else "stop-ok-after-retry")
                elif ek is not None and not cfg["retryable"](ek):
                    tags.append("stop-refused-by-predicate")
                elif n >= req["max"]:
                    tags.append("stop-exhausted")
                    if req["max"] == 0:
                        tags.append("stop-max-attempts-0")
                else:
                    tags.append("stop-budget-refused")
    pend = {}
    for l in lines:
        _, w = tparse(l)
        bl = _budget_line(l)
        if bl is not None:
            tags.append("budget-line-grant" if bl[1] else "budget-line-refused")
            pend[bl[0]] = bl[1]
        elif w and w[0] == "inner_call":
            pend[w[1]] = False
        elif w and w[0] == "result" and pend.get(w[1]):
            tags.append("grant-spent-without-retry")      # a readiness error after the grant: the token is not refunded
    hkv = kvs(case["header"])
    iv = cfg["ivl"]
    if iv is not None:
        tags.append("interval-object")
        tags.append("bo-" + ("ifixed" if iv.get("exact") else "iexp" if iv["pct"] is None else "rand"))
        for c, k, ns, pos in _observed(lines, meta or []):
            lo, hi, x = _envelope(iv, k)
            tags.append("interval-asked")
            if iv["pct"] is not None:
                tags.append("jitter-factor-0" if iv["pct"] == 0 else "jitter-sampled")
                if x >= 2 ** 63 * 10 ** 9:
                    tags.append("jitter-of-saturated-interval")
                if hi >= DUR_MAX_NS and ns >= DUR_MAX_NS:
                    tags.append("jitter-clamped-to-duration-max")
            if not iv.get("exact") and x >= (DUR_MAX_NS if iv["cap"] is None else iv["cap"]) and x > 0:
                tags.append("interval-at-cap")
            if k > 0:
                tags.append("interval-asked-retry>0")
    if cfg["ready"] or cfg["rec"]:
        tags.append("readiness-script")
        if "p" in cfg["ready"]:
            tags.append("readiness-script-with-pending")
        if cfg["rec"]:
            tags.append("readiness-recovery-time")
            for c, evs in per.items():
                last_done, last_call, n = None, None, 0
                for (kind, t, w, i) in evs:
                    if kind == "inner_done":
                        last_done = t
                    elif kind == "inner_call":
                        if n > 0 and last_done is not None and last_call is not None:
                            dl = last_done + -(-cfg["backoff"](n - 1) // 1000)
                            if last_call + cfg["rec"] > dl and t >= last_call + cfg["rec"]:
                                tags.append("retry-delayed-by-readiness")
                        last_call = t
                        n += 1
    if "via" in hkv and "chain" in hkv:
        tags.append("via-preset")
    if "name" in hkv or (hkv.get("chain") and parse_chain(hkv["chain"])["name"] is not None):
        tags.append("named")
    bw = hkv.get("budget") or (parse_chain(hkv["chain"], hkv.get("via"))["budget"] if "chain" in hkv else None)
    if bw:
        if bw.startswith("aimdb"):
            tags.append("budget-aimd-builder")
        if bw.startswith("bucket") and (bw.count(":") >= 3 or "-" in bw):
            tags.append("budget-bucket-builder-options")
        if "-" in bw.partition(":")[2].split(":"):
            tags.append("budget-builder-default-field")
    svcs = set()
    for o in case["ops"]:
        if o.startswith("arrive "):
            a = kvs(o)
            svcs.add(a.get("svc", "0"))
            if a.get("lclone") == "1":
                tags.append("service-from-layer-clone")
            if a.get("h") == "same":
                tags.append("handle-reused")
            elif a.get("h") == "clone":
                tags.append("handle-cloned-after-call")
    if len(svcs) > 1:
        tags.append("several-services-one-layer")
    chain = hkv.get("chain")
    if chain is not None:
        order = parse_chain(chain, hkv.get("via"))["order"]
        tags.append("chain")
        if not order:
            tags.append("chain-empty")
        for what in ("max_attempts", "max_attempts_fn", "backoff", "retry_on", "budget"):
            if order.count(what) > 1:
                tags.append("chain-repeated-" + what)
        src = [x for x in order if x.startswith("max_attempts")]
        if not src:
            tags.append("chain-default-max_attempts")
        if "max_attempts" in src and "max_attempts_fn" in src:
            tags.append("chain-max_attempts_fn-then-max_attempts" if src[-1] == "max_attempts"
                        else "chain-max_attempts-then-max_attempts_fn")
            if src[-1] == "max_attempts" and any(t == "stop-exhausted" for t in tags):
                tags.append("exhausted-under-fixed-limit-set-after-extractor")
        if src and order[-1] not in ("max_attempts", "max_attempts_fn") and order[0] in ("max_attempts", "max_attempts_fn"):
            tags.append("chain-max_attempts-first")
        if src and order[-1] in ("max_attempts", "max_attempts_fn") and len(order) > 1:
            tags.append("chain-max_attempts-last")
    for l in lines:
        _, w = tparse(l)
        if w and w[0] == "probe" and len(w) > 1:
            tags.append("probe-" + w[1].split("=")[0] + ("-" + w[1].split("=")[1] if w[1].startswith("withdraw=") else ""))
        elif w and w[0] == "noop":
            tags.append("invalid-op-noop")
    return tags


def nontrivial(case, lines, tags):
    return any(t.startswith("retry-") or t in ("stop-budget-refused", "stop-refused-by-predicate", "stop-exhausted",
                                                "dropped-calling", "stop-panic") for t in tags)


ALL = ["first-call", "retry-same-instant", "retry-after-sleep", "retry-exactly-at-deadline", "retry-late",
       "retry-after-broken-ms-backoff", "retry-after-sub-ms-backoff", "retry-zero-backoff", "sleeping-huge-backoff",
       "dropped-calling", "stop-panic", "stop-ok-first", "stop-ok-after-retry", "stop-refused-by-predicate",
       "stop-exhausted", "stop-max-attempts-0", "stop-budget-refused", "probe-balance", "probe-limit",
       "probe-deposited", "probe-withdraw-0", "probe-withdraw-1", "invalid-op-noop",
       "chain", "chain-empty", "chain-repeated-max_attempts", "chain-repeated-max_attempts_fn", "chain-repeated-backoff",
       "chain-repeated-retry_on", "chain-repeated-budget", "chain-default-max_attempts",
       "chain-max_attempts_fn-then-max_attempts", "chain-max_attempts-then-max_attempts_fn",
       "exhausted-under-fixed-limit-set-after-extractor", "chain-max_attempts-first", "chain-max_attempts-last",
       "interval-object", "bo-ifixed", "bo-iexp", "bo-rand", "interval-asked", "interval-asked-retry>0", "interval-at-cap",
       "jitter-factor-0", "jitter-sampled", "jitter-of-saturated-interval", "jitter-clamped-to-duration-max",
       "readiness-script", "readiness-script-with-pending", "readiness-recovery-time", "retry-delayed-by-readiness",
       "stop-readiness-error", "via-preset", "named", "budget-aimd-builder", "budget-bucket-builder-options",
       "budget-builder-default-field", "several-services-one-layer", "service-from-layer-clone", "handle-reused",
       "handle-cloned-after-call", "budget-line-grant", "budget-line-refused", "grant-spent-without-retry"]

LEVEL_NOTE = ("Trusted: Lean kernel; the transcription of the retry loop (lib.rs) and of the sequential semantics of "
              "TokenBucketBudget / AimdBudget / AimdController in TR.Model.Retry, validated only by the sampled correspondence "
              "check; tokio `sleep` (ready at the first poll at or after its deadline, also for a zero delay); the harness "
              "(virtual clock, manual poller, scripted inner service) and the python diff/monitors. The interleaving of the "
              "atomic operations inside try_withdraw/deposit is C08's subject, here each is one atomic step. Back-off "
              "durations have microsecond resolution (zero and Duration::MAX included), instants are whole milliseconds; "
              "tokio's timer rounds a deadline UP to the millisecond (transcribed as ceilMs, probed through the real layer); "
              "a deadline std cannot represent is 'now + 30 years' in tokio and exact in the model (they agree on every "
              "history shorter than that). Interval-function objects handed to .backoff(..) (FixedInterval, ExponentialBackoff "
              "with any multiplier / maximum, ExponentialRandomBackoff) are observed choices: the value the real object answered "
              "is fed to the model, which rejects it outside the envelope around the exact-arithmetic capped exponential "
              "(2^-40 relative + 1 ns; jitter: within the randomization factor, never above Duration::MAX) and sleeps it; that "
              "binary64 stays inside that envelope is sampled here and in C14, not proved. The readiness polls between attempts "
              "are modelled for the scripted inner service (answers r/p/e, a pending answer followed at once by another poll; "
              "a recovery time after each call); a service whose readiness pends without ever waking the task is outside. "
              "Wake-ups at the end of a back-off are observed by the harness's waker monitor, not modelled.")

SPECS = {
    "C05": {
        "group": "retry",
        "gen": gen,
        "module": "TR.Props.C05",
        "monitors": [("c05-attempt-bounds", mon_attempts), ("c05-stop-rule", mon_stop),
                     ("c05-returns-last-outcome", mon_result), ("c05-backoff-gap", mon_backoff),
                     ("c05-budget-no-grant-no-retry", mon_budget), ("c05-ready-before-every-attempt", mon_ready),
                     ("c05-grant-before-retry", mon_grant)],
        "transitions": transitions,
        "nontrivial": nontrivial,
        "canon": canon,
        "all_transitions": ALL,
        "model_modules": ["TR.Model.Retry", "TR.Lemmas.Retry", "TR.Lemmas.RetryLog", "TR.Lemmas.RetryLogOrder"],
        "lean_files": ["TR.Model.Retry", "TR.Lemmas.Retry", "TR.Lemmas.RetryLog", "TR.Lemmas.RetryLogOrder"],
        "sizes": (800, 40000),
        "rule": "seeded random op sequences over 1..6 requests sharing one retry layer (and one budget): max_attempts absent/0..6 "
                "fixed or per request (ma=0..7), predicate bitmask over error kinds 1..3 or none, back-off default/fixed/exponential/"
                "custom table (whole ms, or — one configuration in three — microseconds: 1..6000 us with broken and whole ms mixed; "
                "incl. 0; one in ten with Duration::MAX / u64::MAX values), budget none / token bucket (max 0..4, initial 0..max+2) / AIMD (min<=max, deposit "
                "and withdraw amounts 0..3, decrease factor q/4), scripts of 0..8 inner calls (latency 0..12 ms; ok/err1..3/panic/never), "
                "polls/drops/settles interleaved, advances biased to the back-off values rounded down and up to ms, -1/0/+1, manual deposit/withdraw by another "
                "budget holder, probes; half of the configurations written as the builder chain itself (chain=: the intended setters in a random "
                "order plus 0..3 further setters of any setting anywhere, 30 % with max_attempts_fn and max_attempts both present in either order, "
                "3 % empty, a few skipped non-setters, .name(..), 12 % of the chains started from a RetryLayer preset); 28 % of the back-offs are "
                "interval-function objects built through their own constructors and setters (FixedInterval / ExponentialBackoff / "
                "ExponentialRandomBackoff: factor 0..100 %, multiplier absent/1/1.25/1.5/2/4/10, maximum absent/below/above/Duration::MAX; a "
                "quarter of them with the initial interval Duration::MAX, so that the capped exponential is saturated from the first retry); a "
                "third of the budgets through RetryBudgetBuilder (token bucket with tokens_per_second, AIMD builder, fields left at the "
                "builder's defaults); 14 % of the cases with a script of the inner service's answers to the readiness polls between attempts "
                "(r/p/e) and / or a recovery time of 1..12 ms per instance; a quarter of the requests through service 0..2 built lazily from the one "
                "layer value (some through a clone of the layer), a fifth on a kept handle (reused, or cloned after its calls); "
                "every try_withdraw of the loop is a compared log line (`budget <c> grant|refused`), the layer's BudgetExhausted event a meta line; "
                "distinct = distinct implementation event log; non-trivial = at least one retry, a stop by "
                "predicate/exhaustion/budget/panic, or a cancelled inner call",
        "trusted": ["tokio sleep semantics and the sequential budget semantics as transcribed in TR.Model.Retry (sampled by the correspondence check)",
                    "harness: clock_gettime interposition, manual poller, scripted inner service; the budget handed to the layer is a logging "
                    "wrapper around the real budget, the request a `try_withdraw` belongs to is the one whose call future is being polled",
                    "python diff/monitors"],
        "assumptions": ["one poll of one call future is atomic (single-threaded runtime)",
                        "a readiness error of the inner service between attempts ends the request whatever the predicate says (lib.rs: `poll_ready(..).await?`), "
                        "and the budget token withdrawn for that retry is not refunded: modelled as the code does it; the property's quantifier "
                        "ranges over call outcomes, not over readiness errors",
                        "each try_withdraw / deposit is one atomic step (their internal interleavings: C08)",
                        "usize/u64 modelled as unbounded Nat; back-off durations are whole microseconds, instants whole milliseconds "
                        "(the harness advances time in ms); virtual time stays below tokio's 30-year 'far future'"],
        "level_text": "Theorems TR.Props.C05.*: for every configuration (max_attempts fixed or per request incl. 0, every predicate, every "
                      "back-off function, every budget = every sequence of grant answers) and every operation sequence (all scripts, all "
                      "interleavings of the polls of any number of requests) each request makes between 1 and max(1,max_attempts) inner "
                      "calls, every attempt but the last ended in an error the predicate accepts, the result is the last attempt's outcome, "
                      "the delay handed to the timer before retry k is backoff(k-1) (in us), the retry starts no earlier than the observation of "
                      "the failure + backoff(k-1) compared in microseconds — the timer rounds up to the first millisecond boundary, never "
                      "down —, with a budget the retries equal "
                      "the true grants and a false grant ends the request, and retries x cost + balance <= initial + deposits x amount for "
                      "the token bucket and the AIMD budget; the configuration a builder chain produces has, for each setting (max_attempts source, "
                      "back-off, predicate, budget), the value given by the LAST setter of that setting wherever the others stand, and the layer built with "
                      "max_attempts(n) last — after any max_attempts_fn — invokes the inner service at most max(1,n) times per request. "
                      "Back-off policies are an envelope [backoff k, backoff k + spread k] per retry number (spread 0 = exact; jittered / "
                      "float-computed interval functions: the answer is an input of every poll, any value at all): the delay slept is always "
                      "inside the envelope, an answer inside it is slept unchanged, and every waiting statement holds for the delay actually "
                      "answered (interval_function_envelope: for ExponentialRandomBackoff the envelope is [d(1-f), d(1+f)] around the capped "
                      "exponential d, capped at Duration::MAX, so a saturated interval is never slept as zero). Readiness between attempts: "
                      "for every script of the inner service's answers and every recovery time, a pending readiness only delays the retry "
                      "(no_retry_before_backoff), a readiness error ends the request with that error after the whole back-off and without a "
                      "further call (readiness_error_is_the_last_outcome), which is impossible for a service that never errs "
                      "(ready_service_never_unready). A poll, drop or arrival of one request leaves the record of every other request "
                      "untouched (several services / handles / clones of one layer share the budget and nothing else). "
                      "Over the TIMESTAMPED log (State.log: every line with the instant the driver prints; log_stamps_are_the_printed_instants, "
                      "log_instants_never_decrease): the lines of a request are exactly what its ghost record says, in order "
                      "(request_lines_of_the_log: one block inner_call, inner_done[, budget c grant] per attempt that failed and was followed by a "
                      "back-off, then a tail by phase; inner_call_line_iff / inner_done_line_iff: Att.start, Att.seen, Att.out are the instants and "
                      "outcomes on the lines; budget_lines_are_the_grants; every_attempt_follows_script), hence: between 1 and max(1,max_attempts) "
                      "inner_call lines; the result is the outcome on the request's last inner_done line or the readiness error that ended it, and "
                      "nothing of the request follows it (result_is_the_last_inner_done_line); consecutive inner_call lines are separated by the "
                      "inner_done of the first and are at least the answered back-off apart, in microseconds "
                      "(consecutive_inner_calls_wait_the_backoff); with a budget every inner_call line after the first is immediately preceded, among "
                      "the request's lines, by its grant line, and without a budget there is no budget line (every_retry_is_preceded_by_its_grant); a "
                      "refused line is followed by the result with the last outcome and ends the request (a_refusal_ends_the_request); a readiness "
                      "error after the back-off spends the grant without a call and refunds nothing (readiness_error_refunds_nothing, "
                      "readiness_error_spends_grant_without_call, shared_budget_bound_counts_grants). "
                      "The model is tied to the real RetryLayer by line-for-line agreement of event logs (the budget's answers included: "
                      "`budget <c> grant|refused`, logged by a wrapper around the budget handed to the layer).",
        "level_note": LEVEL_NOTE,
    },
}
