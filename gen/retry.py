"""C05 — retry: generator, implementation-side monitors.

header: retry [max=N] [dyn=1] [retry=<bitmask of retryable kinds>] [bo=fixed:D|exp:D|fn:a,b,…] [unit=us]
              [budget=bucket:<max>:<initial> | aimd:<min>:<max>:<dep>:<wd>:<q>]
        back-off values D are milliseconds, microseconds with unit=us, or `max` (= Duration::MAX); the op clock
        (adv, t=, inner latencies) is always in milliseconds
   or:  retry chain=<s1,s2,…> [unit=us]   the builder chain itself, left to right: m<n> = max_attempts(n), f<n> =
        max_attempts_fn (the request's ma=, else <n>), bf<D> / be<D> / bt<D>/<D>/… = fixed_backoff / exponential_backoff /
        backoff(table), p<mask> = retry_on, ubucket:… / uaimd:… = budget(a new one); `chain=-` = no setter. Every setting
        is the one set LAST (max_attempts and max_attempts_fn set the same thing, as do the three back-off setters).
ops:    arrive <c> [ma=N] inner=<lat>:<out>,…   poll/drop/adv/settle   probe balance|limit
        manual deposit|withdraw
"""
from gen.util import kvs, tparse


# ------------------------------------------------------------------------------ generator

def _plan(rng, n):
    parts = []
    for i in range(n):
        lat = rng.choice([0, 0, 0, 0, 1, 3, 5, rng.randint(0, 12)])
        r = rng.random()
        if r < 0.22:
            out = "ok"
        elif r < 0.90:
            out = "err%d" % rng.choice([1, 1, 1, 2, 3])
        elif r < 0.95:
            out = "panic"
        else:
            out = "never"
        parts.append("%d:%s" % (lat, out))
    return ",".join(parts)


def gen(rng, tier):
    words = ["retry"]
    use_chain = rng.random() < 0.5       # the settings below are written as a builder chain (any order, overridden setters)
    mx = rng.choice([None, 0, 1, 2, 2, 3, 3, 4, 5, 6])
    if mx is not None:
        words.append("max=%d" % mx)
    dyn = rng.random() < 0.3
    if dyn:
        words.append("dyn=1")
    if rng.random() < 0.7:
        words.append("retry=%d" % rng.choice([0, 2, 2, 2, 4, 6, 10, 14, 14]))
    r = rng.random()
    # one in three configurations has back-offs with sub-millisecond resolution (unit=us); a few have a
    # Duration::MAX-like value (`max`, or the largest u64 of the unit) somewhere
    us = rng.random() < 0.34
    huge = rng.random() < 0.10

    def val(pool):
        if huge and rng.random() < 0.4:
            return rng.choice(["max", "max", str(2 ** 64 - 1)])
        return str(rng.choice(pool))

    bo_us = []        # the finite configured delays, in µs (advances are biased to them)
    if r < 0.06:
        bo_us = [100000, 200000, 400000]
    elif r < 0.40:
        if us:
            d = val([0, 1, 500, 900, 999, 1000, 1001, 1500, 2250, 2999, 10500, rng.randint(1, 6000)])
        else:
            d = val([0, 0, 1, 5, 10, rng.randint(1, 30)])
        words.append("bo=fixed:%s" % d)
        bo_us = [_us(d, us)]
    elif r < 0.70:
        if us:
            d = rng.choice([0, 1, 300, 500, 900, 999, 1000, 1001, 1500, rng.randint(1, 4000)])
        else:
            d = rng.choice([0, 1, 2, 3, 5, 7, rng.randint(1, 50)])
        if huge and rng.random() < 0.4:
            d = "max"                  # saturates: every delay is Duration::MAX
        words.append("bo=exp:%s" % d)
        bo_us = [min(_us(d, us) * 2 ** k, DUR_MAX_US) for k in range(4)]
    else:
        if us:
            t = [val([0, 0, 1, 400, 900, 999, 1000, 1001, 1500, 3000, 2250, rng.randint(0, 5000)])
                 for _ in range(rng.randint(0, 5))]
        else:
            t = [val([0, 0, 1, 3, 10, rng.randint(0, 25)]) for _ in range(rng.randint(0, 5))]
        words.append("bo=fn:" + ",".join(t))
        bo_us = [_us(x, us) for x in t] or [0]
    if us:
        words.append("unit=us")
    # advances (ms) around the configured delays: the last whole ms before, and the first at/after the deadline
    bo_vals = []
    for x in bo_us:
        if x < 10 ** 9:
            bo_vals += [x // 1000, -(-x // 1000)]
    bo_vals = bo_vals or [0]
    r = rng.random()
    budget = None
    if r < 0.35:
        pass
    elif r < 0.70:
        m = rng.choice([0, 1, 1, 2, 3, 4])
        i = rng.choice([0, 1, m, m, max(0, m - 1), m + 1, m + 2])
        budget = "bucket:%d:%d" % (m, i)
    else:
        mn = rng.choice([0, 1, 1, 2, 3])
        mxb = mn + rng.choice([0, 1, 2, 3, 5])
        budget = "aimd:%d:%d:%d:%d:%d" % (mn, mxb, rng.choice([0, 1, 1, 2, 3]), rng.choice([0, 1, 1, 2, 3]),
                                         rng.choice([0, 1, 2, 2, 3, 4]))
    if budget:
        words.append("budget=" + budget)
    if use_chain:
        chain = _gen_chain(rng, words[1:], us)
        words = ["retry", "chain=" + chain] + (["unit=us"] if us else [])
        eff = parse_chain(chain)
        dyn = eff["dyn"]
        budget = eff["budget"]
        bo_vals = sorted(set(bo_vals + _bo_vals(eff["bo"], us)))
    header = " ".join(words)

    ncall = rng.choice([1, 1, 2, 2, 3, 3, 4, 4, 5, 6])
    pending = list(range(1, ncall + 1))
    arrived = []
    ops = []
    nsteps = rng.randint(6, 40)
    for _ in range(nsteps):
        r = rng.random()
        if pending and (r < 0.22 or not arrived):
            c = pending.pop(0)
            kw = ""
            if dyn and rng.random() < 0.85:
                kw = " ma=%d" % rng.choice([0, 1, 2, 3, 3, 4, 5, 7])
            elif not dyn and rng.random() < 0.1:
                kw = " ma=%d" % rng.randint(0, 6)      # ignored by a fixed max_attempts
            n = rng.choice([0, 1, 2, 3, 4, 5, 6, 8])
            ops.append("arrive %d%s inner=%s" % (c, kw, _plan(rng, n)))
            arrived.append(c)
            if rng.random() < 0.6:
                ops.append("poll %d" % c)
        elif r < 0.55 and arrived:
            ops.append("poll %d" % rng.choice(arrived))
        elif r < 0.59 and arrived:
            ops.append("drop %d" % rng.choice(arrived))
        elif r < 0.80:
            base = rng.choice(bo_vals * 3 + [0, 1, 2, 3, 5, 12])
            d = max(0, base + rng.choice([-1, 0, 0, 0, 0, 0, 0, 1]))
            ops.append("adv %d" % d)
            if rng.random() < 0.6:
                ops.append("settle")
        elif r < 0.86:
            ops.append("settle")
        elif r < 0.93:
            ops.append("probe " + rng.choice(["balance", "balance", "limit", "nonsense"]))
        else:
            ops.append("manual " + rng.choice(["deposit", "deposit", "withdraw", "withdraw", "nonsense"]))
    if rng.random() < 0.7:
        for _ in range(rng.randint(1, 4)):
            ops.append("adv %d" % rng.choice(bo_vals + [1, 5, 50]))
            ops.append("settle")
    ops.append("probe balance")
    if budget and budget.startswith("aimd"):
        ops.append("probe limit")
    return {"header": header, "ops": ops}


# ------------------------------------------------------------------------------ builder chains

def parse_chain(text):
    """the configuration a builder chain asks for: every setting is the one set last (`max_attempts` and
    `max_attempts_fn` set the same setting, so do the three back-off setters); defaults: 3 attempts, every error
    retried, exponential back-off from 100 ms, no budget. Stated from the builder's documentation, not from the Lean
    model. -> {"max", "dyn", "mask", "bo" (as the header word bo=), "budget" (as budget=), "order": [...] }"""
    cfg = {"max": 3, "dyn": False, "mask": None, "bo": None, "budget": None, "order": []}
    for it in text.split(","):
        if not it.isascii():
            continue
        h1, a1, h2, a2 = it[:1], it[1:], it[:2], it[2:]
        if h1 in ("m", "f") and a1.isdigit():
            cfg["max"], cfg["dyn"] = int(a1), h1 == "f"
            cfg["order"].append("max_attempts_fn" if h1 == "f" else "max_attempts")
        elif h1 == "p" and a1.isdigit():
            cfg["mask"] = int(a1)
            cfg["order"].append("retry_on")
        elif h2 in ("bf", "be", "bt"):
            cfg["bo"] = {"bf": "fixed", "be": "exp", "bt": "fn"}[h2] + ":" + a2.replace("/", ",")
            cfg["order"].append("backoff")
        elif h1 == "u" and a1.partition(":")[0] in ("bucket", "aimd"):
            cfg["budget"] = a1
            cfg["order"].append("budget")
    return cfg


def _bo_vals(bo, us):
    """advance values (ms) around the delays of a back-off word"""
    if bo is None:
        return [100, 200]
    kind, _, arg = bo.partition(":")
    if kind == "fixed":
        ds = [_us(arg, us)]
    elif kind == "exp":
        ds = [min(_us(arg, us) * 2 ** k, DUR_MAX_US) for k in range(4)]
    else:
        ds = [_us(x, us) for x in arg.split(",") if x]
    out = []
    for x in ds:
        if x < 10 ** 9:
            out += [x // 1000, -(-x // 1000)]
    return out


def _item(word):
    """a classic header word as the chain item that asks for the same thing"""
    k, _, v = word.partition("=")
    if k == "retry":
        return "p" + v
    if k == "budget":
        return "u" + v
    if k == "bo":
        kind, _, arg = v.partition(":")
        return {"fixed": "bf", "exp": "be"}.get(kind, "bt") + arg.replace(",", "/")
    return None


def _noise(rng, us):
    """one more setter with values of its own (overridden if it comes to stand before another of its setting)"""
    r = rng.random()
    if r < 0.30:
        return "m%d" % rng.choice([0, 1, 2, 2, 3, 4, 7])
    if r < 0.55:
        return "f%d" % rng.choice([0, 1, 2, 3, 4, 5, 6])
    if r < 0.75:
        d = rng.choice([0, 1, 500, 999, 1001, 2250] if us else [0, 1, 2, 5, 10])
        return rng.choice(["bf%d" % d, "be%d" % d, "bt%d/%d" % (d, rng.choice([0, 1, 3])), "bt"])
    if r < 0.88:
        return "p%d" % rng.choice([0, 2, 6, 8, 14])
    if r < 0.97:
        return rng.choice(["ubucket:%d:%d" % (m, i) for m in (0, 1, 3) for i in (0, 1, 4)]
                          + ["uaimd:0:2:1:1:2", "uaimd:1:4:2:1:3"])
    return rng.choice(["x9", "m", "unone:1", "mm3", "p-1"])          # not a setter: skipped


def _gen_chain(rng, words, us):
    """the settings of the classic header `words` as a builder chain: the intended setters in a random order, with
    0..3 further setters (any setting, other values) anywhere — those standing before the intended one of their setting
    are overridden, those after it override it; the two max_attempts setters in both orders on purpose"""
    if rng.random() < 0.03:
        return "-"               # no setter at all: the builder's defaults
    kv = dict(w.partition("=")[::2] for w in words)
    items = [x for x in (_item(w) for w in words) if x]
    mx = kv.get("max")
    if kv.get("dyn") == "1":
        items.append("f%s" % (mx if mx is not None else "3"))
    elif mx is not None:
        items.append("m%s" % mx)
    rng.shuffle(items)
    r = rng.random()
    if r < 0.30:                 # an extractor first, a fixed limit later (and the other way round)
        a, b = "f%d" % rng.choice([3, 4, 5, 6, 8]), "m%d" % rng.choice([0, 1, 2, 2, 3])
        if rng.random() < 0.7:
            a, b = b, a
        items = [x for x in items if x[:1] not in "mf"]
        j = rng.randint(0, len(items))
        items.insert(j, b)
        items.insert(rng.randint(0, j), a)         # a stands somewhere before b
    n_extra = rng.choice([0, 0, 1, 1, 2, 3])
    for _ in range(n_extra):
        items.insert(rng.randint(0, len(items)), _noise(rng, us))
    return ",".join(items) if items else "-"


# ------------------------------------------------------------------------------ reading a case

DUR_MAX_US = 2 ** 64 * 10 ** 6          # Duration::MAX (u64::MAX s + 999 999 999 ns), rounded up to whole µs


def _us(x, us):
    """one configured back-off value -> µs"""
    x = str(x)
    if x == "max":
        return DUR_MAX_US
    n = int(x) if x.isdigit() else 0
    return n if us else n * 1000


def _fmt_us(d):
    if d >= DUR_MAX_US:
        return "Duration::MAX"
    return "%d us" % d if d % 1000 else "%d ms" % (d // 1000)


def _cfg(case):
    kv = kvs(case["header"])
    mx = int(kv.get("max", "3"))
    dyn = kv.get("dyn") == "1"
    mask = int(kv["retry"]) if "retry" in kv else None
    bo = kv.get("bo")
    us = kv.get("unit") == "us"
    budget_word = kv.get("budget")
    if "chain" in kv:            # the effective settings, computed here from the chain: the last setter of each wins
        eff = parse_chain(kv["chain"])
        mx, dyn, mask, bo, budget_word = eff["max"], eff["dyn"], eff["mask"], eff["bo"], eff["budget"]
    # backoff(k): the configured delay before retry k+1, in MICROSECONDS
    if bo is None:
        backoff = lambda k: 100000 * 2 ** k
    else:
        kind, _, arg = bo.partition(":")
        if kind == "fixed":
            d = _us(arg, us)
            backoff = lambda k: d
        elif kind == "exp":
            d = _us(arg, us)
            backoff = lambda k: min(d * 2 ** k, DUR_MAX_US)
        else:
            t = [_us(x, us) for x in arg.split(",") if x]
            backoff = lambda k: t[k] if k < len(t) else 0
    budget = None
    if budget_word is not None:
        kind, _, arg = budget_word.partition(":")
        p = [int(x) for x in arg.split(":") if x]
        if kind == "bucket":
            budget = {"kind": "bucket", "max": p[0], "init": min(p[1], p[0]) if len(p) > 1 else p[0], "cost": 1, "amount": 1}   # the constructor clamps the initial balance to max_tokens
        elif kind == "aimd":
            budget = {"kind": "aimd", "min": p[0], "max": p[1], "dep": p[2], "wd": p[3], "q": p[4],
                      "init": p[1], "cost": p[3], "amount": p[2]}
    reqs = {}
    for o in case["ops"]:
        w = o.split()
        if len(w) >= 2 and w[0] == "arrive" and w[1].isdigit() and w[1] not in reqs:
            a = kvs(o)
            plan = []
            for part in a.get("inner", "0:ok").split(","):
                if not part:
                    continue
                lat, _, out = part.partition(":")
                plan.append(out if out else "ok")
            ma = int(a["ma"]) if (dyn and "ma" in a) else mx
            reqs[w[1]] = {"max": ma, "plan": plan}
    retryable = (lambda kind: True) if mask is None else (lambda kind: kind < 64 and (mask >> kind) & 1 == 1)
    return {"backoff": backoff, "budget": budget, "reqs": reqs, "retryable": retryable}


def _scripted(req, j):
    """scripted outcome of the j-th inner call of a request (exhausted plan: ok at once)"""
    return req["plan"][j] if j < len(req["plan"]) else "ok"


def _per_caller(lines):
    """-> {c: [ (kind, t, words, line index) ]} over inner_call / inner_done / inner_drop / result"""
    per = {}
    for i, l in enumerate(lines):
        t, w = tparse(l)
        if not w or w[0] not in ("inner_call", "inner_done", "inner_drop", "result"):
            continue
        per.setdefault(w[1], []).append((w[0], t, w, i))
    return per


def _errkind(out):
    return int(out[3:]) if out.startswith("err") and out[3:].isdigit() else None


# ------------------------------------------------------------------------------ monitors

def mon_attempts(case, lines, meta):
    """at least one and at most max(1, max_attempts) inner calls per request"""
    cfg = _cfg(case)
    per = _per_caller(lines)
    polled = set(m[1].split()[1] for m in meta if m[1].startswith("#fp"))
    for c, req in cfg["reqs"].items():
        evs = per.get(c, [])
        n = sum(1 for e in evs if e[0] == "inner_call")
        bound = max(1, req["max"])
        if n > bound:
            return "request %s: %d inner calls, max(1, max_attempts=%d) = %d" % (c, n, req["max"], bound)
        if (c in polled or any(e[0] == "result" for e in evs)) and n < 1:
            return "request %s was polled / resolved without a single inner call" % c
    return None


def mon_stop(case, lines, meta):
    """stops at the first success / refused error; never gives up while a retry is due (no budget)"""
    cfg = _cfg(case)
    per = _per_caller(lines)
    for c, evs in per.items():
        req = cfg["reqs"].get(c)
        if req is None:
            continue
        final = False
        ncalls = 0
        for j, (kind, t, w, i) in enumerate(evs):
            if kind == "inner_call":
                if final:
                    return "request %s: inner call %s made after a success / refused error / panic" % (c, w[2])
                ncalls += 1
            elif kind == "inner_done":
                out = w[3]
                ek = _errkind(out)
                if out == "ok" or out == "panic" or (ek is not None and not cfg["retryable"](ek)):
                    final = True
                    nxt = evs[j + 1] if j + 1 < len(evs) else None
                    if not (nxt and nxt[0] == "result" and nxt[3] == i + 1):
                        return "request %s: outcome %s of call %s is final but the result was not delivered in that step" % (c, out, w[2])
                elif ek is not None:
                    nxt = evs[j + 1] if j + 1 < len(evs) else None
                    stopped = nxt is not None and nxt[0] == "result" and nxt[3] == i + 1
                    if stopped and ncalls < max(1, req["max"]) and cfg["budget"] is None:
                        return "request %s gave up after %d of %d attempts on a retryable error without a budget" % (c, ncalls, req["max"])
                    if not stopped and ncalls >= max(1, req["max"]):
                        return "request %s: attempts exhausted (%d) but no result delivered" % (c, ncalls)
    return None


def mon_result(case, lines, meta):
    """the outer result is the scripted outcome of the last attempt made (its serial)"""
    cfg = _cfg(case)
    per = _per_caller(lines)
    for c, evs in per.items():
        req = cfg["reqs"].get(c)
        if req is None:
            continue
        calls = [e for e in evs if e[0] == "inner_call"]
        for (kind, t, w, i) in evs:
            if kind != "result":
                continue
            if not calls:
                return "request %s has a result but no inner call" % c
            before = [e for e in calls if e[3] < i]
            last = before[-1]
            if len(before) != len(calls):
                return "request %s: inner call after the result" % c
            serial = last[2][2]
            scripted = _scripted(req, len(before) - 1)
            if scripted == "ok":
                want = "ok:%s" % serial
            elif scripted == "panic":
                want = "panic"
            elif scripted.startswith("err"):
                want = "err:inner%s:%s" % (scripted[3:], serial)
            else:
                want = "<none: the last call never completes>"
            if w[2] != want:
                return "request %s: result %s, but the last attempt (call %s, attempt %d) was scripted %s => %s" % (
                    c, w[2], serial, len(before) - 1, scripted, want)
    return None


def _visited(case):
    now = 0
    v = [0]
    for o in case["ops"]:
        w = o.split()
        if w and w[0] == "adv" and len(w) > 1 and w[1].isdigit():
            now += int(w[1])
            v.append(now)
    return v


def mon_backoff(case, lines, meta):
    """gap between the end of attempt k-1 and the start of attempt k >= backoff(k-1), compared in MICROSECONDS
    (instants of the log are whole ms, configured back-offs have µs resolution); equal to the first whole
    ms at/after the deadline when polled on time; a late start is only legitimate if the waker fired at the deadline"""
    cfg = _cfg(case)
    per = _per_caller(lines)
    visited = _visited(case)
    wakes = {}
    for pos, m in meta:
        ws = m.split()
        if ws and ws[0] == "#wake" and pos >= 0:
            wakes.setdefault(ws[1], []).append((pos, [int(x) for x in ws[2].split(",")]))
    for c, evs in per.items():
        k = 0
        last_done = None
        for (kind, t, w, i) in evs:
            if kind == "inner_done":
                last_done = t
            elif kind == "inner_call":
                if k > 0:
                    if last_done is None:
                        return "request %s: attempt %d started before attempt %d finished" % (c, k, k - 1)
                    d = cfg["backoff"](k - 1)
                    if t * 1000 < last_done * 1000 + d:
                        return "request %s: retry %d started at t=%d ms, %d ms after attempt %d ended (t=%d ms); backoff(%d) = %s" % (
                            c, k, t, t - last_done, k - 1, last_done, k - 1, _fmt_us(d))
                    due = next((x for x in visited if x * 1000 >= last_done * 1000 + d), None)
                    if due is not None and t > due and d > 0:
                        fired = any(due in ws for (pos, ws) in wakes.get(c, []) if pos <= i)
                        if not fired:
                            return "request %s: back-off before retry %d ended at t=%d but the future was not woken then (retry only at t=%d)" % (c, k, due, t)
                k += 1
                last_done = None
    return None


class _Budget:
    def __init__(self, b):
        self.b = b
        self.tokens = b["init"]
        self.limit = b["max"]

    def withdraw(self):
        b = self.b
        if b["kind"] == "bucket":
            if self.tokens >= 1:
                self.tokens -= 1
                return True
            return False
        if self.tokens < b["wd"]:
            self.limit = max(self.limit * b["q"] // 4, b["min"])
            return False
        self.tokens -= b["wd"]
        return True

    def deposit(self):
        b = self.b
        if b["kind"] == "bucket":
            self.tokens = min(self.tokens + 1, b["max"])
        else:
            self.tokens = min(self.tokens + b["dep"], self.limit)
            self.limit = min(self.limit + 1, b["max"])


def mon_budget(case, lines, meta):
    """no grant, no retry: every retry was preceded by a withdrawal the (sequential) budget can grant;
    conservation over all requests sharing the budget; the probed balance is the sequential one"""
    cfg = _cfg(case)
    if cfg["budget"] is None:
        return None
    bud = _Budget(cfg["budget"])
    cost, amount, init = cfg["budget"]["cost"], cfg["budget"]["amount"], cfg["budget"]["init"]
    ncalls = {}
    granted = 0
    deposits = 0
    for i, l in enumerate(lines):
        t, w = tparse(l)
        if not w:
            continue
        if w[0] == "inner_call":
            ncalls[w[1]] = ncalls.get(w[1], 0) + 1
        elif w[0] == "inner_done":
            c = w[1]
            req = cfg["reqs"].get(c)
            ek = _errkind(w[3])
            if req is None or ek is None or not cfg["retryable"](ek):
                continue
            if ncalls.get(c, 0) >= req["max"]:
                continue                        # exhausted: the budget is not consulted
            nt, nw = tparse(lines[i + 1]) if i + 1 < len(lines) else (None, [])
            stopped = nw[:2] == ["result", c]
            if stopped:
                if bud.withdraw():
                    return "line %d: request %s was refused a retry although the budget could grant one" % (i, c)
            else:
                if not bud.withdraw():
                    return "line %d: request %s goes on to retry %d without a grant (balance %d, cost %d)" % (
                        i, c, ncalls.get(c, 0), bud.tokens, cost)
                granted += 1
                if granted * cost + bud.tokens > init + deposits * amount:
                    return "line %d: conservation broken: granted %d x %d + balance %d > initial %d + deposits %d x %d" % (
                        i, granted, cost, bud.tokens, init, deposits, amount)
        elif w[0] == "result" and w[2].startswith("ok:"):
            bud.deposit()
            deposits += 1
        elif w[0] == "probe" and len(w) > 1:
            if w[1] == "deposited":
                bud.deposit()
                deposits += 1
            elif w[1].startswith("withdraw="):
                g = bud.withdraw()
                if g:
                    granted += 1
                if (w[1] == "withdraw=1") != g:
                    return "line %d: manual try_withdraw answered %s, sequential budget says %s" % (i, w[1], g)
            elif w[1].startswith("balance="):
                if int(w[1][8:]) != bud.tokens:
                    return "line %d: balance() = %s, sequential budget has %d" % (i, w[1][8:], bud.tokens)
            elif w[1].startswith("limit="):
                if int(w[1][6:]) != bud.limit:
                    return "line %d: current_max() = %s, sequential budget has %d" % (i, w[1][6:], bud.limit)
    return None


# ------------------------------------------------------------------------------ coverage

def transitions(case, lines, meta=None):
    cfg = _cfg(case)
    tags = []
    per = _per_caller(lines)
    for c, evs in per.items():
        req = cfg["reqs"].get(c)
        if req is None:
            continue
        n = 0
        last_done = None
        last_out = None
        for j, (kind, t, w, i) in enumerate(evs):
            if kind == "inner_call":
                if n == 0:
                    tags.append("first-call")
                else:
                    tags.append("retry-same-instant" if last_done == t else "retry-after-sleep")
                    d = cfg["backoff"](n - 1)
                    if last_done is not None and t == last_done + -(-d // 1000) and t != last_done:
                        tags.append("retry-exactly-at-deadline")
                    elif last_done is not None and t > last_done + -(-d // 1000):
                        tags.append("retry-late")
                    if d % 1000:
                        tags.append("retry-after-broken-ms-backoff")
                        if d < 1000:
                            tags.append("retry-after-sub-ms-backoff")
                    if d == 0:
                        tags.append("retry-zero-backoff")
                n += 1
            elif kind == "inner_done":
                last_done, last_out = t, w[3]
                nxt = evs[j + 1] if j + 1 < len(evs) else None
                if (nxt is None or nxt[0] != "result") and _errkind(w[3]) is not None \
                        and cfg["backoff"](n - 1) >= 10 ** 15:
                    tags.append("sleeping-huge-backoff")
            elif kind == "inner_drop":
                tags.append("dropped-calling")
            elif kind == "result":
                ek = _errkind(last_out or "")
                if w[2] == "panic":
                    tags.append("stop-panic")
                elif w[2].startswith("ok:"):
                    tags.append("stop-ok-first" if n == 1 else "stop-ok-after-retry")
                elif ek is not None and not cfg["retryable"](ek):
                    tags.append("stop-refused-by-predicate")
                elif n >= req["max"]:
                    tags.append("stop-exhausted")
                    if req["max"] == 0:
                        tags.append("stop-max-attempts-0")
                else:
                    tags.append("stop-budget-refused")
    chain = kvs(case["header"]).get("chain")
    if chain is not None:
        order = parse_chain(chain)["order"]
        tags.append("chain")
        if not order:
            tags.append("chain-empty")
        for what in ("max_attempts", "max_attempts_fn", "backoff", "retry_on", "budget"):
            if order.count(what) > 1:
                tags.append("chain-repeated-" + what)
        src = [x for x in order if x.startswith("max_attempts")]
        if not src:
            tags.append("chain-default-max_attempts")
        if "max_attempts" in src and "max_attempts_fn" in src:
            tags.append("chain-max_attempts_fn-then-max_attempts" if src[-1] == "max_attempts"
                        else "chain-max_attempts-then-max_attempts_fn")
            if src[-1] == "max_attempts" and any(t == "stop-exhausted" for t in tags):
                tags.append("exhausted-under-fixed-limit-set-after-extractor")
        if src and order[-1] not in ("max_attempts", "max_attempts_fn") and order[0] in ("max_attempts", "max_attempts_fn"):
            tags.append("chain-max_attempts-first")
        if src and order[-1] in ("max_attempts", "max_attempts_fn") and len(order) > 1:
            tags.append("chain-max_attempts-last")
    for l in lines:
        _, w = tparse(l)
        if w and w[0] == "probe" and len(w) > 1:
            tags.append("probe-" + w[1].split("=")[0] + ("-" + w[1].split("=")[1] if w[1].startswith("withdraw=") else ""))
        elif w and w[0] == "noop":
            tags.append("invalid-op-noop")
    return tags


def nontrivial(case, lines, tags):
    return any(t.startswith("retry-") or t in ("stop-budget-refused", "stop-refused-by-predicate", "stop-exhausted",
                                                "dropped-calling", "stop-panic") for t in tags)


ALL = ["first-call", "retry-same-instant", "retry-after-sleep", "retry-exactly-at-deadline", "retry-late",
       "retry-after-broken-ms-backoff", "retry-after-sub-ms-backoff", "retry-zero-backoff", "sleeping-huge-backoff",
       "dropped-calling", "stop-panic", "stop-ok-first", "stop-ok-after-retry", "stop-refused-by-predicate",
       "stop-exhausted", "stop-max-attempts-0", "stop-budget-refused", "probe-balance", "probe-limit",
       "probe-deposited", "probe-withdraw-0", "probe-withdraw-1", "invalid-op-noop",
       "chain", "chain-empty", "chain-repeated-max_attempts", "chain-repeated-max_attempts_fn", "chain-repeated-backoff",
       "chain-repeated-retry_on", "chain-repeated-budget", "chain-default-max_attempts",
       "chain-max_attempts_fn-then-max_attempts", "chain-max_attempts-then-max_attempts_fn",
       "exhausted-under-fixed-limit-set-after-extractor", "chain-max_attempts-first", "chain-max_attempts-last"]

LEVEL_NOTE = ("Trusted: Lean kernel; the transcription of the retry loop (lib.rs) and of the sequential semantics of "
              "TokenBucketBudget / AimdBudget / AimdController in TR.Model.Retry, validated only by the sampled correspondence "
              "check; tokio `sleep` (ready at the first poll at or after its deadline, also for a zero delay); the harness "
              "(virtual clock, manual poller, scripted inner service) and the python diff/monitors. The interleaving of the "
              "atomic operations inside try_withdraw/deposit is C08's subject, here each is one atomic step. Back-off "
              "durations have microsecond resolution (zero and Duration::MAX included), instants are whole milliseconds; "
              "tokio's timer rounds a deadline UP to the millisecond (transcribed as ceilMs, probed through the real layer); "
              "a deadline std cannot represent is 'now + 30 years' in tokio and exact in the model (they agree on every "
              "history shorter than that); ExponentialRandomBackoff (jitter) is C14's subject and not exercised here. "
              "Wake-ups at the end of a back-off are observed by the harness's waker monitor, not modelled.")

SPECS = {
    "C05": {
        "group": "retry",
        "gen": gen,
        "module": "TR.Props.C05",
        "monitors": [("c05-attempt-bounds", mon_attempts), ("c05-stop-rule", mon_stop),
                     ("c05-returns-last-outcome", mon_result), ("c05-backoff-gap", mon_backoff),
                     ("c05-budget-no-grant-no-retry", mon_budget)],
        "transitions": transitions,
        "nontrivial": nontrivial,
        "all_transitions": ALL,
        "model_modules": ["TR.Model.Retry", "TR.Lemmas.Retry"],
        "lean_files": ["TR.Model.Retry", "TR.Lemmas.Retry"],
        "sizes": (800, 40000),
        "rule": "seeded random op sequences over 1..6 requests sharing one retry layer (and one budget): max_attempts absent/0..6 "
                "fixed or per request (ma=0..7), predicate bitmask over error kinds 1..3 or none, back-off default/fixed/exponential/"
                "custom table (whole ms, or — one configuration in three — microseconds: 1..6000 us with broken and whole ms mixed; "
                "incl. 0; one in ten with Duration::MAX / u64::MAX values), budget none / token bucket (max 0..4, initial 0..max+2) / AIMD (min<=max, deposit "
                "and withdraw amounts 0..3, decrease factor q/4), scripts of 0..8 inner calls (latency 0..12 ms; ok/err1..3/panic/never), "
                "polls/drops/settles interleaved, advances biased to the back-off values rounded down and up to ms, -1/0/+1, manual deposit/withdraw by another "
                "budget holder, probes; half of the configurations written as the builder chain itself (chain=: the intended setters in a random "
                "order plus 0..3 further setters of any setting anywhere, 30 % with max_attempts_fn and max_attempts both present in either order, "
                "3 % empty, a few skipped non-setters); distinct = distinct implementation event log; non-trivial = at least one retry, a stop by "
                "predicate/exhaustion/budget/panic, or a cancelled inner call",
        "trusted": ["tokio sleep semantics and the sequential budget semantics as transcribed in TR.Model.Retry (sampled by the correspondence check)",
                    "harness: clock_gettime interposition, manual poller, scripted inner service", "python diff/monitors"],
        "assumptions": ["one poll of one call future is atomic (single-threaded runtime)",
                        "each try_withdraw / deposit is one atomic step (their internal interleavings: C08)",
                        "usize/u64 modelled as unbounded Nat; back-off durations are whole microseconds, instants whole milliseconds "
                        "(the harness advances time in ms); virtual time stays below tokio's 30-year 'far future'"],
        "level_text": "Theorems TR.Props.C05.*: for every configuration (max_attempts fixed or per request incl. 0, every predicate, every "
                      "back-off function, every budget = every sequence of grant answers) and every operation sequence (all scripts, all "
                      "interleavings of the polls of any number of requests) each request makes between 1 and max(1,max_attempts) inner "
                      "calls, every attempt but the last ended in an error the predicate accepts, the result is the last attempt's outcome, "
                      "the delay handed to the timer before retry k is backoff(k-1) (in us), the retry starts no earlier than the observation of "
                      "the failure + backoff(k-1) compared in microseconds — the timer rounds up to the first millisecond boundary, never "
                      "down —, with a budget the retries equal "
                      "the true grants and a false grant ends the request, and retries x cost + balance <= initial + deposits x amount for "
                      "the token bucket and the AIMD budget; the configuration a builder chain produces has, for each setting (max_attempts source, "
                      "back-off, predicate, budget), the value given by the LAST setter of that setting wherever the others stand, and the layer built with "
                      "max_attempts(n) last — after any max_attempts_fn — invokes the inner service at most max(1,n) times per request. The model is tied to the real RetryLayer by line-for-line agreement of event logs.",
        "level_note": LEVEL_NOTE,
    },
}
