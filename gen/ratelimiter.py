"""C02 / C15 — rate limiter: generator, implementation-side monitors

Header: `ratelimiter kind=fixed|log|counter limit=L period=P timeout=T` (milliseconds).
Fixed window and sliding log: arbitrary whole-millisecond instants. Sliding counter: periods 1/2/4 s and
every instant on a 125 ms grid, so that every f64 operation of the weighted test is exact (dyadic).

The wrapped service is the strict scripted service (`inner_call c k tag=c ready=0|1`).
`manual busy ms=n`: the wrapped service is not ready (poll_ready pending, every instance) until n ms from now; a
caller arriving meanwhile is turned away before `call` (`result c notready`) and the generator lets fresh callers
retry later. `manual dropsvc`: every handle of the rate limiter is dropped (later arrivals are `noop`), the call
futures made so far — polled or not — live on.
"""
from gen.util import kvs, tparse, pick_outcome
from gen.bulkhead import first_visited_at_or_after, _timeline

GRID = 125


def _timeout_choices(rng, P, grid):
    cand = [0, 0, 1, P // 2, P - 1, P, P, P + 1, P + P // 2, 2 * P, 2 * P + 1, 3 * P, rng.randint(0, 3 * P)]
    t = max(0, rng.choice(cand))
    if grid and rng.random() < 0.7:
        t = (t // GRID) * GRID
    return t


def gen(rng, tier):
    kind = rng.choice(["fixed", "fixed", "log", "log", "counter", "counter"])
    L = rng.choice([1, 1, 2, 2, 3, 4])
    grid = kind == "counter"
    if grid:
        P = rng.choice([1000, 1000, 2000, 4000])
    else:
        P = rng.choice([10, 50, 100, 100, rng.randint(1, 200)])
    T = _timeout_choices(rng, P, grid)
    header = "ratelimiter kind=%s limit=%d period=%d timeout=%d" % (kind, L, P, T)
    ops = []
    now = 0
    marks = [P, 2 * P]           # interesting instants: window boundaries, wake-ups, timeouts
    arrived = []
    nxt = 1
    busy_until = 0               # the wrapped service is not ready before this instant (generator's own bookkeeping)
    gone = False                 # `manual dropsvc` has been issued

    def q(d):
        return (d // GRID) * GRID if grid else d

    def arrive(poll_p=0.85):
        nonlocal nxt
        c = nxt
        nxt += 1
        lat = q(rng.choice([0, 0, 0, 1, 5, P // 2, P, rng.randint(0, 2 * P)]))
        ops.append("arrive %d inner=%d:%s" % (c, lat, pick_outcome(rng, 7, 2, 1, 1)))
        arrived.append(c)
        if rng.random() < poll_p:
            ops.append("poll %d" % c)
            marks.extend([now + P, now + T, now + lat, now + 2 * P])
        return c

    def busy(d):
        nonlocal busy_until
        d = q(d)
        ops.append("manual busy ms=%d" % d)
        busy_until = now + d
        marks.extend([now + d, now + d + P])

    def busy_episode():
        # the wrapped service stays busy across k window boundaries while callers keep arriving (they are turned
        # away: their polls are `noop`); when it is ready again fresh callers retry
        nonlocal now
        k = rng.choice([1, 2, 2, 3])
        if rng.random() < 0.5 and nxt < 40:
            for _ in range(rng.choice([1, L])):
                arrive(1.0)
        busy(k * P + rng.choice([0, 1, P // 2, P // 2, P - 1]))
        for w in range(k + 1):
            if nxt < 40:
                for _ in range(rng.choice([1, L, L, L + 1])):
                    arrive(0.9)
            if now >= busy_until:
                break
            d = q(rng.choice([P, P, P + 1, max(1, busy_until - now)]))
            d = min(d, q(busy_until - now + rng.choice([0, 0, 1 if not grid else GRID])))
            ops.append("adv %d" % d)
            now += d
        if now < busy_until and rng.random() < 0.8:
            d = q(busy_until - now + (GRID - 1 if grid else 0))
            ops.append("adv %d" % d)
            now += d
        if rng.random() < 0.8:
            ops.append("settle")
        if nxt < 40:
            for _ in range(rng.choice([1, L, L + 1])):
                arrive(0.9)

    def dropsvc_episode():
        # a batch of calls is made, every handle of the limiter goes away, only then are the responses driven
        nonlocal gone, now
        n = rng.choice([L, L + 1, L + 1, L + 2, 2 * L + 1])
        ids = []
        for _ in range(min(n, 7)):
            if nxt < 40:
                ids.append(arrive(rng.choice([0.0, 0.0, 0.3])))
        ops.append("manual dropsvc")
        gone = True
        if rng.random() < 0.3:
            d = q(rng.choice([1, P // 2, P, P + 1]))
            ops.append("adv %d" % d)
            now += d
        rng.shuffle(ids)
        ops.extend("poll %d" % c for c in ids)

    # the first request need not come at the instant the limiter is built: it arrives part-way into the first period
    # (the first window / bucket starts at construction, a sliding log's span starts at the first admission)
    if rng.random() < 0.35:
        x = q(rng.choice([1, P // 2, P // 2, P - 1, rng.randint(1, max(1, P - 1))]))
        if grid and x == 0:
            x = GRID
        ops.append("adv %d" % x)
        now += x
        marks.append(now + P)
        if rng.random() < 0.7:
            for _ in range(rng.choice([1, L, L])):
                arrive(1.0)
            if rng.random() < 0.6:
                # … and the next ones between construction + P and first admission + P
                d = q(P - x + rng.choice([0, 0, 1, x // 2, max(0, x - 1)]))
                ops.append("adv %d" % d)
                now += d
                for _ in range(rng.choice([1, 1, L])):
                    arrive(1.0)
    nsteps = rng.randint(6, 32)
    episode_at = rng.randrange(nsteps) if rng.random() < 0.25 else -1
    dropsvc_at = rng.randrange(nsteps) if rng.random() < 0.12 else -1
    for step_i in range(nsteps):
        r = rng.random()
        if step_i == episode_at and not gone:
            busy_episode()
        elif step_i == dropsvc_at and not gone:
            dropsvc_episode()
        elif r < 0.015 and not gone:
            ops.append("manual dropsvc")
            gone = True
        elif r < 0.05 and not gone:
            busy(rng.choice([0, 1, P // 2, P, P + P // 2, 2 * P + 1, rng.randint(0, 3 * P)]))
        elif gone and r < 0.32 and rng.random() < 0.8:
            ops.append("poll %d" % rng.choice(arrived[-8:]) if arrived else "settle")
        elif r < 0.22 and nxt < 40:
            # a burst at one instant: L-1 / L / L+1 / more callers
            n = max(1, rng.choice([1, L - 1, L, L + 1, L + 2, 2 * L + 1]))
            ids = [arrive() for _ in range(min(n, 7))]
            if rng.random() < 0.3:
                order = ids[:]
                rng.shuffle(order)
                ops.extend("poll %d" % c for c in order)
        elif r < 0.32 and nxt < 40:
            arrive(0.6)
        elif r < 0.50 and arrived:
            ops.append("poll %d" % rng.choice(arrived[-8:]))
        elif r < 0.57 and arrived:
            ops.append("drop %d" % rng.choice(arrived[-8:]))
        elif r < 0.88:
            fut = [m for m in marks if m >= now]
            if fut and rng.random() < 0.75:
                step = 1 if not grid else GRID
                d = max(0, rng.choice(fut) - now + rng.choice([-step, 0, 0, 0, step]))
            else:
                d = rng.choice([0, 1, 2, P // 2, P - 1, P, P + 1, rng.randint(0, 2 * P)])
            d = q(d)
            ops.append("adv %d" % d)
            now += d
        else:
            ops.append("settle")
    # C15: quiesce, stay idle for two full periods (exactly, or a little more), then a burst of L (+1) calls
    if rng.random() < 0.75 and not gone:
        ops.append("settle")
        ops.append("dropall")
        if now < busy_until:
            ops.append("manual busy ms=0")
        d = 2 * P + q(rng.choice([0, 0, 0, 1, P // 2, P, 3 * P]))
        if rng.random() < 0.15:
            d = q(max(0, 2 * P - (GRID if grid else 1)))     # just short of two periods: no promise
        ops.append("adv %d" % d)
        now += d
        n = L + (1 if rng.random() < 0.5 else 0)
        ids = []
        for i in range(n):
            c = 100 + i
            ops.append("arrive %d inner=%d:ok" % (c, q(rng.choice([0, 0, 7, P]))))
            ids.append(c)
            if rng.random() < 0.3:
                ops.append("poll %d" % c)
                if rng.random() < 0.3:
                    dd = q(rng.choice([0, 1, P // 2, P]))
                    ops.append("adv %d" % dd)
                    now += dd
        rng.shuffle(ids)
        ops.extend("poll %d" % c for c in ids)
        if rng.random() < 0.6:
            ops.append("adv %d" % q(rng.choice([T, P, max(T, P)])))
            ops.append("settle")
    return {"header": header, "ops": ops}


# ------------------------------------------------------------------------------------------ monitors

def _cfg(case):
    k = kvs(case["header"])
    return k.get("kind", "fixed"), int(k.get("limit", "1")), int(k.get("period", "1000")), int(k.get("timeout", "0"))


def cut_exists(a, L, P):
    """Decides the property's existential exactly: can the time axis (from t = 0, where the limiter is created)
    be cut at integer instants into consecutive windows [b_k, b_k+1), each at least P long, each holding at most
    L of the admission instants a[0] <= a[1] <= ... ?  dp[j] = earliest start of a window whose first admission
    is a[j]."""
    n = len(a)
    if n == 0:
        return True
    INF = float("inf")
    dp = [INF] * n
    dp[0] = 0
    for j in range(1, n):
        best = INF
        for i in range(max(0, j - L), j):
            if dp[i] == INF:
                continue
            b = max(dp[i] + P, a[j - 1] + 1)
            if b <= a[j] and b < best:
                best = b
        dp[j] = best
    return any(dp[i] != INF for i in range(max(0, n - L), n))


def admissions(lines):
    a = []
    for l in lines:
        t, w = tparse(l)
        if w and w[0] == "inner_call":
            a.append(t)
    return a


def mon_ready(case, lines, meta):
    """Tower readiness contract, stated on the strict wrapped service's own log: it is only ever called on an
    instance that has reported ready (poll_ready returned Ready on that very instance since its previous call)."""
    for l in lines:
        t, w = tparse(l)
        if w and w[0] == "inner_call" and "ready=0" in w[2:]:
            return ("caller %s: the wrapped service was called at t=%s on an instance that had not reported ready "
                    "(Tower readiness contract: poll_ready must have returned Ready on the instance that is called, "
                    "since that instance's previous call)" % (w[1], t))
    return None


_META = {}   # id(implementation lines) -> meta lines; lets `transitions` (called without meta by vlib.core) see #fp/#wake/#drop


def mon_c02(case, lines, meta):
    _META[id(lines)] = meta
    kind, L, P, T = _cfg(case)
    a = admissions(lines)
    if a != sorted(a):
        return "admission instants not in order: %s" % a
    if kind == "log":
        for i in range(len(a) - L):
            if a[i + L] - a[i] < P:
                return "sliding log: admissions %d..%d (%d+1 consecutive) at t=%s span %d < refresh_period=%d" % (
                    i, i + L, L, a[i:i + L + 1], a[i + L] - a[i], P)
        return None
    if not cut_exists(a, L, P):
        return "%s window: admission instants %s cannot be cut into consecutive windows >= %d ms with at most %d admissions each" % (
            kind, a, P, L)
    return None


def mon_c15(case, lines, meta):
    _META[id(lines)] = meta
    kind, L, P, T = _cfg(case)
    ev = _timeline(lines, meta)
    fp = {}            # caller -> first-poll instant (arrival)
    admitted = {}      # caller -> admission instant
    ncalls = {}
    rejected = {}
    adm_times = []     # all admission instants so far
    tries = []         # instants of every try_acquire so far (first polls and post-sleep retries)
    promise = 0        # number of coming try_acquires that must be granted (idle-refill promise)
    horizon = {"log": P, "fixed": P, "counter": 3 * P}[kind]
    i = 0
    n = len(ev)
    while i < n:
        k, w, t = ev[i]
        if not w:
            i += 1
            continue
        nxt = ev[i + 1] if i + 1 < n else None
        nxt_is_call = lambda c: nxt is not None and nxt[0] == "line" and nxt[1][:2] == ["inner_call", c]
        nxt_is_rej = lambda c: nxt is not None and nxt[0] == "line" and nxt[1][:3] == ["result", c, "err:ratelimited"]
        if k == "meta" and w[0] == "#fp":
            c = w[1]
            fp[c] = t
            last = tries[-1] if tries else 0
            if P > 0 and t - last >= 2 * P:
                promise = L
            tries.append(t)
            recent = sum(1 for x in adm_times if x > t - horizon)
            if promise > 0:
                promise -= 1
                if not nxt_is_call(c):
                    return "caller %s arrived at t=%s among the first %d calls after the limiter had been idle for two periods (previous try_acquire at t=%s, period %d) but was not admitted at once" % (c, t, L, last, P)
            elif recent < L and not nxt_is_call(c):
                return "caller %s arrived at t=%s with only %d admissions in the preceding %d ms (limit %d) but was not admitted at once" % (c, t, recent, horizon, L)
            if not nxt_is_call(c) and not nxt_is_rej(c) and T == 0:
                return "caller %s put to sleep although timeout_duration is zero" % c
        elif k == "meta" and w[0] == "#wake":
            c = w[1]
            if nxt is not None and nxt[0] == "meta" and nxt[1][:2] == ["#wake", c]:
                # the future woke itself during this poll and is polled again within the same step (no time
                # passes, as on an executor): the decision is due by the end of the step, not of its first poll;
                # the wake-up instants of the step are those of all its polls
                nk, nw, nt = nxt
                ev[i + 1] = (nk, nw[:2] + [w[2] + "," + nw[2]] + nw[3:], nt)
                i += 1
                continue
            if c in fp and c not in admitted and c not in rejected:
                # a sleeping caller whose timer fired: this poll is its second try_acquire and must decide
                wk = [int(x) for x in w[2].split(",")]
                if not (nxt_is_call(c) or nxt_is_rej(c)):
                    return "caller %s was woken (t=%s) but its next poll neither admitted nor rejected it" % (c, wk)
                due = first_visited_at_or_after(case, fp[c] + T)
                if due is not None and min(wk) > due:
                    return "caller %s arrived at t=%s, timeout %d: not decidable before t=%s (first wake-up), later than arrival+timeout (first visited instant %s)" % (c, fp[c], T, min(wk), due)
                tnow = nxt[2]
                lastt = tries[-1] if tries else 0
                if P > 0 and tnow - lastt >= 2 * P:
                    promise = L
                tries.append(tnow)
                if promise > 0:
                    promise -= 1
                    if not nxt_is_call(c):
                        return "waiter %s retried at t=%s among the first %d try_acquires after two idle periods but was rejected" % (c, tnow, L)
        elif k == "line" and w[0] == "inner_call":
            c = w[1]
            ncalls[c] = ncalls.get(c, 0) + 1
            if ncalls[c] > 1:
                return "caller %s reached the inner service twice" % c
            if c in rejected:
                return "caller %s reached the inner service after being rejected" % c
            admitted[c] = t
            adm_times.append(t)
            if c not in fp:
                return "caller %s reached the inner service before its first poll" % c
            prev = ev[i - 1] if i > 0 else None
            at_once = prev is not None and prev[0] == "meta" and prev[1][:2] == ["#fp", c]
            if not at_once and t <= fp[c]:
                return "caller %s (arrived t=%s) was admitted after waiting, but at t=%s, not later than its arrival" % (c, fp[c], t)
        elif k == "line" and w[0] == "result":
            c = w[1]
            if w[2] == "err:ratelimited":
                if ncalls.get(c, 0) > 0:
                    return "caller %s was rejected although it had reached the inner service" % c
                rejected[c] = t
                prev = ev[i - 1] if i > 0 else None
                at_once = prev is not None and prev[0] == "meta" and prev[1][:2] == ["#fp", c]
                woken = prev is not None and prev[0] == "meta" and prev[1][:2] == ["#wake", c]
                if not at_once and not woken:
                    return "caller %s rejected at t=%s by a poll that was neither its first nor after a wake-up" % (c, t)
            elif w[2] != "notready":
                if ncalls.get(c, 0) != 1:
                    return "caller %s got %s after %d inner calls (must be exactly one)" % (c, w[2], ncalls.get(c, 0))
        i += 1
    return None


# ------------------------------------------------------------------------------------------ coverage

def transitions(case, lines, meta=None):
    kind = _cfg(case)[0]
    if meta is None:
        meta = _META.pop(id(lines), None)
    tags = []
    called = {}
    for l in lines:
        t, w = tparse(l)
        if not w:
            continue
        if w[0] == "inner_call":
            called[w[1]] = t
            tags.append("inner_call")
        elif w[0] == "inner_drop":
            tags.append("dropped-running")
        elif w[0] == "result":
            if w[2] == "err:ratelimited":
                tags.append(kind + ":rejected")
            else:
                tags.append("result-" + w[2].split(":")[0])
    if meta:
        ev = _timeline(lines, meta)
        fp = {}
        for i, (k, w, t) in enumerate(ev):
            if k == "meta" and w and w[0] == "#fp":
                fp[w[1]] = t
                nx = ev[i + 1] if i + 1 < len(ev) else None
                if nx and nx[0] == "line" and nx[1][:2] == ["inner_call", w[1]]:
                    tags.append(kind + ":admit-at-once")
                elif nx and nx[0] == "line" and nx[1][:3] == ["result", w[1], "err:ratelimited"]:
                    tags.append(kind + ":reject-at-once")
                else:
                    tags.append(kind + ":sleep")
            elif k == "meta" and w and w[0] == "#wake":
                nx = ev[i + 1] if i + 1 < len(ev) else None
                if nx and nx[0] == "line" and nx[1][:2] == ["inner_call", w[1]]:
                    tags.append(kind + ":admit-after-wait")
                elif nx and nx[0] == "line" and nx[1][:3] == ["result", w[1], "err:ratelimited"]:
                    tags.append(kind + ":reject-after-wait")
            elif k == "meta" and w and w[0] == "#drop":
                if w[1] in fp and w[1] not in called:
                    tags.append("dropped-before-admission")
    return tags


def nontrivial(case, lines, tags):
    return any(t.endswith(":rejected") for t in tags) or sum(1 for t in tags if t == "inner_call") >= 3 \
        or "dropped-running" in tags


KINDS = ["fixed", "log", "counter"]
COMMON = {
    "group": "ratelimiter",
    "gen": gen,
    "transitions": transitions,
    "nontrivial": nontrivial,
    "all_transitions": ["inner_call", "dropped-running", "result-ok", "result-err", "result-panic"]
                       + ["dropped-before-admission", "result-notready"]
                       + [k + ":" + x for k in KINDS for x in ("rejected", "admit-at-once", "reject-at-once", "sleep",
                                                                 "admit-after-wait", "reject-after-wait")],
    "model_modules": ["TR.Model.RateLimiter", "TR.Lemmas.RateLimiter", "TR.Mutants.AcquireWaitIsOk"],
    "lean_files": ["TR.Model.RateLimiter", "TR.Lemmas.RateLimiter"],
    "sizes": (600, 30000),
    "rule": "seeded random op sequences (bursts of L-1/L/L+1/more callers at one instant, polls, drops in every phase, advances biased "
            "to window boundaries / wake-up instants / timeouts -1/0/+1, settle) for the three window types, limit 1..4, timeout 0..3 periods, "
            "followed by quiescence + two idle periods + a burst of L(+1) calls; the wrapped service is the strict scripted service and is "
            "made not-ready for 0..3.5 periods (`manual busy`, alone and in episodes where bursts keep arriving in every window while it is "
            "busy and fresh callers retry afterwards); `manual dropsvc` (every limiter handle dropped) after a batch of calls whose futures have "
            "not been polled yet, and at random points; in 35 % of the cases the first request comes part-way into the first period and the next ones between "
            "construction + P and first admission + P; sliding counter on a 125 ms grid with periods 1/2/4 s; "
            "distinct = distinct implementation event log; non-trivial = a rate-limited rejection, a cancelled running call, or >= 3 admissions",
    "trusted": ["tokio sleep semantics (fires at the first visited instant >= deadline, deadline rounded up to 1 ms) — observed through the "
                "@woke choice and constrained by the model, not proved",
                "harness: clock_gettime interposition (virtual std::time::Instant), manual poller, scripted inner service", "python diff/monitors"],
    "assumptions": ["one try_acquire is one critical section (std Mutex); one poll of one call future is atomic (single-threaded runtime)",
                    "time in whole milliseconds; the sliding counter's float wait estimate est satisfies 0 < est <= time left in the bucket "
                    "(taken as an observed choice, checked against that range)",
                    "f64 evaluation of the sliding counter's weighted count is exact on the generated grid; off the grid it is not verified",
                    "limit_for_period >= 1, refresh_period >= 1 ms; usize modelled as unbounded Nat"],
}

LEVEL_NOTE = ("Trusted: Lean kernel; the transcription of limiter.rs / lib.rs in TR.Model.RateLimiter (validated by the sampled correspondence "
              "check only); tokio's sleep; the harness and the python diff. The sliding counter's wait estimate is float-valued: the model takes "
              "'rejected at once / put to sleep' and 'timer has fired' as observed choices and checks them against the range the code guarantees.")

SPECS = {
    "C02": dict(COMMON, module="TR.Props.C02", monitors=[("c02-window-bound", mon_c02), ("c02-called-only-when-ready", mon_ready)],
                level_text="Theorems TR.Props.C02.{fixed_windows,counter_windows,log_span,admit_iff_granted,...}: for every limit >= 1, "
                           "timeout, period >= 1 and every operation sequence, the instants of the inner calls are exactly the limiter's grants; for "
                           "the fixed window and the sliding counter they are cut by the limiter's own window starts into consecutive windows "
                           ">= refresh_period apart with at most limit grants each; for the sliding log any limit+1 consecutive grants span >= "
                           "refresh_period. The model is tied to the real RateLimiterLayer by line-for-line agreement of event logs.",
                level_note=LEVEL_NOTE),
    "C15": dict(COMMON, module="TR.Props.C15", monitors=[("c15-decision-and-routing", mon_c15), ("c15-later-admission-takes-a-permit", mon_c02),
                                                          ("c15-called-only-when-ready", mon_ready)],
                level_text="Theorems TR.Props.C15.{decided_within_timeout,admitted_at_once_if_capacity,later_admission_takes_later_permit,"
                           "rejected_never_inner,admitted_exactly_once,idle_two_periods_refills,cancelled_waiter_consumes_nothing}: every sleeping "
                           "caller's timer is due by arrival + timeout and the poll after it decides; a first poll with room reaches the inner "
                           "service in that step; an admission after waiting is a grant at a later instant (fixed: in a window begun after the "
                           "arrival); rejected callers never reach the inner service, admitted ones exactly once; after two idle periods the next "
                           "limit try_acquires are all granted; dropping a waiter changes nothing in the limiter.",
                level_note=LEVEL_NOTE),
}
