"""C02 / C15 — rate limiter: generator, implementation-side monitors

Header: `ratelimiter kind=fixed|log|counter limit=L period=P timeout=T` (milliseconds).
Fixed window and sliding log: arbitrary whole-millisecond instants. Sliding counter: periods 1/2/4 s and
every instant on a 125 ms grid, so that every f64 operation of the weighted test is exact (dyadic).

The wrapped service is the strict scripted service (`inner_call c k tag=c ready=0|1`).
`manual busy ms=n`: the wrapped service is not ready (poll_ready pending, every instance) until n ms from now; a
caller arriving meanwhile is turned away before `call` (`result c notready`) and the generator lets fresh callers
retry later. `manual dropsvc`: every handle of the rate limiter is dropped (later arrivals are `noop`), the call
futures made so far — polled or not — live on.

Construction paths (header): `via=per_second n=` / `via=per_minute n=` / `via=burst rate= burst=` / `via=default`
(presets and the builder's own defaults; `limit= period= timeout= kind=` with them are builder methods called after
the preset), `name=`, `listen=1` (the three listeners registered), `tick=us`. `_cfg` below resolves the header to the
effective configuration from the crate's documentation, independently of the Lean model.
Services and handles: `arrive c svc=k` (service k is built from the same layer value when first used; `lclone=1`: from
a clone of the layer), `h=0` (the service value itself, reused), `h=j` (a kept clone, reused). Every service has its
own window state; the monitors are applied per service.
`manual ready script=pe…`: scripted answers of the wrapped service's `poll_ready` (pending / error).
Very long idle stretches ("huge" cases: period of 1–3 ticks, `adv` of k·2^32 periods and neighbours, 2^31 periods,
2^32 ticks — 49.7 days at 1 ms — measured from the limiter's last try_acquire).

The sliding counter's f64 arithmetic, inside and OUTSIDE the conditions under which it is exact
(lean/TR/Lemmas/RateLimiterF64.lean): "offgrid" cases — buckets that are not whole seconds (3 … 1400 ms), whole-
millisecond instants, limits up to 6, instants at the fractions k/j of a bucket and `boundary` episodes that put the
exact weighted count exactly on the limit part-way into a bucket (there the code's comparison is an observed choice,
`@adm`); "slip" cases — buckets B for which `(2B).as_secs_f64() / B.as_secs_f64()` is below 2.0 (559, 561, 672 … ms) with
a try_acquire exactly two buckets after a bucket start (`@b1`; header `note=f64slip`); "zeroest" cases — `tick=us`,
bucket of 1 µs, limits 90 … 260, full buckets followed one tick later by a burst: the wait estimate
0.1·bucket/previous_count is below, around and above half a nanosecond (`Duration::from_secs_f64` rounds it to ZERO
above limit 200; header `note=zeroest`).
"""
from gen.util import kvs, tparse, pick_outcome
from gen.bulkhead import first_visited_at_or_after, _timeline

GRID = 125


def _timeout_choices(rng, P, G):
    cand = [0, 0, 1, P // 2, P - 1, P, P, P + 1, P + P // 2, 2 * P, 2 * P + 1, 3 * P, rng.randint(0, 3 * P)]
    t = max(0, rng.choice(cand))
    if G > 1 and rng.random() < 0.7:
        t = (t // G) * G
    return t


TWO32 = 2 ** 32
COUNTER_PERIODS = [1000, 1000, 2000, 4000]     # whole seconds: every instant on the 125 ms grid is a dyadic fraction of them


def _last_try_time(ops):
    """instant of the last operation that can have made a try_acquire (a poll / settle), as far as the generator knows"""
    now, last = 0, 0
    for o in ops:
        w = o.split()
        if w[0] == "adv":
            now += int(w[1])
        elif w[0] in ("poll", "settle"):
            last = now
    return last


def _secs(ns):
    """Duration::as_secs_f64 (secs as f64 + nanos as f64 / 1e9), in IEEE binary64 like the code"""
    q, r = divmod(ns, 10 ** 9)
    return float(q) + float(r) / 1e9


def f64_slips(P_ms):
    """the f64 quotient (2B)/B, cast to u32, is 1 for the bucket B = P_ms milliseconds"""
    return P_ms > 0 and int(_secs(2 * P_ms * 10 ** 6) / _secs(P_ms * 10 ** 6)) == 1


SLIP_PERIODS = [p for p in range(500, 3000) if f64_slips(p)][:60]                     # 559, 561, 672, 674, …
OFFGRID_PERIODS = [3, 6, 7, 9, 11, 12, 22, 30, 44, 51, 60, 71, 100, 300, 420, 700, 1400]   # not whole seconds


def gen_zeroest(rng):
    """`tick=us`, a bucket of one (two) microseconds, a large limit: a full bucket, then one tick later a burst. The wait
    estimate is at least 0.1·bucket / previous_count: 100 ns / L for a bucket of 1 us — above 0.5 ns (rounds to 1 ns: rejected,
    timeout 0) for L <= 200, below for L >= 201 (Duration::ZERO). With a bucket of 2 us the second tick of a bucket has the
    fractional weight 1/2: after the rotation L/2 calls are granted at e = 1 us, then the weighted count is exactly the limit
    and the estimate 200 ns / L."""
    P = rng.choice([1, 1, 1, 2])
    L = rng.choice([90, 150, 199, 200, 201, 201, 202, 230, 260]) * P
    # Mostly the burst that follows a full bucket is at most L calls: above limit 200 they are admitted without a permit, which
    # the model must follow, but the admission instants can still be cut into windows. Rarely (2 % of these cases) it is larger:
    # those cases contradict C02 on the unmodified tree (known_findings.json) — kept rare so that they never crowd out other
    # failing cases among the ones a check classifies.
    big = rng.random() < 0.02
    ops, c = [], 1
    if rng.random() < 0.3:
        ops.append("adv %d" % rng.choice([1, 2, 5]))

    def burst(n):
        nonlocal c
        for _ in range(n):
            ops.append("arrive %d inner=0:ok" % c)
            ops.append("poll %d" % c)
            c += 1
    for _round in range(rng.choice([1, 1, 2]) if P == 1 else 1):
        burst(rng.choice([L, L, L + 1, L - 1]))
        ops.append("adv %d" % P)
        if P == 1:
            burst(rng.choice([L + 1, L + 3]) if big else rng.choice([1, 3, L // 2, L - 1, L]))
        else:
            burst(rng.choice([1, 3]))
            ops.append("adv 1")              # half-way into the bucket: weight 1/2 — L/2 grants, then the count is exactly L
            burst((L + 2) if big else rng.choice([L // 2 - 3, L // 2, L // 2 + 2, L // 2 + 20]))
        if rng.random() < 0.5:
            ops.append("adv %d" % rng.choice([1, 1, 2, 3]))
            burst(rng.choice([1, 2, 5]))
        ops.append("adv %d" % rng.choice([1, 2, 2, 3, 5]))
    if rng.random() < 0.5:
        ops.append("settle")
    return {"header": "ratelimiter kind=counter limit=%d period=%d timeout=0 tick=us note=zeroest" % (L, P), "ops": ops}


def gen(rng, tier):
    family = rng.random()
    if family < 0.035:
        return gen_zeroest(rng)
    offgrid = 0.035 <= family < 0.16          # sliding counter off the dyadic grid
    # … with a bucket whose f64 quotient at exactly two buckets is below 2. Rare: a try_acquire exactly two buckets after a
    # bucket start is then rejected where C15 promises an admission (unmodified tree; known_findings.json) — see gen_zeroest.
    slip = 0.035 <= family < 0.036
    kind = rng.choice(["fixed", "fixed", "log", "log", "counter", "counter"])
    L = rng.choice([1, 1, 2, 2, 3, 4])
    if offgrid:
        kind, L = "counter", rng.choice([1, 2, 3, 3, 4, 4, 5, 6])
    grid = kind == "counter" and not offgrid
    if grid:
        P = rng.choice(COUNTER_PERIODS)
    elif offgrid:
        P = rng.choice(SLIP_PERIODS) if slip else rng.choice(OFFGRID_PERIODS)
        if not slip and rng.random() < 0.5 and not f64_slips(P * L):
            P = P * L if P * L <= 3000 else P           # fractions k/L of the bucket are then whole milliseconds
    else:
        P = rng.choice([10, 50, 100, 100, rng.randint(1, 200)])
    T = _timeout_choices(rng, P, GRID if grid else 1)
    huge = us = False
    how = rng.random()
    if offgrid:
        slip = f64_slips(P)                   # (a multiple of an ordinary off-grid bucket can be such a bucket too: 4 * 420 ms)
        hdr = "kind=%s limit=%d period=%d timeout=%d" % (kind, L, P, T) + (" note=f64slip" if slip else "")
    elif how < 0.12:
        # very long idle stretches: a period of a few ticks, so that 2^32 periods (and several of them) fit the clock.
        # Sliding counter: period 1 or 2 — the elapsed ratio is then 0 or exactly 1/2, every f64 operation exact.
        huge = True
        P = rng.choice([1, 1, 2]) if grid else rng.choice([1, 1, 2, 3])
        T = rng.choice([0, 1, P, P + 1, 2 * P, 3 * P, rng.randint(0, 3 * P)])
        if rng.random() < 0.25:
            us, T = True, 0      # 1 tick = 1 µs; tokio's timers have millisecond granularity, so nobody may sleep
        hdr = "kind=%s limit=%d period=%d timeout=%d" % (kind, L, P, T) + (" tick=us" if us else "")
    elif how < 0.36:
        # preset constructors / the builder's defaults, optionally customised afterwards
        v = rng.choice(["per_second", "per_second", "per_minute", "burst", "burst", "default"])
        if v == "per_second":
            kind, P, T, hdr = "fixed", 1000, 100, "via=per_second n=%d" % L
        elif v == "per_minute":
            kind, P, T, hdr = "fixed", 60000, 1000, "via=per_minute n=%d" % L
        elif v == "burst":
            b = rng.randint(0, L)
            kind, P, T, hdr = "counter", 1000, 100, "via=burst rate=%d burst=%d" % (L - b, b)
        else:
            kind, P, T, hdr = "fixed", 1000, 100, "via=default limit=%d" % L      # defaults: 50 / 1 s / 100 ms / fixed
        if v in ("per_second", "per_minute") and rng.random() < 0.2:
            hdr = "via=%s n=%d limit=%d" % (v, rng.choice([1, 5, 50, 1000]), L)
        over = set(rng.sample(["timeout", "kind", "period"], rng.randint(1, 2))) if rng.random() < 0.5 else set()
        if "kind" in over:
            kind = rng.choice(["fixed", "log", "counter"])
        if kind == "counter" and P not in COUNTER_PERIODS:
            over.add("period")
        if "period" in over:
            P = rng.choice(COUNTER_PERIODS) if kind == "counter" else rng.choice([10, 50, 100, 1000, rng.randint(1, 200)])
        grid = kind == "counter"
        if "timeout" in over:
            T = _timeout_choices(rng, P, GRID if grid else 1)
        for k, val in (("kind", kind), ("period", P), ("timeout", T)):
            if k in over:
                hdr += " %s=%s" % (k, val)
    else:
        hdr = "kind=%s limit=%d period=%d timeout=%d" % (kind, L, P, T)
    if rng.random() < 0.3:
        hdr += " name=rl-%d" % rng.randint(0, 9)
    if rng.random() < 0.3:
        hdr += " listen=1"
    header = "ratelimiter " + hdr
    G = GRID if grid and not huge else 1          # every instant of the case is a multiple of G
    # several services built from the one layer value; kept / reused handles
    nsvc = rng.choice([2, 2, 3]) if rng.random() < 0.25 else 1
    handles = rng.random() < 0.4
    built = {0}
    long_left = 2                                  # very long advances still allowed in this case
    ops = []
    now = 0
    marks = [P, 2 * P]           # interesting instants: window boundaries, wake-ups, timeouts
    if 0 < T < P:
        marks.extend([P - T, 2 * P - T])     # the last instant from which the end of the window is within the timeout
    if offgrid:
        marks.extend([P + P * k // j for j in range(2, L + 1) for k in range(1, j)])
    arrived = []
    nxt = 1
    busy_until = 0               # the wrapped service is not ready before this instant (generator's own bookkeeping)
    gone = False                 # `manual dropsvc` has been issued

    def q(d):
        return (d // G) * G

    def pick_svc():
        return rng.choice([0, 0] + list(range(1, nsvc)))

    def how_called(k):
        """`svc=` / `lclone=` / `h=` words of an arrival at service k"""
        extra = ""
        if k:
            extra += " svc=%d" % k
            if k not in built:
                built.add(k)
                marks.extend([now + P, now + 2 * P])       # its first window / bucket starts now
                if rng.random() < 0.3:
                    extra += " lclone=1"
        if handles and rng.random() < 0.7:
            extra += " h=%d" % rng.choice([0, 0, 1, 1, 2])
        return extra

    def arrive(poll_p=0.85, svc=None):
        nonlocal nxt
        c = nxt
        nxt += 1
        lat = 0 if us else q(rng.choice([0, 0, 0, 1, 5, P // 2, P, rng.randint(0, 2 * P)]))
        k = pick_svc() if svc is None else svc
        ops.append("arrive %d inner=%d:%s%s" % (c, lat, pick_outcome(rng, 7, 2, 1, 1), how_called(k)))
        arrived.append(c)
        if rng.random() < poll_p:
            ops.append("poll %d" % c)
            marks.extend([now + P, now + T, now + lat, now + 2 * P] + ([now + P - T] if 0 < T < P else []))
            if offgrid and rng.random() < 0.3:
                j = rng.randint(1, L)
                marks.extend([now + P * k // j for k in range(1, j)] + [now + P + P * k // j for k in range(1, j)])
        return c

    def boundary_episode():
        # sliding counter: a full bucket, a try exactly one bucket later (rotation: previous = L), then pairs of calls at
        # the instants where previous·(1 − e/B) + current is exactly the limit (e = B·current/L): the first of a pair is
        # granted below the limit, the second finds the weighted count exactly on it
        nonlocal now
        for _ in range(L):
            if nxt < 60:
                arrive(1.0, 0)
        ops.append("adv %d" % P)
        now += P
        if nxt < 60:
            arrive(1.0, 0)
        e = 0
        for cur in range(1, L):
            ne = P * cur // L
            if ne > e:
                ops.append("adv %d" % (ne - e))
                now += ne - e
                e = ne
            for _ in range(rng.choice([2, 2, 3])):
                if nxt < 60:
                    arrive(1.0, 0)
        marks.extend([now + P - e, now + 2 * P - e, now + 2 * P])

    def slip_episode(quiet=True):
        # a try_acquire that starts a bucket (a full burst after at least one quiet period — or at t = 0, where the first
        # bucket starts with the limiter), then EXACTLY two periods later the next burst: the elapsed time is exactly two buckets
        nonlocal now
        if quiet:
            d = rng.choice([P, P + 1, 2 * P, 3 * P])
            ops.append("adv %d" % d)
            now += d
        for _ in range(rng.choice([1, L, L])):
            if nxt < 60:
                arrive(1.0, 0)
        d = 2 * P + rng.choice([0, 0, 0, 0, 1, -1])
        ops.append("adv %d" % d)
        now += d
        for _ in range(rng.choice([1, L, L + 1])):
            if nxt < 60:
                arrive(1.0, 0)

    def busy(d):
        nonlocal busy_until
        d = q(d)
        ops.append("manual busy ms=%d" % d)
        busy_until = now + d
        marks.extend([now + d, now + d + P])

    def long_idle():
        """an idle stretch of about k·2^32 periods (the count of elapsed periods as a 32-bit number wraps to 0 / 1 /
        2^32-1), 2^31 periods, or 2^32 ticks, measured from the last try_acquire the generator knows of"""
        nonlocal long_left
        long_left -= 1
        kmax = max(1, 4 // P)
        M = rng.choice([TWO32 * P * rng.randint(1, kmax)] * 5 + [TWO32 * P // 2, TWO32, TWO32 * P - P])
        delta = rng.choice([0, 0, 0, 1, P - 1, P, P + 1, 2 * P - 1, 2 * P, 2 * P + 1, -1, rng.randint(0, 3 * P)])
        d = M + delta
        if rng.random() < 0.75:
            d -= now - _last_try_time(ops)
        return max(0, d)

    def busy_episode():
        # the wrapped service stays busy across k window boundaries while callers keep arriving (they are turned
        # away: their polls are `noop`); when it is ready again fresh callers retry
        nonlocal now
        k = rng.choice([1, 2, 2, 3])
        if rng.random() < 0.5 and nxt < 40:
            k0 = pick_svc()
            for _ in range(rng.choice([1, L])):
                arrive(1.0, k0)
        busy(k * P + rng.choice([0, 1, P // 2, P // 2, P - 1]))
        for w in range(k + 1):
            if nxt < 40:
                k0 = pick_svc()
                for _ in range(rng.choice([1, L, L, L + 1])):
                    arrive(0.9, k0)
            if now >= busy_until:
                break
            d = q(rng.choice([P, P, P + 1, max(1, busy_until - now)]))
            d = min(d, q(busy_until - now + rng.choice([0, 0, G])))
            ops.append("adv %d" % d)
            now += d
        if now < busy_until and rng.random() < 0.8:
            d = q(busy_until - now + G - 1)
            ops.append("adv %d" % d)
            now += d
        if rng.random() < 0.8:
            ops.append("settle")
        if nxt < 40:
            k0 = pick_svc()
            for _ in range(rng.choice([1, L, L + 1])):
                arrive(0.9, k0)

    def dropsvc_episode():
        # a batch of calls is made, every handle of the limiter goes away, only then are the responses driven
        nonlocal gone, now
        n = rng.choice([L, L + 1, L + 1, L + 2, 2 * L + 1])
        ids = []
        k0 = pick_svc()
        for _ in range(min(n, 7)):
            if nxt < 40:
                ids.append(arrive(rng.choice([0.0, 0.0, 0.3]), k0))
        ops.append("manual dropsvc")
        gone = True
        if rng.random() < 0.3:
            d = q(rng.choice([1, P // 2, P, P + 1]))
            ops.append("adv %d" % d)
            now += d
        rng.shuffle(ids)
        ops.extend("poll %d" % c for c in ids)

    # the first request need not come at the instant the limiter is built: it arrives part-way into the first period
    # (the first window / bucket starts at construction, a sliding log's span starts at the first admission)
    if rng.random() < 0.35:
        x = q(rng.choice([1, P // 2, P // 2, P - 1, rng.randint(1, max(1, P - 1))]))
        if x == 0:
            x = G
        ops.append("adv %d" % x)
        now += x
        marks.append(now + P)
        if rng.random() < 0.7:
            k0 = pick_svc()
            for _ in range(rng.choice([1, L, L])):
                arrive(1.0, k0)
            if rng.random() < 0.6:
                # … and the next ones between construction + P and first admission + P
                d = q(P - x + rng.choice([0, 0, 1, x // 2, max(0, x - 1)]))
                ops.append("adv %d" % d)
                now += d
                for _ in range(rng.choice([1, 1, L])):
                    arrive(1.0, k0)
    nsteps = rng.randint(6, 32)
    episode_at = rng.randrange(nsteps) if rng.random() < 0.25 else -1
    dropsvc_at = rng.randrange(nsteps) if rng.random() < 0.12 else -1
    f64_at = rng.randrange(nsteps) if offgrid and rng.random() < 0.7 else -1
    if offgrid and rng.random() < 0.5 and now == 0:
        if slip:
            slip_episode(quiet=rng.random() < 0.5)
        else:
            boundary_episode()
    for step_i in range(nsteps):
        r = rng.random()
        if step_i == f64_at and not gone:
            (slip_episode if slip and rng.random() < 0.7 else boundary_episode)()
        elif step_i == episode_at and not gone:
            busy_episode()
        elif step_i == dropsvc_at and not gone:
            dropsvc_episode()
        elif r < 0.015 and not gone:
            ops.append("manual dropsvc")
            gone = True
        elif r < 0.05 and not gone:
            busy(rng.choice([0, 1, P // 2, P, P + P // 2, 2 * P + 1, rng.randint(0, 3 * P)]))
        elif r < 0.068 and not gone:
            # the next poll_ready calls of the wrapped service answer pending / error / ready — while others sleep or run
            ops.append("manual ready script=%s" % "".join(rng.choice("peepr") for _ in range(rng.randint(1, 3))))
            if nxt < 40 and rng.random() < 0.7:
                for _ in range(rng.randint(1, 3)):
                    arrive(0.9)
        elif gone and r < 0.32 and rng.random() < 0.8:
            ops.append("poll %d" % rng.choice(arrived[-8:]) if arrived else "settle")
        elif r < 0.22 and nxt < 40:
            # a burst at one instant: L-1 / L / L+1 / more callers
            n = max(1, rng.choice([1, L - 1, L, L + 1, L + 2, 2 * L + 1]))
            k0 = pick_svc()
            ids = [arrive(svc=k0) for _ in range(min(n, 7))]
            if rng.random() < 0.3:
                order = ids[:]
                rng.shuffle(order)
                ops.extend("poll %d" % c for c in order)
        elif r < 0.32 and nxt < 40:
            arrive(0.6)
        elif r < 0.50 and arrived:
            ops.append("poll %d" % rng.choice(arrived[-8:]))
        elif r < 0.57 and arrived:
            ops.append("drop %d" % rng.choice(arrived[-8:]))
        elif r < 0.88:
            fut = [m for m in marks if m >= now]
            if fut and rng.random() < 0.75:
                d = max(0, rng.choice(fut) - now + rng.choice([-G, 0, 0, 0, G]))
            else:
                d = rng.choice([0, 1, 2, P // 2, P - 1, P, P + 1, rng.randint(0, 2 * P)])
            d = q(d)
            if long_left > 0 and rng.random() < (0.10 if huge else 0.003):
                d = q(long_idle()) if huge else q(TWO32 + rng.choice([0, 1, P, 2 * P]))
                long_left -= 0 if huge else 1
            ops.append("adv %d" % d)
            now += d
        else:
            ops.append("settle")
    # C15: quiesce, stay idle for two full periods (exactly, or a little more — or for a very long time), then a burst
    # of L (+1) calls at one service
    if rng.random() < 0.75 and not gone:
        ops.append("settle")
        ops.append("dropall")
        if now < busy_until:
            ops.append("manual busy ms=0")
        d = 2 * P + q(rng.choice([0, 0, 0, 1, P // 2, P, 3 * P]))
        if rng.random() < 0.15:
            d = q(max(0, 2 * P - G))     # just short of two periods: no promise
        if huge and long_left > 0 and rng.random() < 0.8:
            d = q(long_idle())
        ops.append("adv %d" % d)
        now += d
        n = L + (1 if rng.random() < 0.5 else 0)
        ids = []
        k0 = rng.choice(sorted(built)) if rng.random() < 0.8 else pick_svc()
        for i in range(n):
            c = 100 + i
            ops.append("arrive %d inner=%d:ok%s" % (c, 0 if us else q(rng.choice([0, 0, 7, P])), how_called(k0)))
            ids.append(c)
            if rng.random() < 0.3:
                ops.append("poll %d" % c)
                if rng.random() < 0.3:
                    dd = q(rng.choice([0, 1, P // 2, P]))
                    ops.append("adv %d" % dd)
                    now += dd
        rng.shuffle(ids)
        ops.extend("poll %d" % c for c in ids)
        if rng.random() < 0.6:
            ops.append("adv %d" % q(rng.choice([T, P, max(T, P)])))
            ops.append("settle")
    return {"header": header, "ops": ops}


# ------------------------------------------------------------------------------------------ monitors

def _cfg(case):
    """effective configuration (kind, limit, period, timeout — in ticks) of the case header, from the crate's documentation:
    per_second(n) = n per 1 s, 100 ms timeout; per_minute(n) = n per 60 s, 1 s timeout; burst(r, b) = r + b per 1 s,
    100 ms timeout, sliding counter; builder defaults = 50 per 1 s, 100 ms timeout, fixed window; a builder method
    called after a preset replaces that field"""
    k = kvs(case["header"])
    u = 1000 if k.get("tick") == "us" else 1
    via = k.get("via", "builder")
    if via == "per_second":
        base = ("fixed", int(k.get("n", "1")), 1000 * u, 100 * u)
    elif via == "per_minute":
        base = ("fixed", int(k.get("n", "1")), 60000 * u, 1000 * u)
    elif via == "burst":
        base = ("counter", int(k.get("rate", "1")) + int(k.get("burst", "0")), 1000 * u, 100 * u)
    elif via == "default":
        base = ("fixed", 50, 1000 * u, 100 * u)
    else:
        base = ("fixed", 1, 1000, 0)
    return (k.get("kind", base[0]), int(k.get("limit", base[1])), int(k.get("period", base[2])), int(k.get("timeout", base[3])))


def _services(case):
    """caller -> service, service -> the instant it was built (service 0: together with the layer, at 0; service k:
    at its first `arrive … svc=k`, unless every handle had been dropped before)"""
    svc_of, built = {}, {0: 0}
    now, gone = 0, False
    for o in case["ops"]:
        w = o.split()
        if not w:
            continue
        if w[0] == "adv":
            now += int(w[1])
        elif w[:2] == ["manual", "dropsvc"]:
            gone = True
        elif w[0] == "arrive" and w[1] not in svc_of:
            k = 0
            for x in w[2:]:
                if x.startswith("svc="):
                    k = int(x[4:])
            svc_of[w[1]] = k
            if not gone:
                built.setdefault(k, now)
    return svc_of, built


def _tl(lines, meta):
    """timeline without the listener notes (`#ev …`, `listen=1`)"""
    return _timeline(lines, [m for m in meta if not m[1].startswith("#ev")])


def cut_exists(a, L, P, t0=0):
    """Decides the property's existential exactly: can the time axis (from t0, where the limiter is created)
    be cut at integer instants into consecutive windows [b_k, b_k+1), each at least P long, each holding at most
    L of the admission instants a[0] <= a[1] <= ... ?  dp[j] = earliest start of a window whose first admission
    is a[j]."""
    n = len(a)
    if n == 0:
        return True
    INF = float("inf")
    dp = [INF] * n
    dp[0] = t0
    for j in range(1, n):
        best = INF
        for i in range(max(0, j - L), j):
            if dp[i] == INF:
                continue
            b = max(dp[i] + P, a[j - 1] + 1)
            if b <= a[j] and b < best:
                best = b
        dp[j] = best
    return any(dp[i] != INF for i in range(max(0, n - L), n))


def admissions(lines, svc_of=None):
    """service -> admission instants (instants of the calls of the wrapped service made for that service's callers)"""
    a = {}
    for l in lines:
        t, w = tparse(l)
        if w and w[0] == "inner_call":
            a.setdefault((svc_of or {}).get(w[1], 0), []).append(t)
    return a


def mon_ready(case, lines, meta):
    """Tower readiness contract, stated on the strict wrapped service's own log: it is only ever called on an
    instance that has reported ready (poll_ready returned Ready on that very instance since its previous call)."""
    for l in lines:
        t, w = tparse(l)
        if w and w[0] == "inner_call" and "ready=0" in w[2:]:
            return ("caller %s: the wrapped service was called at t=%s on an instance that had not reported ready "
                    "(Tower readiness contract: poll_ready must have returned Ready on the instance that is called, "
                    "since that instance's previous call)" % (w[1], t))
    return None


_META = {}   # id(implementation lines) -> meta lines; lets `transitions` (called without meta by vlib.core) see #fp/#wake/#drop


def mon_c02(case, lines, meta):
    _META[id(lines)] = meta
    kind, L, P, T = _cfg(case)
    svc_of, built = _services(case)
    for k, a in sorted(admissions(lines, svc_of).items()):
        who = "" if k == 0 and len(built) == 1 else "service %d (built at t=%s): " % (k, built.get(k, 0))
        if a != sorted(a):
            return who + "admission instants not in order: %s" % a
        if kind == "log":
            for i in range(len(a) - L):
                if a[i + L] - a[i] < P:
                    return who + "sliding log: admissions %d..%d (%d+1 consecutive) at t=%s span %d < refresh_period=%d" % (
                        i, i + L, L, a[i:i + L + 1], a[i + L] - a[i], P)
            continue
        if not cut_exists(a, L, P, built.get(k, 0)):
            return who + "%s window: admission instants %s cannot be cut into consecutive windows >= %d ms with at most %d admissions each" % (
                kind, a, P, L)
    return None


def mon_c15(case, lines, meta):
    """every service built from the layer is a rate limiter of its own: the clauses are checked service by service, on
    the events of that service's callers"""
    _META[id(lines)] = meta
    svc_of, built = _services(case)
    ev = _tl(lines, meta)
    for k in sorted(built):
        mine = [e for e in ev if len(e[1]) > 1 and svc_of.get(e[1][1], 0) == k]
        msg = _c15_one(case, mine, built[k])
        if msg:
            return msg if k == 0 and len(built) == 1 else "service %d (built at t=%s): %s" % (k, built[k], msg)
    return None


def _c15_one(case, ev, t0):
    kind, L, P, T = _cfg(case)
    fp = {}            # caller -> first-poll instant (arrival)
    admitted = {}      # caller -> admission instant
    ncalls = {}
    rejected = {}
    adm_times = []     # all admission instants so far
    tries = []         # instants of every try_acquire so far (first polls and post-sleep retries)
    promise = 0        # number of coming try_acquires that must be granted (idle-refill promise)
    idle_from = t0     # the try_acquire (or construction) the idle stretch of the current promise began with
    horizon = {"log": P, "fixed": P, "counter": 3 * P}[kind]
    i = 0
    n = len(ev)
    while i < n:
        k, w, t = ev[i]
        if not w:
            i += 1
            continue
        nxt = ev[i + 1] if i + 1 < n else None
        nxt_is_call = lambda c: nxt is not None and nxt[0] == "line" and nxt[1][:2] == ["inner_call", c]
        nxt_is_rej = lambda c: nxt is not None and nxt[0] == "line" and nxt[1][:3] == ["result", c, "err:ratelimited"]
        if k == "meta" and w[0] == "#fp":
            c = w[1]
            fp[c] = t
            last = tries[-1] if tries else t0
            if P > 0 and t - last >= 2 * P:
                promise, idle_from = L, last
            tries.append(t)
            recent = sum(1 for x in adm_times if x > t - horizon)
            if promise > 0:
                promise -= 1
                if not nxt_is_call(c):
                    return "caller %s arrived at t=%s among the first %d calls after the limiter had been idle for two periods (previous try_acquire at t=%s, period %d) but was not admitted at once" % (c, t, L, idle_from, P)
            elif recent < L and not nxt_is_call(c):
                return "caller %s arrived at t=%s with only %d admissions in the preceding %d ms (limit %d) but was not admitted at once" % (c, t, recent, horizon, L)
            if not nxt_is_call(c) and not nxt_is_rej(c) and T == 0:
                return "caller %s put to sleep although timeout_duration is zero" % c
        elif k == "meta" and w[0] == "#wake":
            c = w[1]
            if nxt is not None and nxt[0] == "meta" and nxt[1][:2] == ["#wake", c]:
                # the future woke itself during this poll and is polled again within the same step (no time
                # passes, as on an executor): the decision is due by the end of the step, not of its first poll;
                # the wake-up instants of the step are those of all its polls
                nk, nw, nt = nxt
                ev[i + 1] = (nk, nw[:2] + [w[2] + "," + nw[2]] + nw[3:], nt)
                i += 1
                continue
            if c in fp and c not in admitted and c not in rejected:
                # a sleeping caller whose timer fired: this poll is its second try_acquire and must decide
                wk = [int(x) for x in w[2].split(",")]
                if not (nxt_is_call(c) or nxt_is_rej(c)):
                    return "caller %s was woken (t=%s) but its next poll neither admitted nor rejected it" % (c, wk)
                due = first_visited_at_or_after(case, fp[c] + T)
                if due is not None and min(wk) > due:
                    return "caller %s arrived at t=%s, timeout %d: not decidable before t=%s (first wake-up), later than arrival+timeout (first visited instant %s)" % (c, fp[c], T, min(wk), due)
                tnow = nxt[2]
                lastt = tries[-1] if tries else t0
                if P > 0 and tnow - lastt >= 2 * P:
                    promise, idle_from = L, lastt
                tries.append(tnow)
                if promise > 0:
                    promise -= 1
                    if not nxt_is_call(c):
                        return "waiter %s retried at t=%s among the first %d try_acquires after two idle periods but was rejected" % (c, tnow, L)
        elif k == "line" and w[0] == "inner_call":
            c = w[1]
            ncalls[c] = ncalls.get(c, 0) + 1
            if ncalls[c] > 1:
                return "caller %s reached the inner service twice" % c
            if c in rejected:
                return "caller %s reached the inner service after being rejected / turned away" % c
            admitted[c] = t
            adm_times.append(t)
            if c not in fp:
                return "caller %s reached the inner service before its first poll" % c
            prev = ev[i - 1] if i > 0 else None
            at_once = prev is not None and prev[0] == "meta" and prev[1][:2] == ["#fp", c]
            if not at_once and t <= fp[c]:
                return "caller %s (arrived t=%s) was admitted after waiting, but at t=%s, not later than its arrival" % (c, fp[c], t)
        elif k == "line" and w[0] == "result":
            c = w[1]
            if w[2] == "err:ratelimited":
                if ncalls.get(c, 0) > 0:
                    return "caller %s was rejected although it had reached the inner service" % c
                rejected[c] = t
                prev = ev[i - 1] if i > 0 else None
                at_once = prev is not None and prev[0] == "meta" and prev[1][:2] == ["#fp", c]
                woken = prev is not None and prev[0] == "meta" and prev[1][:2] == ["#wake", c]
                if not at_once and not woken:
                    return "caller %s rejected at t=%s by a poll that was neither its first nor after a wake-up" % (c, t)
            elif w[2] == "notready":
                if c in fp or ncalls.get(c, 0) > 0:
                    return "caller %s was turned away because the wrapped service was not ready, yet it had been polled / had reached the wrapped service" % c
                rejected[c] = t         # it never had a call future: it must not reach the wrapped service later either
            else:
                if ncalls.get(c, 0) != 1:
                    return "caller %s got %s after %d inner calls (must be exactly one)" % (c, w[2], ncalls.get(c, 0))
        i += 1
    return None


# ------------------------------------------------------------------------------------------ coverage

def _counter_tags(case, ev):
    """Coverage only (one service, sliding counter): an exact-integer shadow of the bucket state, driven by the instants of
    the implementation's try_acquires and by whether each one admitted, that says which of the f64-sensitive situations
    a case reached: the weighted count exactly on the limit part-way into a bucket (and whether the code granted there),
    an admission with no room at all (a wait estimate of zero), a try_acquire exactly two buckets after a bucket start
    (and whether the f64 bucket count slips there for this period)."""
    kind, L, P, T = _cfg(case)
    if kind != "counter" or P <= 0:
        return []
    tick_ns = 1000 if kvs(case["header"]).get("tick") == "us" else 10 ** 6
    slips = int(_secs(2 * P * tick_ns) / _secs(P * tick_ns)) == 1
    tags = []
    start = prev = cur = 0
    fp, decided = set(), set()
    n = len(ev)
    for i, (k, w, t) in enumerate(ev):
        if k != "meta" or not w or w[0] not in ("#fp", "#wake"):
            continue
        c = w[1]
        nx = ev[i + 1] if i + 1 < n else None
        called = nx is not None and nx[0] == "line" and nx[1][:2] == ["inner_call", c]
        rejected = nx is not None and nx[0] == "line" and nx[1][:3] == ["result", c, "err:ratelimited"]
        if w[0] == "#fp":
            fp.add(c)
            now = t
        else:
            if c not in fp or c in decided or not (called or rejected):
                continue
            now = nx[2]
        if called or rejected:
            decided.add(c)
        e = now - start
        if e >= P:
            if e == 2 * P:
                tags.append("counter:two-buckets-exact")
                if slips:
                    tags.append("counter:f64-slip")
                two = not slips
            else:
                two = e // P >= 2
            prev, cur, start, e = (0 if two else cur), 0, now, 0
        lhs, rhs = prev * (P - e) + cur * P, L * P
        if lhs < rhs:
            room = True
        elif lhs == rhs and prev > 0 and e != 0 and not (
                e * 2 == P or e * 4 == P or e * 8 == P
                or (P * tick_ns in (10 ** 9, 2 * 10 ** 9, 4 * 10 ** 9) and (e * tick_ns) % 1953125 == 0)):
            # … off the dyadic grid (where every f64 operation of the weighted count is exact: TR.RateLimiter.f64Exact)
            tags.append("counter:on-boundary")
            room = called
            if called:
                tags.append("counter:boundary-grant")
        else:
            room = False
            if called:
                tags.append("counter:zero-estimate")
        if room:
            cur += 1
    return tags


def transitions(case, lines, meta=None):
    kind = _cfg(case)[0]
    if meta is None:
        meta = _META.pop(id(lines), None)
    tags = []
    called = {}
    for l in lines:
        t, w = tparse(l)
        if not w:
            continue
        if w[0] == "inner_call":
            called[w[1]] = t
            tags.append("inner_call")
        elif w[0] == "inner_drop":
            tags.append("dropped-running")
        elif w[0] == "result":
            if w[2] == "err:ratelimited":
                tags.append(kind + ":rejected")
            else:
                tags.append("result-" + w[2].split(":")[0])
    hk = kvs(case["header"])
    if hk.get("via"):
        tags.append("via:" + hk["via"])
    if hk.get("listen") == "1":
        tags.append("listeners")
    svc_of, built = _services(case)
    if len(built) > 1:
        tags.append("second-service")
    now = 0
    for o in case["ops"]:
        w = o.split()
        if w and w[0] == "adv":
            now += int(w[1])
            if int(w[1]) >= 2 ** 31:
                tags.append("idle:huge")
        elif w and w[0] == "arrive" and any(x.startswith("h=") for x in w[2:]):
            tags.append("handle:reused")
    for l in lines:
        t, w = tparse(l)
        if w and w[0] == "ready_err":
            tags.append("ready:error")
    if "note=f64slip" in case["header"]:
        tags.append("counter:slip-period")
    elif kind == "counter" and _cfg(case)[2] % 1000 != 0 and hk.get("tick") != "us" and _cfg(case)[2] > 3:
        tags.append("counter:offgrid")
    if meta:
        ev = _tl(lines, meta)
        if len(built) == 1:
            tags.extend(_counter_tags(case, ev))
        fp = {}
        for i, (k, w, t) in enumerate(ev):
            if k == "meta" and w and w[0] == "#fp":
                fp[w[1]] = t
                nx = ev[i + 1] if i + 1 < len(ev) else None
                if nx and nx[0] == "line" and nx[1][:2] == ["inner_call", w[1]]:
                    tags.append(kind + ":admit-at-once")
                elif nx and nx[0] == "line" and nx[1][:3] == ["result", w[1], "err:ratelimited"]:
                    tags.append(kind + ":reject-at-once")
                else:
                    tags.append(kind + ":sleep")
            elif k == "meta" and w and w[0] == "#wake":
                nx = ev[i + 1] if i + 1 < len(ev) else None
                if nx and nx[0] == "line" and nx[1][:2] == ["inner_call", w[1]]:
                    tags.append(kind + ":admit-after-wait")
                elif nx and nx[0] == "line" and nx[1][:3] == ["result", w[1], "err:ratelimited"]:
                    tags.append(kind + ":reject-after-wait")
            elif k == "meta" and w and w[0] == "#drop":
                if w[1] in fp and w[1] not in called:
                    tags.append("dropped-before-admission")
    return tags


def nontrivial(case, lines, tags):
    return any(t.endswith(":rejected") for t in tags) or sum(1 for t in tags if t == "inner_call") >= 3 \
        or "dropped-running" in tags


KINDS = ["fixed", "log", "counter"]
COMMON = {
    "group": "ratelimiter",
    "gen": gen,
    "transitions": transitions,
    "nontrivial": nontrivial,
    "all_transitions": ["inner_call", "dropped-running", "result-ok", "result-err", "result-panic"]
                       + ["dropped-before-admission", "result-notready", "second-service", "handle:reused", "ready:error", "idle:huge",
                          "listeners", "via:per_second", "via:per_minute", "via:burst", "via:default",
                          "counter:offgrid", "counter:slip-period", "counter:on-boundary", "counter:boundary-grant",
                          "counter:zero-estimate", "counter:two-buckets-exact", "counter:f64-slip"]
                       + [k + ":" + x for k in KINDS for x in ("rejected", "admit-at-once", "reject-at-once", "sleep",
                                                                 "admit-after-wait", "reject-after-wait")],
    "model_modules": ["TR.Model.RateLimiter", "TR.Lemmas.RateLimiter", "TR.Lemmas.RateLimiterLog", "TR.Lemmas.RateLimiterF64",
                      "TR.Lemmas.RateLimiterBoundary", "TR.Mutants.AcquireWaitIsOk"],
    "lean_files": ["TR.Model.RateLimiter", "TR.Lemmas.RateLimiter", "TR.Lemmas.RateLimiterLog", "TR.Lemmas.RateLimiterF64",
                   "TR.Lemmas.RateLimiterBoundary"],
    "sizes": (600, 30000),
    "rule": "seeded random op sequences (bursts of L-1/L/L+1/more callers at one instant, polls, drops in every phase, advances biased "
            "to window boundaries / wake-up instants / timeouts -1/0/+1, settle) for the three window types, limit 1..4, timeout 0..3 periods, "
            "followed by quiescence + two idle periods + a burst of L(+1) calls; the wrapped service is the strict scripted service and is "
            "made not-ready for 0..3.5 periods (`manual busy`, alone and in episodes where bursts keep arriving in every window while it is "
            "busy and fresh callers retry afterwards); `manual dropsvc` (every limiter handle dropped) after a batch of calls whose futures have "
            "not been polled yet, and at random points; in 35 % of the cases the first request comes part-way into the first period and the next ones between "
            "construction + P and first admission + P; sliding counter on a 125 ms grid with periods 1/2/4 s; "
            "construction through the presets per_second / per_minute / burst and the builder's defaults (24 % of the cases; half of them customised "
            "afterwards), .name(), the three listeners registered (30 %); several services built from the one layer value or from a clone of it "
            "(25 %: bursts go to one service, every service has its own windows counted from the instant it is built), calls on the service value "
            "itself / on kept clones / on throw-away clones (40 %); scripted poll_ready answers of the wrapped service (pending / error) while others "
            "sleep or run; very long idle stretches (12 %: period 1-3 ticks, advances of k*2^32 periods and neighbours, 2^31 periods, 2^32 ticks, "
            "measured from the last try_acquire; a quarter of them with 1 tick = 1 us and timeout 0), the instants 'window end minus timeout'; "
            "sliding counter OFF the dyadic grid (12.5 %: buckets of 3..1400 ms and multiples, limits up to 6, instants at the fractions k/j of a "
            "bucket, episodes that put the exact weighted count exactly on the limit part-way into a bucket; a third of them with a bucket "
            "whose f64 quotient at exactly two buckets is below 2 and a try_acquire exactly two buckets after a bucket start); wait estimates "
            "around half a nanosecond (3.5 %: tick = 1 us, bucket 1 us, limit 90..260, a full bucket and a burst one tick later); "
            "distinct = distinct implementation event log; non-trivial = a rate-limited rejection, a cancelled running call, or >= 3 admissions",
    "trusted": ["tokio sleep semantics (fires at the first visited instant >= deadline, deadline rounded up to 1 ms) — observed through the "
                "@woke choice and constrained by the model, not proved",
                "harness: clock_gettime interposition (virtual std::time::Instant), manual poller, scripted inner service", "python diff/monitors"],
    "assumptions": ["one try_acquire is one critical section (std Mutex); one poll of one call future is atomic (single-threaded runtime)",
                    "time in whole ticks (1 ms, or 1 us); the sliding counter's float wait estimate is not computed: what the code did with it "
                    "(rejected / slept / returned Duration::ZERO) is an observed choice checked against the exact rational estimate estFrac, "
                    "give or take one tick (zero allowed iff the exact estimate is below 1 ns)",
                    "f64 evaluation of the sliding counter's weighted count / bucket count: proved to agree with the integer tests for every "
                    "evaluation accurate to 1/B off the boundary (approx_decides, approx_buckets); that the f64 evaluation IS that accurate for "
                    "(prev+cur+1)*B < 2^50 ns is a documented rounding argument, not a Lean proof; ON the boundary (weighted count exactly the "
                    "limit part-way into a bucket; elapsed exactly two buckets) the outcome is an observed choice (@adm, @b1)",
                    "@b1 is computed by the harness adapter from the configured period with Duration::as_secs_f64 and f64 division (the "
                    "platform's arithmetic), not read out of the limiter",
                    "window / span theorems: limit_for_period >= 1, refresh_period >= 1 tick, sliding counter bucket >= 10*limit ns "
                    "(Good); routing and decision-instant theorems: every configuration; usize modelled as unbounded Nat",
                    "very long idle stretches use periods of 1-3 ticks (sliding counter: 1 or 2, so that the elapsed ratio is 0 or exactly 1/2); "
                    "instants up to about 1.3e10 ticks (u64 nanoseconds in the harness, unbounded Nat in the model)",
                    "SharedRateLimiter::available_permits() is pub(crate) and unused by the crate: not reachable through the public API, not compared"],
}

LEVEL_NOTE = ("Trusted: Lean kernel; the transcription of limiter.rs / lib.rs in TR.Model.RateLimiter (validated by the sampled correspondence "
              "check only); tokio's sleep; the harness and the python diff. The sliding counter's wait estimate is float-valued: the model takes "
              "'rejected at once / put to sleep' and 'timer has fired' as observed choices and checks them against the range the code guarantees.")

SPECS = {
    "C02": dict(COMMON, module="TR.Props.C02", monitors=[("c02-window-bound", mon_c02), ("c02-called-only-when-ready", mon_ready)],
                level_text="Theorems TR.Props.C02.{admissions_are_the_inner_call_lines,fixed_windows,counter_windows,windows_exist,log_span,"
                           "admit_iff_granted,...}, stated over the timed event log that is compared with the implementation's: for every limit >= 1, "
                           "timeout, period >= 1 (sliding counter: bucket >= 10*limit ns; zero_estimate_admits_without_permit is the counterexample "
                           "outside) and every operation sequence, the instants of the inner_call lines are exactly the limiter's grants; for "
                           "the fixed window and the sliding counter they are cut by the limiter's own window starts into consecutive windows "
                           ">= refresh_period apart with at most limit grants each; for the sliding log any limit+1 consecutive grants span >= "
                           "refresh_period. {services_independent, each_service_is_one_limiter, each_service_windows, each_service_log_span}: every "
                           "service built from one layer value is a limiter of its own (an operation on one leaves the others untouched; each satisfies all "
                           "of the above); presets_meet_hypotheses / per_second_windows / burst_windows: the documented preset configurations; "
                           "readiness_error_takes_no_permit. The model is tied to the real RateLimiterLayer by line-for-line agreement of event logs.",
                level_note=LEVEL_NOTE),
    "C15": dict(COMMON, module="TR.Props.C15", monitors=[("c15-decision-and-routing", mon_c15), ("c15-later-admission-takes-a-permit", mon_c02),
                                                          ("c15-called-only-when-ready", mon_ready)],
                level_text="Theorems TR.Props.C15.{decided_within_timeout,decisions_are_the_decision_lines,admitted_at_once_if_capacity,"
                           "later_admission_takes_later_permit,rejected_only_without_room,rejected_never_inner,admitted_exactly_once,"
                           "idle_two_periods_refills,idle_longer_refills,cancelled_waiter_consumes_nothing}: under the poll discipline Prompt (a sleeping "
                           "caller is polled by the instant its timer must have fired) every decision line of the log (inner_call / err:ratelimited) "
                           "is stamped with an instant <= arrival + timeout, for every configuration; every sleeping "
                           "caller's timer is due by arrival + timeout and the poll after it decides; a first poll with room reaches the inner "
                           "service in that step; an admission after waiting is a grant at a later instant (fixed: in a window begun after the "
                           "arrival); rejected callers never reach the inner service, admitted ones exactly once; after two idle periods the next "
                           "limit try_acquires are all granted (no upper bound on the idle stretch: instants are unbounded naturals; at EXACTLY two "
                           "periods the sliding counter needs the f64 bucket count not to slip - idle_exactly_two_periods_f64_slip is the "
                           "counterexample, which the code exhibits); dropping a waiter "
                           "changes nothing in the limiter; each_service_idle_refills / each_service_routes: the same per service of a fleet.",
                level_note=LEVEL_NOTE),
}
