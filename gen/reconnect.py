"""C16 — reconnect: generator, implementation-side monitors"""
import bisect
import random
from gen.util import kvs, tparse

MS = 1000000


# ----------------------------------------------------------------------------- generator

def _chain(rng, out):
    """give an error a `source()` chain: `errK>J>I` is an error of kind K caused by an error of kind J caused by an
    error of kind I. Only K is what the predicate is asked about; heads the predicates reject (2, 3) get causes more
    often, and the causes are biased to the kind every predicate accepts (1)"""
    if not out.startswith("err"):
        return out
    # a private stream seeded from the generator's current state, which is not advanced: giving errors causes leaves
    # every other choice of a case (heads, latencies, ops: the cases of the earlier rounds) exactly as it was
    rng = random.Random(hash(rng.getstate()[1]))
    if rng.random() >= (0.2 if out == "err1" else 0.6):
        return out
    depth = rng.choice([1, 1, 1, 2, 3])
    return out + "".join(">%d" % rng.choice([1, 1, 2, 3]) for _ in range(depth))


def _plan(rng):
    n = rng.choice([1, 1, 2, 3, 4, 5, 7])
    steps = []
    for i in range(n):
        r = rng.random()
        if r < 0.55:
            out = "err1"
        elif r < 0.72:
            out = "ok"
        elif r < 0.84:
            out = "err%d" % rng.choice([2, 3])
        elif r < 0.90:
            out = "panic"
        elif r < 0.94:
            out = "never"
        else:
            out = "err1"
        lat = rng.choice([0, 0, 0, 1, 2, 5, rng.randint(0, 12)])
        steps.append("%d:%s" % (lat, _chain(rng, out)))
    return ",".join(steps)


def _header(rng, overlap):
    words = ["reconnect"]
    mx = rng.choice([None, None, 0, 1, 2, 3, 5])
    if overlap and rng.random() < 0.3:
        mx = rng.choice([0, 1])               # requests that give up early, leaving the state down
    if mx is not None:
        words.append("max=%d" % mx)
    pol = rng.choice(["none", "fixed", "fixed", "exp", "exp", "exp", "jitter", "custom"])
    words.append("policy=" + pol)
    delays = [0]
    if pol == "fixed":
        d = rng.choice([0, 1, 3, 5, 10])
        words.append("d=%d" % d)
        delays = [d]
    elif pol in ("exp", "jitter"):
        init = rng.choice([0, 1, 2, 3, 5])
        cap = rng.choice([max(0, init - 1), init, 4, 10, 20, 50])
        words += ["init=%d" % init, "cap=%d" % cap]
        delays = sorted({min(init * 2 ** a, cap) for a in range(1, 8)})
        if pol == "jitter":
            rf = rng.choice([0, 25, 50, 100])
            words.append("rf=%d" % rf)
            delays = sorted(set(delays + [x * (100 + rf) // 100 for x in delays] + [x * (100 - rf) // 100 for x in delays]))
    elif pol == "custom":
        tbl = [rng.choice([0, 1, 3, 7]) for _ in range(rng.randint(1, 4))]
        words.append("tbl=" + ",".join(map(str, tbl)))
        delays = sorted(set(tbl))
    if rng.random() < 0.25:
        words.append("retry=0")
    pred = rng.choice([None, "1", "1", "1", "12", "13"])
    if pred is not None:
        words.append("pred=" + pred)
    return words, delays


VIAS = ["clone", "clone", "clone", "same", "swap", "layer"]


def _caller_words(rng, p, budget):
    """through which handle the request is made, and how its caller behaves (world.rs: keep / coop / burn).
    `budget` is chosen once per case: "coop" (some callers are polled under tokio's cooperative budget), "burn" (some
    callers' first poll happens with the budget used up) or None — never both in one case: `burn=1` uses up the budget
    of the harness's own task tick, which a `coop=1` caller polled in the same tick (the same `settle`, or the ordinary
    poll that follows the burnt one) would find exhausted for ever, whereas an executor re-polls it with a fresh one."""
    w = ""
    if rng.random() < p:
        w += " via=" + rng.choice(VIAS)
    if rng.random() < p * 0.15:
        w += " keep=1"
    if budget is not None and rng.random() < 0.4:
        w += " %s=1" % budget
    return w


def _plan_overlap(rng):
    """plans for requests that overlap: many succeed at their first attempt after a while, many fail at once"""
    r = rng.random()
    if r < 0.45:
        first = "%d:ok" % rng.choice([0, 0, 1, 2, 3, 5, 8])
    elif r < 0.85:
        first = "%d:err1" % rng.choice([0, 0, 0, 1, 2, 4])
    elif r < 0.93:
        first = "%d:err%d" % (rng.choice([0, 1, 3]), rng.choice([2, 3]))
    elif r < 0.97:
        first = "%d:panic" % rng.choice([0, 2])
    else:
        first = "0:never"
    first = _chain(rng, first)
    if first.endswith("ok") or rng.random() < 0.3:
        return first
    return first + "," + _plan(rng)


def gen_overlap(rng, tier):
    """2..6 requests sharing the connection state, outstanding at the same time: issue / first poll (possibly late,
    possibly never) / re-poll / completion / cancellation interleaved arbitrarily, `probe state` between every two
    steps; optionally every handle dropped while requests are in flight (`manual dropsvc`) and a request arriving
    from inside the destructor of a cancelled inner call (`manual ondrop`)"""
    words, delays = _header(rng, True)
    ncall = rng.randint(2, 6)
    pending = list(range(1, ncall + 1))
    arrived = []
    lats = [1]
    steps = []
    p_arrive = rng.choice([0.25, 0.4, 0.6])
    p_first_poll = rng.choice([0.2, 0.6, 0.9])        # low: requests are created first and polled (much) later
    dropsvc_at = rng.randint(2, 25) if rng.random() < 0.12 else None
    via_p = rng.choice([0, 0.5, 1])
    budget = rng.choice([None, None, None, "coop", "burn"])
    for i in range(rng.randint(8, 34)):
        if dropsvc_at == i:
            steps.append("manual dropsvc")
        r = rng.random()
        if pending and (r < p_arrive or not arrived):
            c = pending.pop(0)
            plan = _plan_overlap(rng)
            steps.append("arrive %d inner=%s%s" % (c, plan, _caller_words(rng, via_p, budget)))
            arrived.append(c)
            lats += [int(x.split(":")[0]) for x in plan.split(",")]
            if rng.random() < p_first_poll:
                steps.append("poll %d" % c)
        elif r < 0.55:
            steps.append("poll %d" % rng.choice(arrived))
        elif r < 0.59:
            steps.append("drop %d" % rng.choice(arrived))
        elif r < 0.62:
            c, c2 = rng.choice(arrived), 50 + len(steps)
            steps.append("manual ondrop c=%d by=%d inner=%s" % (c, c2, _plan_overlap(rng)))
            if rng.random() < 0.6:
                steps.append("drop %d" % c)
        elif r < 0.64:
            steps.append("release %d" % rng.choice(arrived))
        elif r < 0.92:
            base = rng.choice(delays + lats + [1, 1, 2])
            steps.append("adv %d" % max(0, base + rng.choice([-1, 0, 0, 0, 1])))
        else:
            steps.append("settle")
    for _ in range(rng.randint(0, 2)):
        steps.append("adv %d" % rng.choice(delays + [1, 60]))
        steps.append("settle")
    ops = []
    for st in steps:
        ops.append(st)
        ops.append("probe state")
    return {"header": " ".join(words), "ops": ops}


# --- entry points (notes/strengthen-reconnect-w5.md): construction paths, accessors, several layer values

# text the scripted error kinds 4..15 display after `ierr<kind>:<serial>` (harness `kind_text`, Lean `kindText`)
KIND_TEXT = {4: "Broken pipe (os error 32)", 5: "Connection reset by peer (os error 104)", 6: "connection aborted",
             7: "Transport endpoint is not connected (os error 107)", 8: "Connection refused (os error 111)",
             9: "connection timed out", 10: "disconnected", 11: "BROKEN PIPE", 12: "connection  reset",
             13: "host unreachable", 14: "upstream said: Connection Refused", 15: "brokenpipe"}
# `ReconnectConfigBuilder::connection_errors_only` (config.rs:332-343, and its doc comment): the lower-cased Display text
# contains one of these
CONN_PHRASES = ("broken pipe", "connection reset", "connection aborted", "not connected", "connection refused")


def conn_accepts(kind):
    text = ("ierr%d:0 %s" % (kind, KIND_TEXT.get(kind, ""))).lower()
    return any(p in text for p in CONN_PHRASES)


CONN_YES = [k for k in range(16) if conn_accepts(k)]        # 4 5 6 7 8 11 14
CONN_NO = [k for k in range(16) if not conn_accepts(k)]
DEFAULT_CTORS = ("default", "with_defaults", "layerdefault")


def _remap_conn(rng, plan):
    """plans for `pred=conn`: what was the reconnectable kind 1 becomes a kind whose text names a connection failure,
    everything else a kind whose text does not (near misses included)"""
    def kind(k):
        return rng.choice(CONN_YES) if k == "1" else rng.choice(CONN_NO)
    steps = []
    for part in plan.split(","):
        lat, out = part.split(":", 1)
        if out.startswith("err"):
            out = "err" + ">".join(str(kind(k)) for k in out[3:].split(">"))
        steps.append(lat + ":" + out)
    return ",".join(steps)


def _decorate(rng, case):
    """construction path of the configuration / the layer, callbacks, sub-millisecond delays, the connection_errors_only
    predicate, several layer values made from clones of one configuration value, services of a cloned layer value, and
    the accessors of state and configuration probed between the steps. `rng` is a private stream: the undecorated part
    of every case is what the generator produced before this round."""
    words = case["header"].split()
    kv = kvs(case["header"])
    ops = list(case["ops"])
    r = rng.random()
    if r < 0.12:
        if r < 0.06:
            words.append("ctor=" + rng.choice(DEFAULT_CTORS))
        else:
            # the builder's own default policy (nothing about the policy is set), through builder() or new()
            words = [w for w in words if w.split("=")[0] not in ("policy", "d", "init", "cap", "rf", "tbl")]
            words.append("ctor=" + rng.choice(["new", "builder"]))
            kv = kvs(" ".join(words))
        # the default policy waits 200, 400, … ms: stretch the time steps
        ops = [("adv %d" % rng.choice([int(o.split()[1]) * 100, 199, 200, 201, 400, 800, 1600])) if o.startswith("adv ") else o for o in ops]
    elif r < 0.45:
        words.append("ctor=" + rng.choice(["new", "new", "builder"]))
    if "max" not in kv and rng.random() < 0.4:
        words.append("unl=1")
    if "retry" not in kv and rng.random() < 0.3:
        words.append("retry=1")
    if rng.random() < 0.3:
        words.append("cclone=1")
    r = rng.random()
    if r < 0.12:
        words.append("cb=1")
    elif r < 0.2:
        words.append("cb=panic")
    pol = kv.get("policy")          # None: the builder's default policy
    if pol in ("fixed", "exp", "jitter", "custom") and rng.random() < 0.25:
        # durations in microseconds: v ms become v*k us (k = 1000: the same delays; 999 / 1001: just below / above a tick)
        k = rng.choice([1, 125, 250, 400, 999, 1000, 1001])
        def scale(w):
            if "=" not in w:
                return w
            a, b = w.split("=", 1)
            if a in ("d", "init", "cap"):
                return "%s=%d" % (a, int(b) * k)
            if a == "tbl":
                return "tbl=" + ",".join(str(int(x) * k) for x in b.split(","))
            return w
        words = [scale(w) for w in words] + ["unit=us"]
    if pol == "jitter" and (kv.get("rf") == "0" or rng.random() < 0.3):
        # the real `ReconnectPolicy::exponential_random` variant; its delay is not observable, hence factor 0
        words = [w for w in words if not w.startswith("rf=")] + ["rf=0", "jv=1"]
    if rng.random() < 0.25:
        # the wrapped service is not always ready: it recovers for a while after every call (`rec`), and / or answers
        # some readiness polls (of callers, of call futures after their back-off) with an error (`rdy`)
        x = rng.random()
        if x < 0.65:
            words.append("rec=%d" % rng.choice([1, 1, 2, 3, 5, 8]))
        if x >= 0.35:
            words.append("rdy=" + "".join(rng.choice("rrre") for _ in range(rng.randint(1, 10))))
    conn = rng.random() < 0.22
    if conn:
        words = [w for w in words if not w.startswith("pred=")] + ["pred=conn"]
    multi = rng.random() < 0.3
    lays = [0, 0, 1, 1, 2] if multi else [0]
    lay_of = {}
    p_probe = rng.choice([0.05, 0.15, 0.3])

    def lay_word(j):
        return " lay=%d" % j if j else ""

    def extra_probe():
        j = rng.choice(lays)
        by = rng.choice(["", "", " by=layer", " by=svc"])
        x = rng.random()
        if x < 0.2:
            return "probe attempts%s%s" % (lay_word(j), by)
        if x < 0.35:
            return "manual incr%s%s" % (lay_word(j), by)
        if x < 0.5:
            return "probe since%s%s" % (lay_word(j), by)
        if x < 0.62:
            return "probe config%s" % lay_word(j)
        if x < 0.82:
            return "probe delay a=%d%s" % (rng.choice([0, 1, 1, 2, 3, 4, 6, 9, 40]), lay_word(j))
        return "probe pred k=%d%s" % (rng.randint(0, 15) if conn or rng.random() < 0.3 else rng.randint(0, 3), lay_word(j))

    out = []
    for o in ops:
        w = o.split()
        if w[0] == "arrive":
            if conn:
                o = " ".join(("inner=" + _remap_conn(rng, x[6:])) if x.startswith("inner=") else x for x in w)
            j = rng.choice(lays)
            lay_of[w[1]] = j
            o += lay_word(j)
            if rng.random() < 0.15:
                o = " ".join(x for x in o.split() if not x.startswith("via=")) + " via=layerclone"
        elif w[0] == "manual" and w[1] == "ondrop" and conn:
            o = " ".join(("inner=" + _remap_conn(rng, x[6:])) if x.startswith("inner=") else x for x in w)
        elif w[:2] == ["probe", "state"]:
            # the state of the layer value the latest request went through, or of any other one
            j = rng.choice(lays)
            o += lay_word(j) + rng.choice(["", "", " by=layer", " by=svc"])
        out.append(o)
        if multi and w[:2] == ["probe", "state"] and rng.random() < 0.5:
            out.append("probe state%s" % lay_word(rng.choice(lays)))
        if rng.random() < p_probe:
            out.append(extra_probe())
    return {"header": " ".join(words), "ops": out}


def gen_ready(rng):
    """the wrapped service's readiness (`Phase::Readying`): 1..3 requests that fail reconnectably a few times; the inner
    service recovers for `rec` ms after every call (shorter, equal, longer than the back-off) and answers the n-th
    readiness poll outside a recovery with an error — a caller's (request refused, no call) or a call future's after its
    back-off (ServiceError wrapping the readiness error); time steps around the back-off and the recovery"""
    words = ["reconnect"]
    mx = rng.choice([None, None, 1, 2, 3, 5])
    if mx is not None:
        words.append("max=%d" % mx)
    if rng.random() < 0.7:
        d = rng.choice([0, 0, 1, 2, 5])
        words += ["policy=fixed", "d=%d" % d]
        delays = [d]
    else:
        init, cap = rng.choice([0, 1, 2]), rng.choice([2, 4, 8])
        words += ["policy=exp", "init=%d" % init, "cap=%d" % cap]
        delays = sorted({min(init * 2 ** a, cap) for a in range(1, 6)})
    if rng.random() < 0.15:
        words.append("retry=0")
    if rng.random() < 0.5:
        words.append("pred=1")
    rec = rng.choice([0, 0, 1, 2, 3, 6])
    if rec:
        words.append("rec=%d" % rec)
    n_ok = rng.choice([0, 1, 1, 2, 2, 3, 4, 6])
    if rng.random() < 0.8 or not rec:
        words.append("rdy=" + "r" * n_ok + "e" + "".join(rng.choice("rrre") for _ in range(rng.randint(0, 4))))
    ncall = rng.choice([1, 1, 2, 3])
    ops = []
    pending = list(range(1, ncall + 1))
    arrived = []
    steps = delays + [rec, max(0, rec - 1), rec + 1, 1, 1]
    for _ in range(rng.randint(6, 30)):
        r = rng.random()
        if pending and (r < 0.25 or not arrived):
            c = pending.pop(0)
            k = rng.choice([1, 1, 2, 3, 4])
            plan = ["%d:err1" % rng.choice([0, 0, 0, 1, 3]) for _ in range(k)] + [rng.choice(["0:ok", "0:ok", "2:ok", "0:err2", "0:err1"])]
            ops.append("arrive %d inner=%s%s" % (c, ",".join(plan), rng.choice(["", "", " via=same", " via=layer", " via=layerclone", " via=swap"])))
            arrived.append(c)
            if rng.random() < 0.8:
                ops.append("poll %d" % c)
        elif r < 0.5:
            ops.append("poll %d" % rng.choice(arrived))
        elif r < 0.85:
            ops.append("adv %d" % max(0, rng.choice(steps) + rng.choice([-1, 0, 0, 0, 1])))
            if rng.random() < 0.6:
                ops.append("settle")
        elif r < 0.88:
            ops.append("drop %d" % rng.choice(arrived))
        else:
            ops.append("settle")
        if rng.random() < 0.5:
            ops.append("probe state")
    ops += ["adv %d" % (max(delays) + rec + 1), "settle", "probe state"]
    return {"header": " ".join(words), "ops": ops}


def gen(rng, tier):
    # the private stream of the decoration is seeded from the generator's state, which it does not advance
    deco = random.Random(hash(rng.getstate()[1]) ^ 0x5eed)
    case = _gen_base(rng, tier)
    if deco.random() >= 0.5:
        return case
    if deco.random() < 0.3:
        return gen_ready(deco)
    return _decorate(deco, case)


def _gen_base(rng, tier):
    if rng.random() < 0.4:
        return gen_overlap(rng, tier)
    words, delays = _header(rng, False)
    ncall = rng.choice([1, 1, 1, 1, 2, 2, 3])
    ops = []
    pending = list(range(1, ncall + 1))
    arrived = []
    lats = [0]
    via_p = rng.choice([0, 0, 0.5])
    budget = rng.choice([None, None, None, None, None, None, "coop", "burn"])
    dropsvc_p = rng.choice([0, 0, 0, 0.03])
    for _ in range(rng.randint(8, 40)):
        r = rng.random()
        if pending and (r < 0.2 or not arrived):
            c = pending.pop(0)
            plan = _plan(rng)
            ops.append("arrive %d inner=%s%s" % (c, plan, _caller_words(rng, via_p, budget)))
            arrived.append(c)
            lats += [int(p.split(":")[0]) for p in plan.split(",")]
            if rng.random() < 0.7:
                ops.append("poll %d" % c)
        elif r < 0.45:
            ops.append("poll %d" % rng.choice(arrived))
        elif r < 0.50:
            ops.append("drop %d" % rng.choice(arrived))
        elif r < 0.80:
            base = rng.choice(delays + lats + [1, 1, 2])
            d = max(0, base + rng.choice([-1, 0, 0, 0, 1]))
            ops.append("adv %d" % d)
            if rng.random() < 0.5:
                ops.append("settle")
        elif r < 0.90:
            ops.append("settle")
        else:
            ops.append("probe state")
        if rng.random() < dropsvc_p:
            ops.append("manual dropsvc")
        if rng.random() < 0.35:
            ops.append("probe state")
    for _ in range(rng.randint(0, 3)):
        ops.append("adv %d" % rng.choice(delays + [1, 60]))
        ops.append("settle")
        ops.append("probe state")
    return {"header": " ".join(words), "ops": ops}


# ----------------------------------------------------------------------------- monitors (implementation log only)

class Cfg:
    def __init__(self, header):
        kv = kvs(header)
        self.max = int(kv["max"]) if "max" in kv else None
        self.policy = kv.get("policy", "exp")
        self.d = int(kv.get("d", "10"))
        self.init = int(kv.get("init", "100"))
        self.cap = int(kv.get("cap", "5000"))
        self.rf = int(kv.get("rf", "50"))
        self.tbl = [int(x) for x in kv.get("tbl", "1").split(",") if x != ""] or [1]
        self.retry = kv.get("retry", "1") != "0"
        self.rec = int(kv.get("rec", "0"))              # inner service: poll_ready pending for this long after every call
        self.conn = kv.get("pred") == "conn"           # .connection_errors_only()
        self.pred = [int(ch) for ch in kv["pred"] if ch.isdigit()] if "pred" in kv else None
        self.unit = 1000 if kv.get("unit") == "us" else MS      # ns per unit of d / init / cap / tbl
        self.variant = {"none": "none", "fixed": "fixed", "custom": "custom", "jitter": "custom"}.get(self.policy, "exp")
        if self.policy == "jitter" and kv.get("jv") == "1":
            # the real ExponentialRandom variant with randomization factor 0: the exponential value itself
            self.policy, self.variant = "exp", "random"
        if self.policy == "default" or kv.get("ctor") in DEFAULT_CTORS:
            # ReconnectConfig::default(): exponential 100 ms .. 5 s, unlimited, retry, no predicate
            self.policy, self.init, self.cap, self.max, self.retry, self.pred, self.conn = "exp", 100, 5000, None, True, None, False
            self.unit, self.variant = MS, "exp"

    def reconnectable(self, kind):
        if self.conn:
            return conn_accepts(kind)
        return True if self.pred is None else kind in self.pred

    def delay_ns_range(self, attempt):
        """(lo, hi) in ns of the value delay_for_attempt(attempt) may return; None for policy none"""
        if self.policy == "none":
            return None
        if self.policy == "fixed":
            return (self.d * self.unit, self.d * self.unit)
        if self.policy == "custom":
            v = self.tbl[attempt % len(self.tbl)] * self.unit
            return (v, v)
        base = min(self.init * self.unit * 2 ** attempt, self.cap * self.unit)
        if self.policy == "jitter":
            return (base * (100 - self.rf) // 100 - 1, base * (100 + self.rf) // 100 + 2)
        return (base, base)


def _ceil_ms(ns):
    return (ns + MS - 1) // MS


def _timeline(lines, meta):
    """merge '#…' meta lines into the event stream: list of (kind, words, t)"""
    ev = []
    mi = 0
    meta = [m for m in meta if m[0] >= 0]
    for i, l in enumerate(lines + [None]):
        while mi < len(meta) and meta[mi][0] == i:
            ws = meta[mi][1].split()
            ev.append(("meta", ws, None))
            mi += 1
        if l is not None:
            t, w = tparse(l)
            ev.append(("line", w, t))
    return ev


def _visited(case):
    now = 0
    v = [0]
    for o in case["ops"]:
        w = o.split()
        if w and w[0] == "adv":
            now += int(w[1])
            v.append(now)
    return v


def _per_caller(lines):
    """caller -> list of calls {k, t, done_t, out}; results; in log order"""
    calls = {}
    results = {}
    byk = {}
    for l in lines:
        t, w = tparse(l)
        if not w:
            continue
        if w[0] == "inner_call":
            r = {"k": w[2], "t": t, "done_t": None, "out": None}
            calls.setdefault(w[1], []).append(r)
            byk[(w[1], w[2])] = r
        elif w[0] == "inner_done":
            r = byk.get((w[1], w[2]))
            if r is not None:
                r["done_t"], r["out"] = t, w[3]
        elif w[0] == "inner_drop":
            r = byk.get((w[1], w[2]))
            if r is not None:
                r["done_t"], r["out"] = t, "dropped"
        elif w[0] == "result":
            results[w[1]] = (t, w[2])
    return calls, results


def _chains(meta):
    """(request, serial) -> kinds of the `source()` chain of the error that inner call returned ('#chain c k J>I')"""
    out = {}
    for _, m in (meta or []):
        w = m.split()
        if len(w) == 4 and w[0] == "#chain":
            out[(w[1], w[2])] = [int(x) for x in w[3].split(">")]
    return out


def mon_calls(case, lines, meta):
    """at most max_attempts+1 inner calls per request; a further call only after a reconnectable error — an error
    that the predicate ITSELF classifies as a connection failure, whatever its source() chain contains —,
    only with retry_on_reconnect and a policy; never after policy none"""
    cfg = Cfg(case["header"])
    calls, _ = _per_caller(lines)
    chains = _chains(meta)
    for c, cs in calls.items():
        if cfg.max is not None and len(cs) > cfg.max + 1:
            return "request %s: %d inner calls, max_attempts=%d" % (c, len(cs), cfg.max)
        for i in range(1, len(cs)):
            prev = cs[i - 1]
            if prev["out"] is None or not prev["out"].startswith("err"):
                return "request %s: inner call %s made after call %s which ended %r (not an error)" % (c, cs[i]["k"], prev["k"], prev["out"])
            kind = int(prev["out"][3:])
            if not cfg.reconnectable(kind):
                causes = chains.get((c, prev["k"]), [])
                note = ""
                if causes:
                    note = " (its source() chain is %s%s)" % (
                        " > ".join("err%d" % x for x in causes),
                        ": the predicate accepts a cause, not the error" if any(cfg.reconnectable(x) for x in causes) else "")
                return "request %s: retried after err%d, which the predicate does not classify as a connection failure%s" % (c, kind, note)
            if not cfg.retry:
                return "request %s: retried although retry_on_reconnect=false" % c
            if cfg.policy == "none":
                return "request %s: retried although the policy is none" % c
    return None


def mon_delay(case, lines, meta):
    """before retry i the future waits delay_for_attempt(i): the retry is not earlier than error instant + delay,
    and not later than the first visited instant at which the caller was woken / polled"""
    cfg = Cfg(case["header"])
    ev = _timeline(lines, meta)
    visited = _visited(case)
    ncalls = {}
    last_done = {}
    wakes = {}
    lay_of = _lay_of(case)
    last_call = {}          # layer value -> instant of the latest inner call made through it (its inner service recovers from it)
    for kind, w, t in ev:
        if not w:
            continue
        if kind == "meta" and w[0] == "#wake":
            wakes[w[1]] = [int(x) for x in w[2].split(",")]
        elif kind == "meta" and w[0] == "#fp":
            wakes[w[1]] = []
        elif kind == "line" and w[0] == "inner_done":
            last_done[w[1]] = t
        elif kind == "line" and w[0] == "inner_call":
            c = w[1]
            i = ncalls.get(c, 0)
            ncalls[c] = i + 1
            # after its back-off the future waits for the inner service's readiness: pending until the service has
            # recovered from the latest call made through this layer value
            busy_end = last_call[lay_of.get(c, 0)] + cfg.rec if cfg.rec and lay_of.get(c, 0) in last_call else None
            last_call[lay_of.get(c, 0)] = t
            if i == 0:
                continue
            rng_ = cfg.delay_ns_range(i)
            if rng_ is None or c not in last_done:
                continue      # reported by mon_calls
            lo, hi = rng_
            if busy_end is not None and busy_end > last_done[c] + _ceil_ms(max(lo, 0)):
                # the back-off ended while the inner service was still recovering: the lower bound below still holds,
                # the retry itself is due when the service is ready again
                if t < busy_end:
                    return "request %s: retry %d at t=%d although the inner service was not ready before t=%d" % (c, i, t, busy_end)
                if t < last_done[c] + _ceil_ms(max(lo, 0)):
                    return "request %s: retry %d at t=%d, error handled at t=%d, policy delay >= %d ns" % (c, i, t, last_done[c], lo)
                continue
            if hi == 0 and t > last_done[c]:
                # nothing to wait for: the retry is made by the very poll that handled the error
                return "request %s: retry %d only at t=%d, error handled at t=%d: the policy's delay for attempt %d is 0" % (
                    c, i, t, last_done[c], i)
            if t < last_done[c] + _ceil_ms(max(lo, 0)):
                return "request %s: retry %d at t=%d, error handled at t=%d, policy delay >= %d ns" % (c, i, t, last_done[c], lo)
            latest = last_done[c] + _ceil_ms(hi)
            j = bisect.bisect_left(visited, latest)
            due = visited[j] if j < len(visited) else None
            earliest = last_done[c] + _ceil_ms(max(lo, 0))
            woken = any(earliest <= x <= due for x in wakes.get(c, [])) if due is not None else True
            if due is not None and t > due and not woken and latest > last_done[c]:
                return "request %s: retry %d only at t=%d; sleep of <= %d ns from t=%d was due at t=%d and the caller was not woken then (wakes %s)" % (
                    c, i, t, hi, last_done[c], due, wakes.get(c))
    return None


def mon_result(case, lines, meta):
    """the request returns the first success, or an error wrapping the last inner error, with the right variant"""
    cfg = Cfg(case["header"])
    calls, results = _per_caller(lines)
    # the line before each result: a readiness failure of the inner service is logged as `ready_err` right before it
    after_ready_err = set()
    prev = None
    for l in lines:
        t, w = tparse(l)
        if w and w[0] == "result" and prev == ["ready_err"]:
            after_ready_err.add(w[1])
        prev = w
    for c, (t, r) in results.items():
        cs = calls.get(c, [])
        if r == "notready":
            # the caller found the service not ready and made no call
            if cs:
                return "request %s was refused as not ready although it made %d inner calls" % (c, len(cs))
            continue
        if not cs:
            return "request %s has a result but no inner call" % c
        last = cs[-1]
        for p in cs[:-1]:
            if p["out"] == "ok":
                return "request %s: inner call %s succeeded but a later call was made" % (c, p["k"])
        parts = r.split(":")
        if parts[0] == "ok":
            if last["out"] != "ok" or parts[1] != last["k"]:
                return "request %s returned %s but its last inner call %s ended %s" % (c, r, last["k"], last["out"])
            continue
        if r == "panic":
            if last["out"] != "panic":
                return "request %s panicked, last inner call ended %s" % (c, last["out"])
            continue
        if parts[0] != "err" or last["out"] is None or not last["out"].startswith("err"):
            return "request %s returned %s, last inner call ended %s" % (c, r, last["out"])
        kind = int(last["out"][3:])
        wrapped = parts[-2:]
        if c in after_ready_err and r == "err:service:inner9:0":
            # after the back-off the inner service failed its readiness poll: ServiceError wrapping that readiness error —
            # the last error the inner service produced. Only a request that would have retried gets here.
            if not (cfg.reconnectable(kind) and cfg.retry and cfg.policy != "none" and (cfg.max is None or len(cs) <= cfg.max)):
                return "request %s returned the readiness error %s although its last call's error err%d ends it (%d calls)" % (c, r, kind, len(cs))
            continue
        if wrapped != ["inner%d" % kind, last["k"]]:
            return "request %s returned %s which does not wrap its last inner error inner%d:%s" % (c, r, kind, last["k"])
        if last["done_t"] is not None and t < last["done_t"]:
            return "request %s returned before its last call finished" % c
        variant = parts[1]
        n = len(cs)
        if not cfg.reconnectable(kind):
            want = "service"
        elif cfg.max is not None and n > cfg.max:
            want = "max_attempts"
        elif cfg.policy == "none":
            want = "conn_failed"
        elif not cfg.retry:
            want = "no_retry"
        else:
            want = None
        if variant != want:
            return "request %s: %d calls, last error err%d: returned %s, expected variant %s" % (c, n, kind, r, want)
        if variant == "max_attempts" and parts[2] != str(n):
            return "request %s: MaxAttemptsExceeded reports %s attempts after %d calls" % (c, parts[2], n)
    # a live request whose last call succeeded/failed finally must have returned: checked by the diff, not here
    return None


def _lay_of(case):
    """request -> layer value it was made through (`arrive c … lay=j`; requests arriving inside a destructor: 0)"""
    d = {}
    for o in case["ops"]:
        w = o.split()
        if w and w[0] == "arrive" and len(w) > 1:
            d.setdefault(w[1], int(kvs(o).get("lay", "0")))
    return d


def _probe_lay(word):
    """'state' -> 0, 'state@2' -> 2"""
    return int(word.split("@")[1]) if "@" in word else 0


def mon_state(case, lines, meta):
    """published state, for any number of requests sharing it, in any interleaving: it reads connected exactly from a
    success (a request returning ok — or ending its back-off with retry_on_reconnect=false) until the next
    reconnectable inner failure is handled by any request; in particular it is connected right after a success
    whatever the other requests did in between, and not connected while a reconnectable failure is being handled
    unless another request has brought the connection up meanwhile (TR.Props.C16.state_is_function_of_history).
    Per layer value: requests made through another layer value (its own ReconnectState) do not enter."""
    cfg = Cfg(case["header"])
    lay_of = _lay_of(case)
    up = {}
    why = {}
    pub = {}               # layer value -> the published state as a function of the log so far (TR.Reconnect.pubOf), all three values
    pubwhy = {}
    prev = None
    for l in lines:
        t, w = tparse(l)
        if not w:
            continue
        # the three-valued reading (TR.Props.C16.probe_reports_the_state_of_the_log): Reconnecting from an accepted failure,
        # Disconnected when the request gives up in the same turn, Connected from a success / the end of a no-retry back-off
        if w[0] == "inner_done" and w[3].startswith("err") and cfg.reconnectable(int(w[3][3:])):
            pub[lay_of.get(w[1], 0)] = "reconnecting"
            pubwhy[lay_of.get(w[1], 0)] = "request %s handled the connection failure %s of its inner call %s at t=%s" % (w[1], w[3], w[2], t)
        elif w[0] == "result" and (w[2].startswith("ok:") or w[2].startswith("err:no_retry")):
            pub[lay_of.get(w[1], 0)] = "connected"
            pubwhy[lay_of.get(w[1], 0)] = "request %s returned %s at t=%s" % (w[1], w[2], t)
        elif w[0] == "result" and (w[2].startswith("err:max_attempts") or w[2].startswith("err:conn_failed")):
            pub[lay_of.get(w[1], 0)] = "disconnected"
            pubwhy[lay_of.get(w[1], 0)] = "request %s gave up with %s at t=%s" % (w[1], w[2], t)
        if w[0] == "inner_done" and w[3].startswith("err") and cfg.reconnectable(int(w[3][3:])):
            j = lay_of.get(w[1], 0)
            up[j] = False
            why[j] = "request %s is handling / has handled the connection failure %s of its inner call %s (t=%s) and no request has succeeded since" % (
                w[1], w[3], w[2], t)
        elif w[0] == "result" and (w[2].startswith("ok:") or w[2].startswith("err:no_retry")):
            j = lay_of.get(w[1], 0)
            up[j] = True
            why[j] = "request %s returned %s at t=%s and no connection failure has been handled since" % (w[1], w[2], t)
        elif w[0] == "probe" and w[1].split("@")[0] == "state":
            st = w[3]
            j = _probe_lay(w[1])
            name = "state()" if j == 0 else "state() of layer value %d" % j
            if prev is not None and prev[0] == "result" and prev[2].startswith("ok:") and lay_of.get(prev[1], 0) == j and st != "connected":
                return "%s is %s right after request %s succeeded" % (name, st, prev[1])
            if up.get(j, False) and st != "connected":
                return "%s is %s at t=%s although %s" % (name, st, t, why[j])
            if not up.get(j, False) and st == "connected":
                return "%s is connected at t=%s although %s" % (name, t, why.get(j, "no request made through it has succeeded yet"))
            if st != pub.get(j, "disconnected"):
                return "%s is %s at t=%s, the log so far says %s: %s and nothing has changed the state since" % (
                    name, st, t, pub.get(j, "disconnected"), pubwhy.get(j, "nothing has happened through it yet"))
        prev = w
    return None


def mon_accessors(case, lines, meta):
    """what the configuration accessors report is the configuration the property is about: `policy().delay_for_attempt(n)`
    is the policy's delay (nothing added, no floor), `should_reconnect` is the configured predicate (connection_errors_only:
    the five phrases of its documentation, case-insensitively), `max_attempts()/retry_on_reconnect()/policy()` are what the
    builder was given — also through a clone of the configuration value"""
    cfg = Cfg(case["header"])
    for l in lines:
        t, w = tparse(l)
        if len(w) < 4 or w[0] != "probe" or w[-1] == "gone":
            continue
        if w[1] == "delay":
            a = int(w[2][2:])
            rng_ = cfg.delay_ns_range(a)
            if rng_ is None:
                if w[-1] != "none":
                    return "delay_for_attempt(%d) = %s ns, the policy is none" % (a, w[-1])
            elif w[-1] == "none" or not (rng_[0] <= int(w[-1]) <= rng_[1]):
                return "delay_for_attempt(%d) = %s ns, the configured policy's delay is %s ns" % (
                    a, w[-1], rng_[0] if rng_[0] == rng_[1] else "%d..%d" % rng_)
        elif w[1] == "pred":
            k = int(w[2][2:])
            if w[-1] != str(int(cfg.reconnectable(k))):
                return "should_reconnect(error of kind %d%s) = %s, the configured predicate says %d" % (
                    k, " '%s'" % KIND_TEXT[k] if k in KIND_TEXT else "", w[-1], cfg.reconnectable(k))
        elif w[1] == "config":
            want = "max:%s retry:%d policy:%s" % ("none" if cfg.max is None else cfg.max, cfg.retry, cfg.variant)
            if " ".join(w[3:]) != want:
                return "config() reports %s, the service was built with %s" % (" ".join(w[3:]), want)
    return None


# ----------------------------------------------------------------------------- coverage

def transitions(case, lines, meta=None):
    cfg = Cfg(case["header"])
    tags = []
    ncalls = {}
    last_done = {}
    first_call_t = {}
    issued = {}            # request -> (link up when it was issued, number of reconnectable failures handled so far)
    up = False
    failures = 0
    live = set()
    seen_nonzero_attempts = False
    prev_line = None
    last_call_t = None
    for l in lines:
        t, w = tparse(l)
        if not w:
            continue
        before, prev_line = prev_line, w
        if w[0] == "ready_err":
            tags.append("ready-err")
            continue
        if w[0] == "probe" and w[1].split("@")[0] == "incr":
            seen_nonzero_attempts = True
        if w[0] == "inner_call":
            i = ncalls.get(w[1], 0)
            ncalls[w[1]] = i + 1
            if i > 0 and cfg.rec and last_call_t is not None and t == last_call_t + cfg.rec and last_done.get(w[1], t) < t:
                tags.append("retry-waited-for-inner-readiness")
            last_call_t = t
            if i == 0:
                tags.append("call-first")
                first_call_t[w[1]] = t
                issued[w[1]] = (up, failures)
                if live:
                    tags.append("issued-while-others-outstanding")
                live.add(w[1])
            else:
                tags.append("call-retry")
                if last_done.get(w[1]) == t:
                    tags.append("call-retry-same-instant")
        elif w[0] == "inner_done":
            last_done[w[1]] = t
            if w[3].startswith("err") and cfg.reconnectable(int(w[3][3:])):
                up = False
                failures += 1
        elif w[0] == "inner_drop":
            tags.append("dropped-calling")
            live.discard(w[1])
        elif w[0] == "result":
            r = w[2]
            live.discard(w[1])
            if r.startswith("ok") and seen_nonzero_attempts:
                tags.append("success-after-application-incremented-attempts")
            if r.startswith("ok"):
                first = ncalls.get(w[1], 0) <= 1
                tags.append("result-ok-first" if first else "result-ok-after-retry")
                was_up, f0 = issued.get(w[1], (False, 0))
                if first and failures > f0:
                    # issued, then ANOTHER request handled a connection failure, then this one succeeds at its first attempt
                    tags.append("ok-first-after-foreign-failure")
                    if was_up:
                        tags.append("ok-first-after-foreign-failure-issued-while-connected")
                up = True
            elif r == "panic":
                tags.append("result-panic")
            elif r == "notready":
                tags.append("result-notready")
            elif r == "err:service:inner9:0" and before == ["ready_err"]:
                tags.append("result-readiness-error-after-backoff")
            else:
                tags.append("result-" + r.split(":")[1])
                if r.startswith("err:no_retry"):
                    up = True
        elif w[0] == "probe" and w[1].split("@")[0] == "state":
            tags.append("probe-" + w[3])
            if "@" in w[1]:
                tags.append("probe-state-other-layer-value")
        elif w[0] == "probe":
            what = w[1].split("@")[0]
            tags.append("probe-" + what)
            if what == "attempts" and w[-1] != "0":
                tags.append("attempts-nonzero")
            if what == "incr" and w[-1] not in ("0", "1"):
                tags.append("incr-twice-without-success-between")
            if what == "delay" and w[-1].isdigit() and int(w[-1]) % MS != 0:
                tags.append("probe-delay-submilli")
            if what == "delay" and w[-1] == "0":
                tags.append("probe-delay-zero")
            if what == "pred" and cfg.conn:
                tags.append("probe-pred-conn-" + ("accepts" if w[-1] == "1" else "rejects"))
            if w[-1] == "gone":
                tags.append("probe-config-after-dropsvc")
    hkv = kvs(case["header"])
    if hkv.get("ctor") in DEFAULT_CTORS:
        tags.append("ctor-default-config")
    elif "ctor" in hkv:
        tags.append("ctor-" + hkv["ctor"])
    for k in ("cclone", "cb", "unit", "jv"):
        if k in hkv:
            tags.append("header-%s-%s" % (k, hkv[k]))
    if cfg.conn:
        tags.append("pred-conn")
        for l in lines:
            t, w = tparse(l)
            if w and w[0] == "inner_done" and w[3].startswith("err"):
                tags.append("conn-error-" + ("accepted" if cfg.reconnectable(int(w[3][3:])) else "rejected"))
    lay_of = _lay_of(case)
    if len({lay_of.get(c, 0) for c in ncalls}) > 1:
        tags.append("requests-through-several-layer-values")
    heads = {}
    for l in lines:
        t, w = tparse(l)
        if w and w[0] == "inner_done" and w[3].startswith("err"):
            heads[(w[1], w[2])] = int(w[3][3:])
    for (c, k), causes in _chains(meta).items():
        if (c, k) not in heads:
            continue
        tags.append("error-with-causes")
        if len(causes) > 1:
            tags.append("cause-chain-deeper-than-one")
        if cfg.pred is not None:
            if not cfg.reconnectable(heads[(c, k)]) and any(cfg.reconnectable(x) for x in causes):
                tags.append("rejected-head-accepted-cause")
                if not cfg.reconnectable(causes[0]):
                    tags.append("rejected-head-accepted-deep-cause")
            if cfg.reconnectable(heads[(c, k)]) and any(not cfg.reconnectable(x) for x in causes):
                tags.append("accepted-head-rejected-cause")
    gone = None
    for i, m in (meta or []):
        w = m.split()
        if w[0] == "#fp" and w[1] in first_call_t and int(w[2]) > first_call_t[w[1]]:
            tags.append("first-poll-late")
        elif w[0] == "#dropsvc" and i >= 0:
            gone = i
            tags.append("dropsvc")
        elif w[0] == "#ondrop" and i >= 0:
            tags.append("arrival-inside-inner-destructor")
    if gone is not None:
        if any(tparse(l)[1][:1] in (["inner_done"], ["inner_call"], ["result"]) for l in lines[gone:]):
            tags.append("progress-after-dropsvc")
        if any(l.strip() == "noop" for l in lines[gone:]) and any(o.startswith("arrive") for o in case["ops"]):
            tags.append("noop-after-dropsvc")
    for o in case["ops"]:
        if o.startswith("arrive"):
            for k in ("via=same", "via=swap", "via=layer", "via=layerclone", "keep=1", "coop=1", "burn=1"):
                if k in o.split():
                    tags.append("arrive-" + k.replace("=1", "").replace("=", "-"))
    return tags


def nontrivial(case, lines, tags):
    return any(t in ("call-retry", "result-service", "result-max_attempts", "result-conn_failed", "result-no_retry", "result-panic")
               for t in tags)


LEVEL_NOTE = ("Trusted: Lean kernel; the transcription of ReconnectFuture::poll in TR.Model.Reconnect (validated only by the sampled "
              "correspondence check); tokio sleep semantics (a sleep of d ns ends at the first millisecond tick >= now+d; a zero sleep is ready "
              "at its first poll); the harness (virtual clock, manual poller, scripted inner service; ReconnectError is not exported, so the "
              "variant is read off its Display text and the payload off source()). Not verified: the u32 attempt counter wrapping after 2^32 "
              "reconnections with max_attempts=None; wake-ups (observed by the waker monitor); jittered policies are exercised through "
              "ReconnectPolicy::Custom wrapping the real ExponentialRandomBackoff (the delay it returned is an observed choice checked against "
              "the envelope). The texts of the scripted error kinds 4..15 are mirrored by hand in harness (kind_text), model (kindText) and "
              "monitors (KIND_TEXT); the readiness script of the harness's strict inner service supports ready/error answers and a recovery "
              "time, not self-waking pending answers.")

SPECS = {
    "C16": {
        "group": "reconnect",
        "module": "TR.Props.C16",
        "gen": gen,
        "monitors": [("c16-calls-bounded-retry-only-reconnectable", mon_calls), ("c16-delay-is-policy", mon_delay),
                     ("c16-first-success-or-wraps-last", mon_result), ("c16-published-state", mon_state),
                     ("c16-accessors-report-the-configuration", mon_accessors)],
        "transitions": transitions,
        "nontrivial": nontrivial,
        "all_transitions": ["call-first", "call-retry", "call-retry-same-instant", "dropped-calling", "result-ok-first",
                            "result-ok-after-retry", "result-panic", "result-service", "result-max_attempts", "result-conn_failed",
                            "result-no_retry", "probe-connected", "probe-disconnected", "probe-reconnecting",
                            "issued-while-others-outstanding", "ok-first-after-foreign-failure",
                            "ok-first-after-foreign-failure-issued-while-connected", "first-poll-late", "dropsvc",
                            "progress-after-dropsvc", "noop-after-dropsvc", "arrival-inside-inner-destructor",
                            "arrive-via-same", "arrive-via-swap", "arrive-via-layer", "arrive-keep", "arrive-coop", "arrive-burn",
                            "error-with-causes", "cause-chain-deeper-than-one", "rejected-head-accepted-cause",
                            "rejected-head-accepted-deep-cause", "accepted-head-rejected-cause",
                            "ctor-new", "ctor-builder", "ctor-default-config", "header-cclone-1", "header-cb-1", "header-cb-panic",
                            "header-unit-us", "header-jv-1", "pred-conn", "conn-error-accepted", "conn-error-rejected",
                            "requests-through-several-layer-values", "probe-state-other-layer-value", "arrive-via-layerclone",
                            "probe-attempts", "probe-incr", "probe-since", "probe-config", "probe-delay", "probe-pred",
                            "attempts-nonzero", "incr-twice-without-success-between", "success-after-application-incremented-attempts",
                            "probe-delay-submilli", "probe-delay-zero", "probe-pred-conn-accepts", "probe-pred-conn-rejects",
                            "probe-config-after-dropsvc", "ready-err", "result-notready",
                            "result-readiness-error-after-backoff", "retry-waited-for-inner-readiness"],
        "model_modules": ["TR.Model.Reconnect", "TR.Lemmas.Reconnect", "TR.Lemmas.ReconnectHistory", "TR.Lemmas.ReconnectChain",
                          "TR.Lemmas.ReconnectEntry", "TR.Lemmas.ReconnectLog", "TR.Lemmas.ReconnectTrace"],
        "lean_files": ["TR.Model.Reconnect", "TR.Lemmas.Reconnect", "TR.Lemmas.ReconnectHistory", "TR.Lemmas.ReconnectChain",
                       "TR.Lemmas.ReconnectEntry", "TR.Lemmas.ReconnectLog", "TR.Lemmas.ReconnectTrace"],
        "sizes": (600, 30000),
        "rule": "40 % of the cases: 2..6 requests outstanding at the same time on one shared ReconnectState (made through a dropped "
                "clone, the same handle, the mem::replace idiom or a service made by the same layer), issue / late or missing first poll / "
                "re-poll / completion / cancellation interleaved at random with `probe state` after every step, plans biased to "
                "first-attempt successes with latency and immediate reconnectable failures, optionally `manual dropsvc` (every handle "
                "and the layer dropped while requests are in flight), `manual ondrop` (a request arriving inside the destructor of a "
                "cancelled inner call), callers that keep finished futures / poll under the cooperative budget; the rest: "
                "seeded random op sequences (arrive/poll/drop/adv/settle/probe state) over 1..3 requests sharing one ReconnectLayer, "
                "plans of 1..7 scripted inner outcomes (ok / reconnectable err1 / other err2,err3 / panic / never, latency 0..12 ms), "
                "errors optionally with a scripted source() chain of depth 1..3 (errK>J>I: the predicate classifies each error by that "
                "error's own kind; heads the predicate rejects with causes it accepts, and the reverse), "
                "max_attempts none/0/1/2/3/5, policy none/fixed/exponential/jittered/custom with delays 0..50 ms, retry_on_reconnect on/off, "
                "predicate absent/{1}/{1,2}/{1,3}; advances biased to delay-1/delay/delay+1; distinct = distinct implementation event log; "
                "non-trivial = at least one retry or a non-success result. Half of the cases are then decorated from a private random "
                "stream (the rest are exactly the cases of the earlier rounds): construction path (ReconnectConfig::builder / "
                "ReconnectConfigBuilder::new / only the words of the header are set, the rest left to the builder's defaults / "
                "ReconnectConfig::default, ReconnectLayer::with_defaults, ReconnectLayer::default / the layer built from a clone of the "
                "configuration / unlimited_attempts after max_attempts), on_reconnect and on_state_change callbacks (also panicking), "
                "durations in microseconds (x125 .. x1001), the real ExponentialRandom variant with factor 0, pred=conn = "
                "connection_errors_only() with error kinds 4..15 that display OS-style texts (near misses included), requests spread over "
                "up to three layer values made from clones of one configuration value, services of a cloned layer value, probes of "
                "attempts()/increment_attempts()/time_since_connected()/config()/policy().delay_for_attempt(n)/should_reconnect(kind) "
                "through the layer, the service or a kept state handle between the steps, and an inner service that recovers for rec ms "
                "after every call and answers scripted readiness polls with errors (rdy=); 15 % of the decorated cases are dedicated "
                "readiness scenarios (Phase::Readying: the retry waits for the inner service, or ends with its readiness error)",
        "trusted": ["tokio sleep semantics as transcribed in TR.Model.Reconnect (sampled by the correspondence check)",
                    "harness: clock_gettime interposition, manual poller, scripted inner service", "python diff/monitors"],
        "assumptions": ["one poll of one call future is atomic (single-threaded runtime)", "u32 attempt counter modelled as unbounded Nat",
                        "policy delays are whole milliseconds except for the jittered policy"],
        "level_text": "Theorems TR.Props.C16.*: for every configuration (max_attempts none/any, any policy incl. none/custom/randomised, "
                      "retry_on_reconnect on/off, any predicate), any source() chain of the inner errors (only the error itself is classified: "
                      "histories that differ in causes only give the same run), every operation sequence (any number of requests, any poll/advance/cancel "
                      "order) and every script of inner outcomes: a request makes at most max_attempts+1 inner calls; every further call follows "
                      "a reconnectable error, with retry_on_reconnect on and a policy delay that the policy allows for that attempt, not earlier "
                      "than error instant + delay; the result is determined by the last inner call (first success, or the variant wrapping the "
                      "last inner error); the published state is Connected after a success and Reconnecting while the request that last wrote it "
                      "is still handling a failure; for any number of requests sharing the state in any interleaving the published state "
                      "reads Connected exactly from a success until the next reconnectable failure is handled (a function of the order of "
                      "completions, not of what the state read when a request was issued). Readiness of the wrapped service (any recovery time, "
                      "any scripted poll_ready answers, set at any time): a caller that finds it not ready makes no call; after a back-off the "
                      "call future polls it (Phase::Readying), waits while it is pending and on a readiness error returns ServiceError wrapping "
                      "that readiness error (the last call's error is dropped, the published state untouched); a polled request is never left "
                      "backing off past the end of its delay, nor waiting for a ready service; the result events of the log are exactly the "
                      "requests' results. connection_errors_only() accepts exactly the errors whose lower-cased text contains one of its five "
                      "phrases; the delay config().policy() reports is the delay waited (no floor); ReconnectConfig::default() never gives up; "
                      "time_since_connected() is always None and attempts() counts only the application's own increments (as the code is); "
                      "layer values made from clones of one configuration are independent instances, each with every theorem above. "
                      "Over the TIMESTAMPED event log itself (the lines the correspondence check compares, t=<instant> <event>; no ghost "
                      "variable): every reachable log is well formed (log_wellformed) - every inner_call line of a request after its first "
                      "directly follows, among that request's lines, inner_call c k0 / inner_done c k0 err<kd> with kd accepted by the "
                      "predicate, retry_on_reconnect on, attempts left, and is not earlier than the inner_done instant + a delay the policy "
                      "allows for that attempt (exactly that instant when the request is polled whenever its back-off ends and the inner "
                      "service has no recovery time: retry_exactly_after_the_delay); no prefix has more than max_attempts+1 inner_call lines "
                      "of one request; every result line wraps the request's LAST inner_done line with the variant the configuration and "
                      "the number of inner_call lines dictate, nothing of the request follows it, and an inner_done ok is followed only by "
                      "its result; every probe line reports pubOf of the lines before it (Connected / Disconnected / Reconnecting as a "
                      "function of the log); the ghost list of calls is exactly the request's inner_call lines. "
                      "The model is tied to the real ReconnectLayer by line-for-line agreement of event logs.",
        "level_note": LEVEL_NOTE,
    },
}
