"""C06 — time limiter: generator, implementation-side monitors

header: timelimiter timeout=<ms> cancel=<0|1> dyn=<0|1>
   or:  timelimiter chain=<s1,s2,…>   the builder chain itself, left to right: d<ms> = timeout_duration, f<ms> = timeout_fn
        (requests without their own timeout get <ms>), c0/c1 = cancel_running_future(false/true); `chain=-` = no setter
ops:    arrive <c> [timeout=<ms>] inner=<lat>:<out> | poll <c> | drop <c> | adv <ms> | settle | dropall | manual dropsvc
        wherever a timeout is written (`timeout=` in the header / on arrive, `d…` / `f…` in a chain) `max` = Duration::MAX, the
        idiomatic "no limit": not representable as a deadline, such a call is never due (tokio's timeout/sleep fall back to the far
        future); `manual dropsvc`: the adapter drops its TimeLimiter, the callers keep only their response futures (what
        ServiceExt::oneshot does); later arrivals are `noop`
        readiness of the wrapped service (header, optional): ready=<script> ('r' ready / 'p' pending / 'e' error per poll_ready of the
        inner service, exhausted: ready), rec=<ms> recall=1 (after a call on any instance every instance is Pending for <ms>),
        rec=<ms> recall=0 (per-instance recovery: never met through the time limiter).  At `arrive` the adapter calls poll_ready the way
        a Tower caller does: Pending -> `result c notready`, error -> `result c err:inner9:0`, and no call is made (the generator
        retries later under a fresh caller id); with these options inner_call lines read `inner_call c k tag=<c> ready=<0|1>`
entry points and handles (all optional, see harness/src/mw_timelimiter.rs): header `via=<builder|new|default>` (where the builder comes
        from), chain items `n<text>` (.name) and `ls`/`le`/`lt` (.on_success/.on_error/.on_timeout); `arrive … svc=<k>` (one of several
        services built lazily from the ONE layer value; `lc=1`: from a clone of the layer), `h=<j>` (the call is made on the kept handle j
        of that service, created — `from=<i>`: as a clone of handle i — when first used and then re-used), `manual forget svc=<k> [h=<j>]` /
        `manual forget layer=1` (a handle / a service with all its handles / the layer value is dropped; `manual dropsvc` drops everything),
        `probe source [timeout=<t>] path=<[cb]*>` (the configured timeout source constructed stand-alone, cloned ('c') / clone_box'ed ('b')
        along the path, asked for the timeout of a request: `probe source <ms|max>`).  A result text may carry `!accessors:…` (is_timeout /
        into_inner / ResilienceError::from contradict the variant) or `!listeners:…` (the counting listeners did not fire once per result).
knob:   `manual knob v=<ms|max>` / `manual knob v=-` — mutable state the harness's timeout function reads besides the request: it answers the
        request's own `timeout=`, else the knob's CURRENT value, else the default.  `call()` asks the source, so the timeout of a call is the
        answer at `arrive` (`_script`), whatever the knob is turned to before the (late, out-of-order) first poll of the response future
        (theorem deadline_fixed_at_call); a fixed source never reads it.  `probe source` reads it too.  Meta line `#knob <t> <v>`.
wake-ups: `probe woken c=<c>` — has the waker of caller c's call future fired since that future was last polled?  Logged as `probe woken <c>`,
        the answer travels as the observed choice `@woken=<0|1>` on the op line (the model checks the obligation: once min(done, deadline)
        has been reached the waker of a pending call must have fired; it may fire spuriously) and as the meta line `#woken <c> <t> <0|1>`
log:    `inner_orphaned <c> <k>`: the last instance of the (scripted) inner service was dropped while call k was unfinished — the inner
        service of the harness ties in-flight work to live handles, like a client handle of a shared connection

Facts about the real layer the monitors rely on (read off lib.rs, not off the Lean model):
`call()` only captures the timeout; the inner service is called, and the deadline armed, at
the first poll of the call future.  So with fp = instant of the first poll:
    done     = fp + latency   (never, for a never-completing inner call)
    deadline = fp + timeout   (timeout = the request's own one with a per-request source)
and the property says: the call resolves at m = min(done, deadline) — as soon as it is polled
at an instant >= m, and it must have been woken at the first instant >= m that virtual time
visits — with the inner result if done < deadline, with the timeout error if deadline < done.
"""
import random
from gen.util import kvs, tparse


# ----------------------------------------------------------------------------- generator

def _lat_near(rng, T):
    r = rng.random()
    if r < 0.18:
        return max(0, T - 1)
    if r < 0.38:
        return T
    if r < 0.56:
        return T + 1
    if r < 0.66:
        return 0
    if r < 0.80:
        return rng.randint(0, max(1, T))
    return rng.randint(0, 60)


def _outcome(rng):
    r = rng.random()
    if r < 0.56:
        return "ok"
    if r < 0.80:
        return "err%d" % rng.randint(1, 2)
    if r < 0.94:
        return "never"
    return "panic"


U64MAX = 2 ** 64 - 1
HUGE = [U64MAX, U64MAX - 1, 2 ** 63, 10 ** 13, 4102444800000]
FAR = 10 ** 6          # beyond this a timeout / deadline is "never reached" as far as the generator's clock goes
INF = 2 ** 200         # `max` = Duration::MAX: no deadline at all (python side: an instant no clock reaches)


def tmo_parse(text, dflt=None):
    """'<ms>' or 'max' -> int (INF for max); anything else -> dflt"""
    if text == "max":
        return INF
    if text.isascii() and text.isdigit():
        return int(text)
    return dflt


def tmo_text(t):
    return "max" if t >= INF else "%d" % t


def _d(t):
    """an instant in a message"""
    return "never" if t is not None and t >= INF else str(t)


def _timeout_value(rng):
    r = rng.random()
    if r < 0.05:
        return INF
    if r < 0.10:
        return rng.choice(HUGE)
    return rng.choice([0, 1, 2, 5, 10, 10, 20, rng.randint(1, 40), rng.randint(1, 40)])


def parse_chain(text):
    """the configuration a builder chain asks for: every field is the one set last (defaults: fixed 5 s, cancelling).
    Stated from the builder's documentation, not from the Lean model."""
    T, cancel, dyn = 5000, True, False
    last_src = last_flag = None
    for i, it in enumerate(text.split(",")):
        head, arg = it[:1], it[1:]
        t = tmo_parse(arg)
        if head == "d" and t is not None:
            T, dyn, last_src = t, False, i
        elif head == "f" and t is not None:
            T, dyn, last_src = t, True, i
        elif head == "c" and arg.isascii() and arg.isdigit() and int(arg) <= 1:
            cancel, last_flag = int(arg) == 1, i
    return T, cancel, dyn, last_src, last_flag


def _gen_chain(rng):
    """a random builder chain: 0..5 setters in any order, repeated setters (the later one overrides), and with
    emphasis on the two orders of {flag, timeout source}"""
    r = rng.random()
    T = _timeout_value(rng)
    src = ("f%s" if rng.random() < 0.6 else "d%s") % tmo_text(T)
    flag = "c%d" % (0 if rng.random() < 0.7 else 1)
    if r < 0.30:
        items = [flag, src]
    elif r < 0.50:
        items = [src, flag]
    elif r < 0.56:
        items = [src]
    elif r < 0.60:
        items = [flag]
    elif r < 0.63:
        items = []
    else:
        items = []
        for _ in range(rng.randint(2, 5)):
            q = rng.random()
            if q < 0.30:
                items.append("d%s" % tmo_text(_timeout_value(rng)))
            elif q < 0.60:
                items.append("f%s" % tmo_text(_timeout_value(rng)))
            else:
                items.append("c%d" % rng.choice([0, 0, 1]))
    return ",".join(items) if items else "-"


def gen(rng, tier):
    if rng.random() < 0.55:
        chain = _gen_chain(rng)
        T, cancel, dyn, _, _ = parse_chain(chain)
        cancel, dyn = int(cancel), int(dyn)
        header = "timelimiter chain=%s" % chain
    else:
        T = _timeout_value(rng)
        cancel = rng.choice([0, 1])
        dyn = rng.choice([0, 1])
        header = "timelimiter timeout=%s cancel=%d dyn=%d" % (tmo_text(T), cancel, dyn)
    # readiness of the wrapped service: always ready (50 %), not ready for a stretch after every call, never ready (again), failing
    rd_script, rec, recall = "", 0, 0
    if rng.random() < 0.50:
        q = rng.random()
        near = [x for x in (T - 1, T, T + 1) if 0 < x < FAR]
        stretch = rng.choice([1, 2, 5, 10, 20, rng.randint(1, 40)] + near)
        if q < 0.34:
            rec, recall = stretch, 1
        elif q < 0.42:
            rec, recall = 10 ** 7, 1                      # never ready again after the first call
        elif q < 0.54:
            rd_script = "p" * rng.randint(1, 3) + rng.choice(["", "r", "rp", "re"])
        elif q < 0.62:
            rd_script = "p" * 64                          # never ready
        elif q < 0.80:
            rd_script = "".join(rng.choice("rrrppe") for _ in range(rng.randint(1, 8)))
        elif q < 0.92:
            rec, recall = stretch, 1
            rd_script = "".join(rng.choice("rrrrpe") for _ in range(rng.randint(1, 6)))
        else:
            rec, recall = stretch, 0                      # control: a per-instance recovery is never met
    if rd_script:
        header += " ready=%s" % rd_script
    if rec:
        header += " rec=%d recall=%d" % (rec, recall)
    script_left = [rd_script]
    busy = [0]
    ncall = rng.randint(1, 6)
    next_id = ncall + 1
    # the callers let go of the service (oneshot): never (70 %), as soon as every call has been made, or at a random point
    r = rng.random()
    dropsvc = "never" if r < 0.70 else "after-arrivals" if r < 0.88 else "random"
    gone = False
    pending = list(range(1, ncall + 1))
    ops = []
    now = 0
    arrived = []          # created, maybe not polled
    eff = {}
    lat = {}
    marks = []
    polled = set()

    def first_poll(c):
        if c in polled:
            return
        polled.add(c)
        if lat[c] is not None:
            marks.append(now + lat[c])
        if eff[c] < FAR:
            marks.append(now + eff[c])
        if rec and recall:
            busy[0] = now + rec
            if rec < FAR:
                marks.append(busy[0])

    def rd_answer():
        """the generator's own idea of what the wrapped service answers now (only used to plan retries)"""
        if now < busy[0]:
            return "p"
        a, script_left[0] = script_left[0][:1], script_left[0][1:]
        return a if a in ("p", "e") else "r"

    nsteps = rng.randint(6, 40)
    for _ in range(nsteps):
        r = rng.random()
        if not gone and arrived and ((dropsvc == "after-arrivals" and not pending and rng.random() < 0.5)
                                     or (dropsvc == "random" and rng.random() < 0.08)):
            ops.append("manual dropsvc")
            gone = True
            if rng.random() < 0.8:
                pending = []
            continue
        if pending and gone and (r < 0.22 or not arrived):
            # no handle is left: the request cannot be made (answered `noop` by harness and driver alike)
            c = pending.pop(0)
            ops.append("arrive %d inner=%d:ok" % (c, rng.randint(0, 9)))
            if rng.random() < 0.5:
                ops.append("poll %d" % c)
            continue
        if pending and (r < 0.22 or not arrived):
            c = pending.pop(0)
            words = ["arrive", str(c)]
            t_eff = T
            if rng.random() < (0.75 if dyn else 0.25):
                tr = rng.choice([0, 1, 3, 5, 8, 10, 15, rng.randint(0, 40)])
                q = rng.random()
                if q < 0.06:
                    tr = INF
                elif q < 0.12:
                    tr = rng.choice(HUGE)
                words.append("timeout=%s" % tmo_text(tr))
                if dyn:
                    t_eff = tr
            out = _outcome(rng)
            la = _lat_near(rng, t_eff) if t_eff < FAR else rng.choice([0, 1, 5, rng.randint(0, 60)])
            if out == "never" and cancel and rng.random() < 0.5:
                # an inner future that never completes AND exhausts tokio's cooperative budget on every poll:
                # the deadline must still fire (tokio's `timeout` polls its timer unconstrained in that case)
                out = "hog"
                words.append("coop=1")
            words.append("inner=%d:%s" % (la, out))
            ops.append(" ".join(words))
            if rd_answer() != "r":
                # the wrapped service is not ready (or failed): no call is made; the caller comes back later under a fresh id
                if next_id <= 12 and rng.random() < 0.8:
                    pending.append(next_id)
                    next_id += 1
                if rng.random() < 0.15:
                    ops.append("poll %d" % c)
                if now < busy[0] < now + FAR and rng.random() < 0.5:
                    d = max(0, busy[0] - now + rng.choice([-1, 0, 0, 1]))
                    ops.append("adv %d" % d)
                    now += d
                continue
            arrived.append(c)
            eff[c] = t_eff
            lat[c] = None if out in ("never", "hog") else la
            # separate creation from the first poll about half of the time
            if rng.random() < 0.5:
                ops.append("poll %d" % c)
                first_poll(c)
            elif rng.random() < 0.5:
                d = rng.choice([1, 2, 5, eff[c], eff[c] + 1] if eff[c] < FAR else [1, 2, 5, 50])
                ops.append("adv %d" % d)
                now += d
        elif r < 0.52 and arrived:
            c = rng.choice(arrived)
            ops.append("poll %d" % c)
            first_poll(c)
        elif r < 0.58 and arrived:
            ops.append("drop %d" % rng.choice(arrived))
        elif r < 0.88:
            fut = [m for m in marks if m >= now]
            q = rng.random()
            if fut and q < 0.70:
                d = max(0, rng.choice(fut) - now + rng.choice([-1, 0, 0, 0, 1]))
            elif fut and q < 0.80:
                d = max(fut) - now + rng.choice([0, 1, 5])      # jump over everything: late polls
            else:
                d = rng.choice([0, 1, 2, 5, 10, rng.randint(0, 30)])
            ops.append("adv %d" % d)
            now += d
        else:
            ops.append("settle")
            for c in arrived:
                first_poll(c)
    # finish: let everything resolve, then let the detached calls run out
    if rng.random() < 0.85:
        ops.append("settle")
        for c in arrived:
            first_poll(c)
        fut = [m for m in marks if m >= now]
        if fut and rng.random() < 0.8:
            ops.append("adv %d" % (max(fut) - now + rng.choice([0, 0, 1])))
            ops.append("settle")
        if rng.random() < 0.3:
            ops.append("dropall")
            ops.append("adv %d" % rng.choice([1, 50, 100]))
    return _decorate(rng, header, ops)


NAMES = ["api", "db", "x", "limiter-1", "a.b", "T"]


def _decorate(rng, header, ops):
    """entry points and handles: none of them changes what a call does (the base case above is what it was), so they are laid over
    the finished case: where the builder comes from, names and listeners in the chain, the service and the handle every call goes
    through, handles / services / the layer dropped at any point, probes of the stand-alone timeout source"""
    if rng.random() < 0.30:
        header += " via=%s" % rng.choice(["new", "default"])
    w = header.split()
    if rng.random() < 0.45:
        ix = [i for i, x in enumerate(w) if x.startswith("chain=")]
        if ix:
            items = [x for x in w[ix[0]][6:].split(",") if x != "-"]
            for _ in range(rng.randint(1, 3)):
                it = rng.choice(["n" + rng.choice(NAMES), "ls", "le", "lt", "lt"])
                items.insert(rng.randint(0, len(items)), it)
            w[ix[0]] = "chain=" + ",".join(items)
            header = " ".join(w)
    out = list(ops)
    if rng.random() < 0.45:
        # several services from the one layer, kept handles (re-used while calls are in flight, cloned after calls)
        nsvc = rng.choice([1, 2, 2, 3])
        nh = rng.choice([1, 1, 2, 3])
        keep = rng.choice([0.3, 0.6, 1.0])
        if "e" in kvs(header).get("ready", "") and rng.random() < 0.6:
            # a readiness error met on the one handle everybody uses, while earlier calls made on it are in flight
            nsvc, nh, keep = 1, 1, 1.0
        for i, o in enumerate(out):
            if o.startswith("arrive "):
                extra = []
                if nsvc > 1 or rng.random() < 0.5:
                    extra.append("svc=%d" % rng.randrange(nsvc))
                if rng.random() < keep:
                    extra.append("h=%d" % rng.randrange(nh))
                    if rng.random() < 0.3:
                        extra.append("from=%d" % rng.randrange(nh))
                if rng.random() < 0.25:
                    extra.append("lc=1")
                out[i] = o + "".join(" " + e for e in extra)
        for _ in range(rng.choice([0, 0, 1, 1, 2, 3])):
            q = rng.random()
            f = ("manual forget svc=%d h=%d" % (rng.randrange(nsvc), rng.randrange(nh)) if q < 0.45
                 else "manual forget svc=%d" % rng.randrange(nsvc) if q < 0.85 else "manual forget layer=1")
            out.insert(rng.randint(0, len(out)), f)
    if rng.random() < 0.25:
        for _ in range(rng.randint(1, 3)):
            pr = "probe source"
            if rng.random() < 0.6:
                pr += " timeout=%s" % tmo_text(rng.choice([0, 1, 7, 33, rng.choice(HUGE), INF]))
            pr += " path=%s" % "".join(rng.choice("cb") for _ in range(rng.randint(0, 4)))
            out.insert(rng.randint(0, len(out)), pr)
    if rng.random() < 0.45:
        # the wake-up of a pending call: pure observations, mostly right after the clock moved or a poll returned
        ids = sorted({o.split()[1] for o in out if o.startswith("arrive ") and len(o.split()) > 1}, key=int)
        for _ in range(rng.randint(1, 6)):
            c = rng.choice(ids) if ids and rng.random() < 0.95 else str(rng.randint(1, 14))
            # while the call is (probably) pending: soon after its first poll
            first = [i for i, o in enumerate(out) if o.split()[:2] == ["poll", c] or (o == "settle" and ("arrive %s " % c) in " ".join(out[:i]) + " ")]
            pos = [i + 1 for i, o in enumerate(out) if o.split()[:1] in (["adv"], ["poll"], ["settle"]) and (not first or i >= first[0])]
            if first and pos and rng.random() < 0.8:
                at = rng.choice(pos[:4])
            else:
                at = rng.choice(pos) if pos and rng.random() < 0.7 else rng.randint(0, len(out))
            out.insert(at, "probe woken c=%s" % c)
    return _knob(_construction_context({"header": header, "ops": out}))


BUILT = ["here", "other-idle", "other-dropped"]


def _construction_context(case):
    """which tokio runtime is current while the layer and the services are constructed (`built=`): the case's own, or a second
    runtime that is then left idle / dropped; in the header (everything the adapter constructs) and on arrivals (the service this
    arrival builds lazily: services of one case built in different contexts).  A time limiter is a value: the model has no
    construction context at all (theorem construction_context_irrelevant).  Drawn from a generator of its own, seeded by the
    finished case: the cases are, but for these words, the ones they were."""
    import hashlib
    rng = random.Random(int(hashlib.sha1((case["header"] + "|" + "|".join(case["ops"])).encode()).hexdigest()[:12], 16))
    header, out = case["header"], list(case["ops"])
    if rng.random() < 0.35:
        header += " built=%s" % rng.choice(BUILT[1:])
    if rng.random() < 0.5:
        p = rng.choice([0.3, 0.6, 1.0])
        for i, o in enumerate(out):
            if o.startswith("arrive ") and " svc=" in o and rng.random() < p:
                out[i] = o + " built=%s" % rng.choice(BUILT)
    return {"header": header, "ops": out}


def _knob(case):
    """mutable state read by the timeout function (`manual knob v=<t>` / `v=-`): the harness's `timeout_fn` answers the request's own
    `timeout=`, else the knob's current value, else its default.  `call()` asks the source, so what counts is the knob at `arrive` —
    the knob is turned between a call and its (late) first poll, between calls that are first polled in another order than they were
    made, and at random.  Some arrivals lose their own `timeout=` so that they read the knob.  With a fixed source (control) the knob
    is read by nobody.  Drawn from a generator of its own, seeded by the finished case: 70 % of the cases are the ones they were."""
    import hashlib
    rng = random.Random(int(hashlib.sha1(("knob|" + case["header"] + "|" + "|".join(case["ops"])).encode()).hexdigest()[:12], 16))
    T, cancel, dyn = _cfg(case)
    if rng.random() >= (0.40 if dyn else 0.08):
        return case
    out = list(case["ops"])
    lats = []
    for i, o in enumerate(out):
        w = o.split()
        if w[:1] == ["arrive"]:
            if rng.random() < 0.6:
                out[i] = " ".join(x for x in w if not x.startswith("timeout="))
            first = kvs(o).get("inner", "0:ok").split(",")[0].partition(":")[0]
            if first.isdigit():
                lats.append(int(first))

    def value():
        q = rng.random()
        if q < 0.08:
            return "-"
        if q < 0.14:
            return "max"
        if q < 0.18:
            return str(rng.choice(HUGE))
        near = [x + d for x in lats for d in (-1, 0, 1, 3) if x + d >= 0]
        return str(rng.choice(near if (near and rng.random() < 0.6) else [0, 1, 2, 3, 5, 8, 10, 15, 25, 40, rng.randint(0, 60)]))

    res = []
    unpolled = []
    if rng.random() < 0.6:
        res.append("manual knob v=%s" % value())
    for i, o in enumerate(out):
        w = o.split()
        if w[:1] == ["arrive"] and rng.random() < 0.35:
            res.append("manual knob v=%s" % value())
        res.append(o)
        if w[:1] == ["arrive"] and len(w) > 1:
            nxt = out[i + 1].split() if i + 1 < len(out) else []
            if nxt[:2] != ["poll", w[1]]:
                unpolled.append(w[1])
                # made, not polled yet: the knob is turned before the first poll
                if rng.random() < 0.6:
                    res.append("manual knob v=%s" % value())
        elif rng.random() < 0.06:
            res.append("manual knob v=%s" % value())
    # calls first polled in another order than they were made: the first polls of the not-yet-polled calls, latest first
    if len(unpolled) >= 2 and rng.random() < 0.5:
        ix = [i for i, o in enumerate(res) if o.split()[:1] == ["arrive"] and o.split()[1] in unpolled]
        at = ix[-1] + 1
        while at < len(res) and res[at].startswith("manual knob"):
            at += 1
        order = list(reversed(unpolled))
        if rng.random() < 0.4:
            rng.shuffle(order)
        res[at:at] = ["poll %s" % c for c in order]
    return {"header": case["header"], "ops": res}


# ----------------------------------------------------------------------------- reading a case

def _cfg(case):
    cfg = kvs(case["header"])
    if "chain" in cfg:
        T, cancel, dyn, _, _ = parse_chain(cfg["chain"])
        return T, cancel, dyn
    return tmo_parse(cfg.get("timeout", "5000"), 5000), cfg.get("cancel", "1") != "0", cfg.get("dyn", "0") != "0"


def _script(case):
    """caller -> (effective timeout, latency or None for never, outcome, arrival instant)"""
    T, cancel, dyn = _cfg(case)
    res = {}
    now = 0
    seen = set()
    gone = False
    knob = None
    for o in case["ops"]:
        w = o.split()
        if not w:
            continue
        if w[0] == "adv" and len(w) > 1 and w[1].isdigit():
            now += int(w[1])
        if w[:2] == ["manual", "dropsvc"]:
            gone = True
        if w[:2] == ["manual", "knob"]:
            knob = tmo_parse(kvs(o).get("v", "-"))
        if w[0] == "arrive" and len(w) > 1 and w[1] not in seen:
            seen.add(w[1])
            if gone:
                continue       # every handle has been dropped: no request can be made any more
            kv = kvs(o)
            # the timeout function is asked by `call()`: the request's own timeout, else the knob AS IT IS NOW, else the default
            t_eff = (tmo_parse(kv["timeout"], T) if "timeout" in kv else knob if knob is not None else T) if dyn else T
            first = kv.get("inner", "0:ok").split(",")[0]
            la, _, out = first.partition(":")
            if not out:
                la, out = "0", la
            res[w[1]] = (t_eff, None if out in ("never", "hog") else int(la), out, now)
    return res


def _visited(case):
    v = [0]
    for o in case["ops"]:
        w = o.split()
        if w and w[0] == "adv" and len(w) > 1 and w[1].isdigit():
            v.append(v[-1] + int(w[1]))
    return v


def first_visited_at_or_after(visited, instant):
    for t in visited:
        if t >= instant:
            return t
    return None


def _timeline(lines, meta):
    """merge the meta lines (#fp/#wake/#drop) into the event stream: list of (kind, words, t)"""
    ev = []
    mi = 0
    meta = [m for m in meta if m[0] >= 0]
    for i, l in enumerate(lines + [None]):
        while mi < len(meta) and meta[mi][0] == i:
            ws = meta[mi][1].split()
            ev.append(("meta", ws, None))
            mi += 1
        if l is not None:
            t, w = tparse(l)
            ev.append(("line", w, t))
    return ev


class View:
    """what the implementation log says about every caller"""

    def __init__(self, case, lines, meta):
        self.T, self.cancel, self.dyn = _cfg(case)
        self.script = _script(case)
        self.visited = _visited(case)
        self.ev = _timeline(lines, meta)
        self.fp = {}          # caller -> instant of the first poll
        self.call = {}        # caller -> (instant, serial, position)
        self.done = {}        # caller -> (instant, outcome word, position)
        self.idrop = {}       # caller -> (instant, position)
        self.result = {}      # caller -> (instant, text, position)
        self.dropped = {}     # caller -> (instant, position)     call future dropped by the caller
        self.orphan = {}      # caller -> (instant, serial, position)   inner call orphaned: last handle of the inner service gone
        self.dropsvc = None   # instant at which the callers let go of the service
        self.refused = {}     # caller -> (instant, text, position): poll_ready was not Ready(Ok) at `arrive`, no call was made
        self.wakes_before_result = {}
        self.errors = []
        self.marked = []      # (caller, instant, text as logged) of results whose text carries `!accessors:` / `!listeners:`
        self.forgets = []     # (position, instant, what)
        self.probes = []      # (instant, words after `probe`)
        self.woken = []       # (position, caller, instant, fired?) of every `probe woken`
        self.fp_pos = {}      # caller -> position of its first poll
        self.pollend = {}     # caller -> instant of the latest poll that left it pending
        self.pollend_at = []  # (position, caller, instant)
        lastwake = {}
        for i, (kind, w, t) in enumerate(self.ev):
            if not w:
                continue
            if kind == "meta":
                if w[0] == "#fp":
                    self.fp[w[1]] = int(w[2])
                    self.fp_pos[w[1]] = i
                elif w[0] == "#woken" and len(w) > 3:
                    self.woken.append((i, w[1], int(w[2]), w[3] == "1"))
                elif w[0] == "#pollend" and len(w) > 2:
                    self.pollend_at.append((i, w[1], int(w[2])))
                elif w[0] == "#wake":
                    lastwake[w[1]] = (i, [int(x) for x in w[2].split(",")])
                elif w[0] == "#drop":
                    self.dropped[w[1]] = (int(w[2]), i)
                elif w[0] == "#dropsvc" and len(w) > 1:
                    self.dropsvc = int(w[1])
                elif w[0] == "#forget" and len(w) > 2:
                    self.forgets.append((i, int(w[1]), " ".join(w[2:])))
                continue
            c = w[1] if len(w) > 1 else None
            if w[0] == "probe":
                self.probes.append((t, w[1:]))
                continue
            if w[0] == "result" and len(w) > 2 and "!" in w[2]:
                # cross-checks of the adapter (error accessors, listeners): monitors of their own; the result is what the variant says
                self.marked.append((c, t, w[2]))
                w = w[:2] + [w[2].split("!")[0]] + w[3:]
            if w[0] == "inner_call":
                if c in self.call:
                    self.errors.append("caller %s: a second inner_call (%s)" % (c, " ".join(w)))
                self.call[c] = (t, w[2], i)
            elif w[0] == "inner_done":
                if c in self.done or c in self.idrop:
                    self.errors.append("caller %s: inner call ended twice" % c)
                self.done[c] = (t, w[3], i)
            elif w[0] == "inner_drop":
                if c in self.done or c in self.idrop:
                    self.errors.append("caller %s: inner call ended twice" % c)
                self.idrop[c] = (t, i)
            elif w[0] == "inner_orphaned":
                self.orphan.setdefault(c, (t, w[2], i))
            elif w[0] == "result" and c not in self.fp and (w[2] == "notready" or w[2].startswith("err:inner9:")):
                # answered by poll_ready at `arrive`: the caller never got a call future
                if c in self.refused:
                    self.errors.append("caller %s: refused twice" % c)
                self.refused[c] = (t, w[2], i)
            elif w[0] == "result":
                if c in self.result:
                    self.errors.append("caller %s: two results" % c)
                self.result[c] = (t, w[2], i)
                lw = lastwake.get(c)
                # the #wake line of the resolving poll directly precedes the events of that poll
                self.wakes_before_result[c] = lw[1] if lw else []
        self.end = self.visited[-1]
        self.arrivals = dict(self.script)         # every request, refused ones included
        for c in self.refused:
            self.script.pop(c, None)

    def times(self, c):
        """(timeout, done instant or None, deadline, outcome) of a first-polled caller"""
        t_eff, la, out, _ = self.script[c]
        fp = self.fp[c]
        return t_eff, (None if la is None else fp + la), fp + t_eff, out


def _inner_text(out, k):
    if out == "ok":
        return "ok:%s" % k
    if out.startswith("err"):
        return "err:inner%s:%s" % (out[3:], k)
    return None


# ----------------------------------------------------------------------------- monitors

def mon_instant(case, lines, meta):
    """the call resolves exactly at the first poll at an instant >= min(done, deadline), never
    before, and the caller has been woken at the first visited instant >= min(done, deadline)"""
    v = View(case, lines, meta)
    if v.errors:
        return v.errors[0]
    # expected resolution instants from the polls performed: walk the operations
    now = 0
    live = {}            # caller -> polled before?
    seen = set()
    expected = {}        # caller -> instant of the poll at which it has to resolve
    m_of = {}

    def poll(c):
        first = not live[c]
        if first:
            live[c] = True
            t_eff, la, out, _ = v.script[c]
            m_of[c] = min(now + t_eff, now + la) if la is not None else now + t_eff
            if not v.cancel and t_eff > 0:
                return     # non-cancel mode: the first poll only spawns the call; nothing can be available yet
        if now >= m_of[c]:
            expected[c] = now
            del live[c]

    gone = False
    for o in case["ops"]:
        w = o.split()
        if not w:
            continue
        if w[0] == "adv" and len(w) > 1 and w[1].isdigit():
            now += int(w[1])
        elif w[:2] == ["manual", "dropsvc"]:
            gone = True
        elif w[0] == "arrive" and len(w) > 1 and w[1].isdigit() and w[1] not in seen:
            seen.add(w[1])
            if not gone and w[1] not in v.refused:
                live[w[1]] = False
        elif w[0] == "poll" and len(w) > 1 and w[1] in live:
            poll(w[1])
        elif w[0] == "drop" and len(w) > 1 and w[1] in live:
            del live[w[1]]
        elif w[0] == "dropall":
            live.clear()
        elif w[0] == "settle":
            for _ in range(2):
                for c in sorted(live, key=int):
                    poll(c)
    for c, (tr, text, _) in v.result.items():
        if c not in v.fp:
            return "caller %s has a result but was never polled" % c
        t_eff, done, deadline, out = v.times(c)
        m = deadline if done is None else min(done, deadline)
        if tr < m:
            return "caller %s resolved at t=%d (%s), before min(done=%s, deadline=%s)" % (c, tr, text, done, _d(deadline))
        if c not in expected:
            return "caller %s resolved at t=%d (%s) by a poll that should not have resolved it" % (c, tr, text)
        if expected[c] != tr:
            return "caller %s (first poll t=%d, done=%s, deadline=%s) resolved at t=%d, but was polled at t=%d >= min(done, deadline)" % (
                c, v.fp[c], done, _d(deadline), tr, expected[c])
        due = first_visited_at_or_after(v.visited, m)
        if due is not None and tr > due and tr > v.fp[c] and due not in v.wakes_before_result.get(c, []):
            # exception: resolved by the very first poll needs no wake-up
            return "caller %s (done=%s, deadline=%s) was not woken at t=%d, the first visited instant >= min(done, deadline) (wake-ups before the resolving poll: %s); resolved only when polled at t=%d" % (
                c, done, _d(deadline), due, v.wakes_before_result.get(c, []), tr)
        if due is not None and tr > due and tr == v.fp[c]:
            pass
    for c, tx in expected.items():
        if c not in v.result:
            return ("caller %s still pending after a poll at t=%d >= min(done, deadline)=%d (first polled at t=%s, timeout %s): a call resolves "
                    "no later than its timeout after it starts" % (c, tx, m_of[c], v.fp.get(c), tmo_text(v.script[c][0]) if c in v.script else "?"))
    return None


def _kind_check(case, lines, meta, strict_both):
    v = View(case, lines, meta)
    for c, (tr, text, _) in v.result.items():
        if c not in v.fp or c not in v.script:
            continue
        t_eff, done, deadline, out = v.times(c)
        k = v.call[c][1] if c in v.call else "?"
        inner = _inner_text(out, k)
        have_inner = done is not None and done <= tr
        have_deadline = deadline <= tr
        if out == "panic":
            # outside the property's quantifier; only: nothing else than panic / timeout comes out
            if text not in ("panic", "err:timeout"):
                return "caller %s: inner call panics, result %s" % (c, text)
            continue
        if not strict_both:
            if text != "err:timeout" and text != inner:
                return "caller %s: result %s is neither the inner outcome (%s) nor the timeout error" % (c, text, inner)
            if text == inner and not have_inner:
                return "caller %s got the inner result %s at t=%d before it was available (done=%s)" % (c, text, tr, done)
            if text == "err:timeout" and not have_deadline:
                return "caller %s got the timeout error at t=%d before the deadline %s" % (c, tr, _d(deadline))
            if have_inner and not have_deadline and text != inner:
                return "caller %s: inner call finished at %d, before the deadline %s, polled at t=%d: expected %s, got %s" % (
                    c, done, _d(deadline), tr, inner, text)
            if have_deadline and not have_inner and text != "err:timeout":
                return "caller %s: deadline %d passed, inner call not finished (done=%s), polled at t=%d: expected err:timeout, got %s" % (
                    c, deadline, done, tr, text)
        else:
            if have_inner and have_deadline and done < deadline and text != inner:
                return ("caller %s: the inner call finished at t=%d, strictly before the deadline t=%s, the caller was polled at t=%d "
                        "and got %s instead of %s" % (c, done, _d(deadline), tr, text, inner))
    return None


def mon_kind(case, lines, meta):
    """inner result iff it is what is available; timeout error iff only the deadline has passed"""
    return _kind_check(case, lines, meta, False)


def mon_intime_result(case, lines, meta):
    """an inner call that finished strictly before the deadline is never reported as a timeout,
    also when the caller is polled only after the deadline"""
    return _kind_check(case, lines, meta, True)


def mon_fate(case, lines, meta):
    """cancel mode: the inner future is dropped exactly when the call times out (or when the
    caller drops the call future), never otherwise; non-cancel mode: never dropped, and it
    completes at its own latency whatever happened to the caller"""
    v = View(case, lines, meta)
    if v.errors:
        return v.errors[0]
    for c, (tc, k, _) in v.call.items():
        if c not in v.fp:
            return "inner call for caller %s which was never polled" % c
        if tc != v.fp[c]:
            return "caller %s first polled at t=%d but the inner service was called at t=%d" % (c, v.fp[c], tc)
    for c in v.fp:
        if c not in v.call:
            return "caller %s was polled at t=%d but the inner service was never called" % (c, v.fp[c])
    for c in v.call:
        t_eff, done, deadline, out = v.times(c)
        res = v.result.get(c)
        if v.cancel:
            if c in v.idrop:
                td, pos = v.idrop[c]
                if res and res[1] == "err:timeout":
                    if not (res[2] == pos + 1 and res[0] == td):
                        return "caller %s: inner future dropped at t=%d but the timeout was reported at t=%d" % (c, td, res[0])
                    if td < deadline:
                        return "caller %s: inner future dropped at t=%d before the deadline %s" % (c, td, _d(deadline))
                elif res:
                    return "caller %s: inner future dropped although the call resolved with %s" % (c, res[1])
                elif c not in v.dropped or v.dropped[c][1] + 1 != pos:
                    return "caller %s: inner future dropped at t=%d with no timeout and no drop of the call future" % (c, td)
            if res and res[1] == "err:timeout" and c not in v.idrop:
                return "caller %s timed out at t=%d but its inner future was not dropped (cancel mode)" % (c, res[0])
            if c in v.done:
                tdn, _, pos = v.done[c]
                if not res or res[2] != pos + 1:
                    return "caller %s: inner call completed at t=%d without delivering its result in that step" % (c, tdn)
            if c in v.dropped and c not in v.idrop and c not in v.done:
                return "caller %s: call future dropped at t=%d but the inner future lives on (cancel mode)" % (c, v.dropped[c][0])
        else:
            if c in v.idrop:
                return "caller %s: inner future dropped at t=%d in non-cancel mode" % (c, v.idrop[c][0])
            due = None if done is None else first_visited_at_or_after(v.visited, done)
            if due is not None:
                if c not in v.done:
                    return "caller %s: detached inner call (done=%d) has not completed although t=%d was reached" % (c, done, due)
                if v.done[c][0] != due:
                    return "caller %s: detached inner call completed at t=%d, expected t=%d" % (c, v.done[c][0], due)
            elif c in v.done:
                return "caller %s: inner call completed at t=%d before its latency (done=%s)" % (c, v.done[c][0], done)
    return None


def mon_nopanic(case, lines, meta):
    """a call through the time limiter whose inner call does not panic never panics, whatever its timeout — in particular
    `Duration::MAX` ("no limit"): a call whose inner result is available must resolve with it"""
    v = View(case, lines, meta)
    for c, (tr, text, _) in v.result.items():
        if text != "panic" or c not in v.script:
            continue
        t_eff, la, out, _ = v.script[c]
        if out == "panic":
            continue
        k = v.call[c][1] if c in v.call else None
        exp = _inner_text(out, k if k is not None else "<k>")
        what = ("its inner call (latency %s, outcome %s) %s" % (la, out, "was never even made" if k is None else "is call %s" % k))
        want = ("it has no deadline at all: it must resolve with %s at t=%s" % (exp, _d(v.fp.get(c, tr) + la)) if t_eff >= INF and la is not None
                else "it must stay pending for ever" if t_eff >= INF
                else "it must resolve with %s or err:timeout" % exp if la is not None else "it must resolve with err:timeout")
        return "caller %s (timeout %s, %s mode) panicked when polled at t=%d; %s; %s" % (
            c, tmo_text(t_eff), "cancel" if v.cancel else "non-cancel", tr, what, want)
    return None


def mon_background(case, lines, meta):
    """'with cancellation disabled the inner call keeps running to completion in the background': in non-cancel mode no inner
    call is dropped, or orphaned (the last instance of the inner service dropped while the call is unfinished), before it
    completes — whatever the callers do with their handles of the service (kept, or let go after the call as `oneshot`
    does: `manual dropsvc`) and with the call future (timed out, dropped, kept).  In cancel mode an inner call lives until it
    completes or is dropped with its call future: it is never orphaned either."""
    v = View(case, lines, meta)
    for c in sorted(v.call, key=int):
        if c in v.orphan:
            to, k, pos = v.orphan[c]
            res = v.result.get(c)
            state = ("its caller had got %s at t=%d" % (res[1], res[0]) if res and res[2] < pos
                     else "its call future had been dropped at t=%d" % v.dropped[c][0] if c in v.dropped and v.dropped[c][1] < pos
                     else "its caller was still waiting")
            t_eff, done, deadline, out = v.times(c) if c in v.fp and c in v.script else (None, None, None, None)
            return ("caller %s: inner call %s (%s) was orphaned at t=%d — the last instance of the inner service "
                    "was dropped while the call was unfinished (%s mode; the callers let go of the service at t=%s; %s)%s" % (
                        c, k, "never completes by itself" if done is None else "would complete at t=%s" % _d(done), to,
                        "cancel" if v.cancel else "non-cancel", v.dropsvc, state,
                        "" if v.cancel else ": with cancellation disabled the inner call must keep running to completion in the background"))
        if not v.cancel and c in v.idrop:
            return "caller %s: inner call dropped at t=%d in non-cancel mode: it must keep running to completion in the background" % (
                c, v.idrop[c][0])
    return None


def _pending_at(v, c, pos):
    """is the call future of caller c pending (polled at least once, neither resolved nor dropped) at timeline position pos?"""
    if c not in v.fp_pos or v.fp_pos[c] > pos or c not in v.script:
        return False
    if c in v.result and v.result[c][2] < pos:
        return False
    if c in v.dropped and v.dropped[c][1] < pos:
        return False
    return True


def mon_wakeup(case, lines, meta):
    """'resolves no later than its timeout' needs the runtime to poll the call when min(done, deadline) is reached: a pending call
    future whose inner call has finished (cancel mode: its timer; non-cancel mode: the oneshot, also when the task panicked) or whose
    deadline has passed must have woken its caller — observed by `probe woken` (the waker fired since the future was last polled)"""
    v = View(case, lines, meta)
    for pos, c, t, fired in v.woken:
        if fired or not _pending_at(v, c, pos):
            continue
        t_eff, done, deadline, out = v.times(c)
        m = deadline if done is None else min(done, deadline)
        if m >= INF or t < m:
            continue
        last = [tp for (pp, cc, tp) in v.pollend_at if cc == c and pp < pos]
        if last and last[-1] >= m:
            continue         # polled at or after min(done, deadline) and still pending: c06-resolution-instant states that one
        return ("caller %s (first polled at t=%d, timeout %s, inner call %s; %s mode) is pending at t=%d, min(done, deadline)=%d has been "
                "reached, and its waker has not fired since it was last polled (t=%s): nothing tells the runtime to poll it again, so it "
                "does not resolve by its deadline" % (
                    c, v.fp[c], tmo_text(t_eff), "never completes" if done is None else "done at t=%d (%s)" % (done, out),
                    "cancel" if v.cancel else "non-cancel", t, m, last[-1] if last else "?"))
    return None


def mon_accessors(case, lines, meta):
    """what a caller is told is what the accessors of the error say: `is_timeout()` is true exactly for the timeout error, `into_inner()`
    gives exactly the inner call's error (none for the timeout error), the conversion into `ResilienceError` gives Timeout / Application"""
    v = View(case, lines, meta)
    for c, t, text in v.marked:
        for part in text.split("!")[1:]:
            if part.startswith("accessors:"):
                base = text.split("!")[0]
                want = ("is_timeout=true,into_inner=none,as_resilience=timeout(time_limiter)" if base == "err:timeout"
                        else "is_timeout=false,into_inner=%s,as_resilience=application:%s" % (base[4:], base[4:]))
                return ("caller %s was answered %s at t=%d, but the accessors of that error say %s (they must say %s): a caller that asks "
                        "`is_timeout()` / `into_inner()` is told something else than what happened" % (c, base, t, part[len("accessors:"):], want))
    return None


def mon_listeners(case, lines, meta):
    """(not a clause of C06: a pinned detail) every registered on_success / on_error / on_timeout listener fires exactly once per result of
    its kind"""
    v = View(case, lines, meta)
    for c, t, text in v.marked:
        for part in text.split("!")[1:]:
            if part.startswith("listeners:"):
                return "PINNED: when caller %s was answered %s at t=%d the counting listeners were out of step with the results: %s" % (
                    c, text.split("!")[0], t, part[len("listeners:"):])
    return None


def mon_source(case, lines, meta):
    """the timeout a call gets is the configured source's answer — and the same source constructed stand-alone (`FixedTimeout::new`,
    `DynamicTimeout::new`) and copied through `Clone` / `clone_box` gives the same answer: the fixed value, or the request's own timeout
    (the default without one)"""
    v = View(case, lines, meta)
    want = []
    knob = None
    for o in case["ops"]:
        w = o.split()
        if w[:2] == ["manual", "knob"]:
            knob = tmo_parse(kvs(o).get("v", "-"))
        if w[:2] == ["probe", "source"]:
            kv = kvs(o)
            own = tmo_parse(kv["timeout"]) if "timeout" in kv else knob
            want.append((o, own if (v.dyn and own is not None) else v.T))
    got = [p for p in v.probes if p[1][:1] == ["source"]]
    for i, (o, t) in enumerate(want):
        if i >= len(got):
            return "`%s` was not answered" % o
        ans = got[i][1][1] if len(got[i][1]) > 1 else "?"
        if ans != tmo_text(t):
            return ("`%s`: the %s timeout source of this configuration (%s), constructed stand-alone and copied along the path, answers %s "
                    "for that request; the layer's own source answers %s" % (o, "per-request" if v.dyn else "fixed",
                                                                            ("default %s" if v.dyn else "%s") % tmo_text(v.T), ans, tmo_text(t)))
    return None


def _rd_cfg(case):
    cfg = kvs(case["header"])
    rec = cfg.get("rec", "0")
    return cfg.get("ready", ""), int(rec) if rec.isdigit() else 0, cfg.get("recall", "0") == "1"


def mon_readiness(case, lines, meta):
    """`poll_ready` of the time limiter is the wrapped service's: while that is not ready (recovering from a call, or by its script)
    or has failed, the caller is told so and NO call is made — back-pressure is settled before `call()`, so that the timeout of
    a call covers everything that happens after it was made; and a ready wrapped service is never refused.  The wrapped service's
    behaviour is restated here from world.rs (busy until `rec` after the latest inner call = first poll; then the script)."""
    v = View(case, lines, meta)
    script, rec, recall = _rd_cfg(case)
    script = list(script)
    now = 0
    busy = None          # (until, caller whose call started it, instant of that call)
    live = {}            # caller with a call future -> first-polled?
    seen = set()
    gone = False
    for o in case["ops"]:
        w = o.split()
        if not w:
            continue

        def first_poll(c):
            nonlocal busy
            if not live[c]:
                live[c] = True
                if rec and recall:
                    busy = (now + rec, c, now)

        if w[0] == "adv" and len(w) > 1 and w[1].isdigit():
            now += int(w[1])
        elif w[:2] == ["manual", "dropsvc"]:
            gone = True
        elif w[0] == "arrive" and len(w) > 1 and w[1].isdigit() and w[1] not in seen:
            c = w[1]
            seen.add(c)
            if gone:
                continue
            if busy and now < busy[0]:
                exp, why = "notready", "recovering until t=%d from the call of caller %s made at t=%d" % busy
            else:
                a = script.pop(0) if script else "r"
                exp = {"p": "notready", "e": "err:inner9:0"}.get(a)
                why = "its poll_ready answers %s here" % {"p": "Pending", "e": "an error"}.get(a, "Ready")
            got = v.refused.get(c)
            if exp is None:
                if got:
                    return "caller %s arrived at t=%d, the wrapped service was ready (%s), but the caller was told %s and no call was made" % (
                        c, now, why, got[1])
                live[c] = False
            elif not got:
                res = v.result.get(c)
                fate = ("first polled at t=%s, %s" % (v.fp[c], "resolved with %s at t=%d" % (res[1], res[0]) if res else "never resolved")
                        if c in v.fp else "never polled")
                t_eff = v.script[c][0] if c in v.script else None
                return ("caller %s arrived at t=%d while the wrapped service was not ready (%s): poll_ready of the time limiter must hand that on "
                        "(%s) and no call may be made — readiness is settled before call(), the timeout (%s) of a call covers everything after it — "
                        "but the caller was given a call future (%s)" % (c, now, why, exp, "?" if t_eff is None else tmo_text(t_eff), fate))
            elif got[1] != exp or got[0] != now:
                return "caller %s arrived at t=%d while the wrapped service was not ready (%s): expected %s at t=%d, got %s at t=%d" % (
                    c, now, why, exp, now, got[1], got[0])
        elif w[0] == "poll" and len(w) > 1 and w[1] in live:
            first_poll(w[1])
        elif w[0] == "drop" and len(w) > 1 and w[1] in live:
            if not live[w[1]]:
                del live[w[1]]
        elif w[0] == "dropall":
            for c in [c for c in live if not live[c]]:
                del live[c]
        elif w[0] == "settle":
            for c in sorted(live, key=int):
                first_poll(c)
    for c in v.refused:
        if c in v.call:
            return "caller %s was refused (%s) but the inner service was called for it" % (c, v.refused[c][1])
    return None


def canon(lines):
    """the scripted inner service with readiness options logs `inner_call c k tag=<c> ready=1`: the same event as `inner_call c k`
    (`ready=0` — an instance called without having been polled ready — is left as it is and disagrees with the model)"""
    out = []
    for l in lines:
        w = l.split()
        if len(w) == 6 and w[1] == "inner_call" and w[4].startswith("tag=") and w[5] == "ready=1":
            l = " ".join(w[:4])
        out.append(l)
    return out


# ----------------------------------------------------------------------------- coverage

def _knob_tags(case, dyn, T):
    """what the op sequence does with the knob (op level: a `settle` first-polls every call not polled yet, in id order)"""
    tags = []
    knob = None
    seen, order, at_arrive, waiting = set(), [], {}, []
    gone = False

    def first_poll(c):
        if c not in waiting:
            return
        waiting.remove(c)
        if any(order.index(x) < order.index(c) for x in waiting):
            tags.append("first-polls-out-of-order")
            if dyn and any(at_arrive[x] != at_arrive[c] for x in waiting if order.index(x) < order.index(c)):
                tags.append("first-polls-out-of-order-timeouts-differ")
        own, k = at_arrive[c]
        if dyn and own is None and k != knob:
            tags.append("knob-turned-before-first-poll")

    for o in case["ops"]:
        w = o.split()
        if w[:2] == ["manual", "dropsvc"]:
            gone = True
        elif w[:2] == ["manual", "knob"]:
            knob = tmo_parse(kvs(o).get("v", "-"))
            tags.append("knob-turned" if dyn else "knob-fixed-source-control")
            if knob is None:
                tags.append("knob-unset")
        elif w[:1] == ["arrive"] and len(w) > 1 and w[1] not in seen:
            seen.add(w[1])
            if gone:
                continue
            kv = kvs(o)
            own = tmo_parse(kv["timeout"], T) if "timeout" in kv else None
            at_arrive[w[1]] = (own, knob)
            order.append(w[1])
            waiting.append(w[1])
            if dyn and own is None and knob is not None:
                tags.append("knob-read-by-call")
        elif w[:1] == ["poll"] and len(w) > 1:
            first_poll(w[1])
        elif w[:1] == ["drop"] and len(w) > 1 and w[1] in waiting:
            waiting.remove(w[1])
        elif w[:1] == ["settle"]:
            for c in sorted(waiting, key=int):
                first_poll(c)
        elif w[:1] == ["dropall"]:
            del waiting[:]
    return tags


def transitions(case, lines, meta=None):
    T, cancel, dyn = _cfg(case)
    script = _script(case)
    tags = ["mode-cancel" if cancel else "mode-nocancel", "source-per-request" if dyn else "source-fixed"]
    tags += _knob_tags(case, dyn, T)
    chain = kvs(case["header"]).get("chain")
    if chain is not None:
        _, _, _, ls, lf = parse_chain(chain)
        if ls is not None and lf is not None:
            tags.append("chain-flag-before-source" if lf < ls else "chain-source-before-flag")
            if lf < ls and not cancel:
                tags.append("chain-c0-before-timeout_fn" if dyn else "chain-c0-before-timeout_duration")
        if ls is None:
            tags.append("chain-default-source")
        if lf is None:
            tags.append("chain-default-mode")
        n = len([x for x in chain.split(",") if x[:1] in "dfc" and x[1:].isdigit()])
        if n > (ls is not None) + (lf is not None):
            tags.append("chain-overridden-setter")
    rd_script, rec, recall = _rd_cfg(case)
    if rd_script:
        tags.append("readiness-script")
    if rec:
        tags.append("readiness-recovery" if recall else "readiness-recovery-per-instance")
    refusals = 0
    after_refusal = set()
    call = {}
    result = {}
    dropped_by_caller = set()
    for o in case["ops"]:
        w = o.split()
        if w and w[0] == "drop" and len(w) > 1:
            dropped_by_caller.add(w[1])
    has_dropall = any(o.split()[:1] == ["dropall"] for o in case["ops"])
    prev = None
    dropsvc_at = None
    for i, m in (meta or []):
        if m.startswith("#dropsvc") and i >= 0:
            dropsvc_at = i
            tags.append("dropsvc")
    unfinished = set()
    ops_ = [o.split() for o in case["ops"]]
    if dropsvc_at is not None and ["manual", "dropsvc"] in ops_ and any(w[:1] == ["arrive"] for w in ops_[ops_.index(["manual", "dropsvc"]):]):
        tags.append("arrive-after-dropsvc")
    for li, l in enumerate(lines):
        t, w = tparse(l)
        if not w:
            continue
        c = w[1] if len(w) > 1 else None
        if dropsvc_at is not None and li == dropsvc_at and unfinished:
            tags.append("dropsvc-calls-in-flight")
        if w[0] == "inner_call":
            unfinished.add(c)
        elif w[0] in ("inner_done", "inner_drop"):
            unfinished.discard(c)
            if w[0] == "inner_done" and dropsvc_at is not None and li >= dropsvc_at and not cancel and c in result:
                # the clause of C06-w3m2: no handle of the service left, the caller already answered (timeout), the detached call completes
                tags.append("detached-done-after-timeout-no-handle-left")
        elif w[0] == "result" and dropsvc_at is not None and li >= dropsvc_at and len(w) > 2 and w[2] == "err:timeout":
            tags.append("timeout-after-dropsvc")
        if w[0] == "result" and c not in call and len(w) > 2 and (w[2] == "notready" or w[2].startswith("err:inner9:")):
            refusals += 1
            tags.append("refused-notready" if w[2] == "notready" else "refused-readyerr")
            if w[2] == "notready" and bool(rd_script) != bool(rec and recall):
                tags.append("refused-by-script" if rd_script else "refused-while-recovering")
            if refusals >= 4 and not call:
                tags.append("never-ready")
            prev = w
            continue
        if w[0] == "inner_call" and c in script and refusals:
            tags.append("accepted-after-refusal")
            after_refusal.add(c)
        if w[0] == "inner_call" and c in script:
            call[c] = t
            t_eff, la, out, ta = script[c]
            if t > ta:
                tags.append("first-poll-after-creation")
                if la is not None and 0 < la < t_eff and t - ta > t_eff - la:
                    # finishes in time counted from the first poll; a deadline counted from call() would already be over
                    tags.append("first-poll-later-than-slack")
            if la is None:
                tags.append("lat-never")
            elif la + 1 == t_eff:
                tags.append("lat=timeout-1")
            elif la == t_eff:
                tags.append("lat=timeout")
            elif la == t_eff + 1:
                tags.append("lat=timeout+1")
            if t_eff == 0:
                tags.append("timeout-zero")
            if t_eff >= INF:
                tags.append("timeout-max")
                if la is not None:
                    tags.append("timeout-max-" + ("cancel" if cancel else "nocancel") + ("-own" if dyn and T < INF else "-default"))
            elif t_eff >= FAR:
                tags.append("timeout-huge")
            if dyn and t_eff != T:
                tags.append("own-timeout-differs-from-default")
        elif w[0] == "inner_drop":
            tags.append("inner-dropped-by-caller" if c in dropped_by_caller or (has_dropall and c not in result) else "inner-dropped")
        elif w[0] == "inner_done" and not cancel:
            if c in result:
                tags.append("detached-done-after-timeout")
            elif c in dropped_by_caller or has_dropall:
                tags.append("detached-done-maybe-after-drop")
        elif w[0] == "result" and c in script and c in call:
            result[c] = t
            t_eff, la, out, ta = script[c]
            done = None if la is None else call[c] + la
            deadline = call[c] + t_eff
            kind = "timeout" if w[2] == "err:timeout" else ("panic" if w[2] == "panic" else w[2].split(":")[0])
            tags.append("result-" + kind)
            if kind == "timeout" and c in after_refusal:
                tags.append("timeout-after-refusal")
            if t == call[c]:
                tags.append("resolved-at-first-poll")
            hi = done is not None and done <= t
            hd = deadline <= t
            if hi and hd:
                if done == deadline:
                    tags.append("tie-" + ("timeout" if kind == "timeout" else "inner"))
                elif done < deadline:
                    tags.append("late-poll-intime-" + ("timeout" if kind == "timeout" else "inner"))
                else:
                    tags.append("late-poll-overdue-" + ("timeout" if kind == "timeout" else "inner"))
            elif hi:
                tags.append("inner-first" + ("-prompt" if t == done else "-later"))
            elif hd:
                tags.append("deadline-first" + ("-prompt" if t == deadline else "-later"))
            if kind == "timeout" and cancel and prev and prev[0] == "inner_drop":
                tags.append("cancel-drop-at-timeout")
        prev = w
    if dropsvc_at is not None and dropsvc_at >= len(lines) and unfinished:
        tags.append("dropsvc-calls-in-flight")
    tags += _entry_tags(case, lines, meta or [], cancel, script)
    return tags


def _entry_tags(case, lines, meta, cancel, script):
    """coverage of the entry-point dimensions: construction paths, services, handles, probes"""
    tags = []
    hk = kvs(case["header"])
    if hk.get("via") in ("new", "default"):
        tags.append("via-" + hk["via"])
    items = hk.get("chain", "").split(",")
    if any(x[:1] == "n" for x in items):
        tags.append("chain-name")
    if any(x in ("ls", "le", "lt") for x in items):
        tags.append("chain-listeners")
    # instants from the log: when every caller was answered / refused, when its inner call ended
    res_t, end_t, called = {}, {}, {}
    for l in lines:
        t, w = tparse(l)
        if not w:
            continue
        if w[0] == "result" and len(w) > 2:
            res_t.setdefault(w[1], (t, w[2]))
        elif w[0] in ("inner_done", "inner_drop"):
            end_t.setdefault(w[1], t)
        elif w[0] == "inner_call":
            called.setdefault(w[1], t)
        elif w[0] == "probe" and w[1:2] == ["source"]:
            tags.append("probe-source")
    v = None
    for _, m in meta:
        if m.startswith("#woken"):
            v = v or View(case, lines, meta)
    if v is not None:
        for pos, c, t, fired in v.woken:
            if not _pending_at(v, c, pos):
                tags.append("woken-probe-nothing-pending")
                continue
            t_eff, done, deadline, out = v.times(c)
            m = deadline if done is None else min(done, deadline)
            if t >= m:
                tags.append("woken-at-deadline" if (done is None or deadline < done) else "woken-at-done")
                if out == "panic" and not cancel and done is not None and done < deadline:
                    tags.append("woken-by-panicked-task")
                if t > m:
                    tags.append("woken-and-not-polled-since")
            elif fired:
                tags.append("woken-spuriously")
            else:
                tags.append("not-woken-before-min")
            if m >= INF:
                tags.append("woken-probe-nothing-armed")
    # construction context: services built while a second runtime was current (`#built <t> svc=<k> <where>`), and calls made
    # through them on the case's runtime
    built_where = {}
    for _, m in meta:
        w = m.split()
        if w[:1] == ["#built"] and len(w) > 3:
            tags.append("built-" + w[3])
            built_where[w[2][4:]] = w[3]
    if built_where and hk.get("built", "here") != "here" and any(kvs(o).get("built") == "here" for o in case["ops"] if o.startswith("arrive ")):
        tags.append("built-mixed")
    forget_lines = [m.split() for _, m in meta if m.startswith("#forget")]
    for w in forget_lines:
        tags.append("forget-layer" if w[2:] == ["layer"] else "forget-handle" if len(w) > 3 else "forget-service")
    now = 0
    seen = set()
    gone = False
    svcs = set()
    made = {}            # (svc, h) -> callers that were given a call future on that handle, with the instant
    calls_of_svc = {}    # svc -> [(caller, instant)]
    layer_forgotten = False
    hb = hk.get("built") if hk.get("built") in BUILT else "here"
    ctx = {}             # svc -> the construction context of its present incarnation
    zero_initial = True  # service 0 is the one the adapter built at the start (header context)
    for o in case["ops"]:
        w = o.split()
        if not w:
            continue
        if w[0] == "adv" and len(w) > 1 and w[1].isdigit():
            now += int(w[1])
        elif w[:2] == ["manual", "dropsvc"]:
            gone = True
        elif w[:2] == ["manual", "forget"] and not gone:
            kv = kvs(o)
            if "layer" in kv:
                layer_forgotten = True
            elif "svc" in kv and "h" not in kv:
                k = kv["svc"]
                if any(c in called and not cancel and (c not in end_t or end_t[c] > now) for c, _ in calls_of_svc.get(k, [])):
                    # every handle of a service goes away while a detached call made through it is still running (seeded/C06-w5m2 for one service)
                    tags.append("forget-service-detached-running")
                svcs.discard(k)
                if k == "0":
                    zero_initial = False
                for key in [x for x in made if x[0] == k]:
                    del made[key]
            elif "svc" in kv:
                made.pop((kv["svc"], kv["h"]), None)
        elif w[:2] == ["probe", "source"]:
            if "b" in kvs(o).get("path", ""):
                tags.append("probe-source-boxed")
        elif w[0] == "arrive" and len(w) > 1 and w[1] not in seen:
            c = w[1]
            seen.add(c)
            if gone:
                continue
            kv = kvs(o)
            k = kv.get("svc", "0")
            if k not in svcs:
                svcs.add(k)
                ctx[k] = hb if (k == "0" and zero_initial) or kv.get("built") not in BUILT else kv["built"]
                if k != "0":
                    tags.append("svc-several")
                    if kv.get("lc") == "1":
                        tags.append("svc-from-layer-clone")
                    if layer_forgotten:
                        tags.append("svc-after-forget-layer")
            refused = c in res_t and c not in called and (res_t[c][1] == "notready" or res_t[c][1].startswith("err:inner9:"))
            if c in script and not refused:
                calls_of_svc.setdefault(k, []).append((c, now))
            if c in called and ctx.get(k, "here") != "here":
                # a call made on the case's runtime through a service assembled while another runtime was current (seeded/C06-w6m1)
                tags.append("call-built-%s-%s" % (ctx[k], "cancel" if cancel else "nocancel"))
                if not cancel and c in res_t:
                    if res_t[c][1].split("!")[0] != "err:timeout":
                        tags.append("built-elsewhere-detached-intime-result")
                    elif c in end_t and end_t[c] > res_t[c][0]:
                        tags.append("built-elsewhere-detached-completes-after-timeout")
            if "h" in kv:
                key = (k, kv["h"])
                if key not in made:
                    tags.append("handle-kept")
                    if calls_of_svc.get(k) and any(x != c for x, _ in calls_of_svc[k]):
                        tags.append("handle-clone-after-call")
                    made[key] = []
                elif made[key]:
                    tags.append("handle-reused")
                    if any(x not in res_t or res_t[x][0] > now for x, _ in made[key]):
                        tags.append("handle-reused-call-in-flight")
                if refused:
                    if res_t[c][1] != "notready" and any(x not in res_t or res_t[x][0] > now for x, _ in made[key]):
                        tags.append("readyerr-on-handle-calls-in-flight")
                elif c in script:
                    made[key].append((c, now))
            if c in script and script[c][0] == 0 and not cancel and c in called:
                tags.append("timeout-zero-nocancel")
                if script[c][1] == 0 and c in res_t and res_t[c][1].split("!")[0] == "err:timeout":
                    tags.append("timeout-zero-nocancel-lat0")      # done = deadline = first poll: the one tie that goes to the timeout
            if (c in script and script[c][2] == "panic" and not cancel and c in called and c in res_t
                    and res_t[c][1].split("!")[0] == "err:timeout" and res_t[c][0] < called[c] + script[c][0]):
                tags.append("nocancel-panic-timeout-before-deadline")
    return tags


ALL = ["woken-probe-nothing-pending", "woken-at-deadline", "woken-at-done", "woken-by-panicked-task", "woken-and-not-polled-since",
       "not-woken-before-min", "woken-probe-nothing-armed", "timeout-zero-nocancel-lat0", "nocancel-panic-timeout-before-deadline",
       "via-new", "via-default", "chain-name", "chain-listeners", "probe-source", "probe-source-boxed", "svc-several", "svc-from-layer-clone",
       "svc-after-forget-layer", "handle-kept", "handle-clone-after-call", "handle-reused", "handle-reused-call-in-flight",
       "readyerr-on-handle-calls-in-flight", "forget-handle", "forget-service", "forget-layer", "forget-service-detached-running",
       "timeout-zero-nocancel",
       "built-other-idle", "built-other-dropped", "built-mixed", "call-built-other-idle-cancel", "call-built-other-idle-nocancel",
       "call-built-other-dropped-cancel", "call-built-other-dropped-nocancel", "built-elsewhere-detached-intime-result",
       "built-elsewhere-detached-completes-after-timeout",
       "readiness-script", "readiness-recovery", "readiness-recovery-per-instance", "refused-notready", "refused-readyerr",
       "refused-by-script", "refused-while-recovering", "never-ready", "accepted-after-refusal", "timeout-after-refusal",
       "timeout-max", "timeout-max-cancel-own", "timeout-max-cancel-default", "timeout-max-nocancel-own", "timeout-max-nocancel-default",
       "dropsvc", "dropsvc-calls-in-flight", "arrive-after-dropsvc", "timeout-after-dropsvc", "detached-done-after-timeout-no-handle-left",
       "mode-cancel", "mode-nocancel", "source-per-request", "source-fixed", "first-poll-after-creation",
       "first-poll-later-than-slack", "chain-flag-before-source", "chain-source-before-flag", "chain-c0-before-timeout_fn",
       "chain-c0-before-timeout_duration", "chain-default-source", "chain-default-mode", "chain-overridden-setter",
       "lat-never", "lat=timeout-1", "lat=timeout", "lat=timeout+1", "timeout-zero", "timeout-huge",
       "own-timeout-differs-from-default",
       "knob-turned", "knob-unset", "knob-read-by-call", "knob-turned-before-first-poll", "knob-fixed-source-control",
       "first-polls-out-of-order", "first-polls-out-of-order-timeouts-differ",
       "inner-dropped-by-caller", "cancel-drop-at-timeout", "detached-done-after-timeout",
       "detached-done-maybe-after-drop", "result-ok", "result-err", "result-timeout", "result-panic",
       "resolved-at-first-poll", "tie-timeout", "tie-inner", "late-poll-intime-inner",
       "late-poll-overdue-inner", "inner-first-prompt", "inner-first-later",
       "deadline-first-prompt", "deadline-first-later"]


def nontrivial(case, lines, tags):
    return any(t.startswith(("result-timeout", "tie-", "late-", "inner-dropped", "detached-", "deadline-first", "refused-")) for t in tags)


LEVEL_NOTE = ("Trusted: Lean kernel; the transcription of tokio::time::timeout (inner future polled before the deadline), of "
              "spawn + oneshot + biased select! (oneshot first, then sleep(timeout)) and of the timer wheel's firing order in "
              "TR.Model.TimeLimiter, validated only by the sampled "
              "correspondence check; the harness (virtual clock, manual poller, scripted inner service) and the python diff/monitors. "
              "'At the instant' is decided by tokio's timer and wakers: the model carries the wake-up of a pending call (Caller.wakeup: the "
              "earliest armed one of {inner completion, deadline}) and the theorems resolves_no_later_than_timeout / pending_call_never_overdue "
              "prove, over the timestamped log, that a caller that is polled whenever it is woken — the hypothesis PolledWhenWoken on the "
              "operation list: the clock never moves past the armed wake-up of a pending call — gets its result at min(done, deadline) <= first "
              "poll + timeout; that the real waker fires once that instant is reached is an obligation the model checks on every `probe woken` "
              "(observed choice @woken: a waker may fire spuriously, it must not stay silent) and the monitors c06-wake-up / "
              "c06-resolution-instant state over the implementation log (#woken / #wake lines) on the sampled schedules; that the runtime then "
              "polls the task is tokio's contract, trusted. Panicking inner calls are outside "
              "the property's quantifier (modelled, theorem panicking_inner_call: cancel mode propagates the panic, non-cancel mode reports "
              "err:timeout at the instant the task died, possibly before the deadline — notes/proofs-timelimiter.md). "
              "Handles of the service are not part of the model (the fate of an inner call is a function of its own caller's operations "
              "and the clock): that the layer keeps the inner service instance alive for as long as the call made on it runs is observed "
              "by the monitor c06-background-completion against a scripted inner service that notices when its last instance goes away "
              "(inner_orphaned), with the callers' own handle dropped at any point (manual dropsvc = what oneshot does). "
              "Readiness: the theorems quantify over every readiness behaviour of the wrapped service as modelled by TR.TimeLimiter.Rd (a script "
              "of Ready/Pending/Err answers, a service-wide recovery time after every call — the harness's scripted inner service, transcribed "
              "from world.rs) and, through refusals_change_no_call, over ANY interleaving of refused arrivals; that the real poll_ready hands the "
              "wrapped service's answer on and never makes a call on a service that is not ready is observed by the correspondence check and "
              "the monitor c06-readiness-propagated (its own restatement of the scripted service) on the sampled schedules. "
              "Entry points: that the real constructors, Clone / clone_box impls, .name / listener setters, the error accessors and the services and "
              "handles built from one layer value behave as the model says (i.e. do not matter) is observed by the correspondence check and the "
              "monitors c06-timeout-source / c06-error-accessors (c06-listeners pins the listener count: a broken correspondence, not a failing "
              "input); TimeLimiterConfig has no public constructor, so `From<TimeLimiterConfig>` for the layer and `Clone` of the config cannot be "
              "entered from outside the crate. "
              "Construction context: that the real service does the same whichever runtime was current while it was built (a second runtime "
              "left idle or dropped; calls made on the case's runtime) is observed by the correspondence check and stated directly by "
              "c06-resolution-instant / c06-intime-result-lost / c06-background-completion on those cases; services built on a runtime "
              "of ANOTHER OS thread that is being driven concurrently are not generated (single-threaded harness).")

SPECS = {
    "C06": {
        "group": "timelimiter",
        "module": "TR.Props.C06",
        "gen": gen,
        "monitors": [("c06-error-accessors", mon_accessors), ("c06-timeout-source", mon_source), ("c06-listeners", mon_listeners),
                     ("c06-no-panic", mon_nopanic), ("c06-resolution-instant", mon_instant), ("c06-wake-up", mon_wakeup), ("c06-result-kind", mon_kind),
                     ("c06-readiness-propagated", mon_readiness), ("c06-inner-fate", mon_fate), ("c06-background-completion", mon_background),
                     ("c06-intime-result-lost", mon_intime_result)],
        "transitions": transitions,
        "canon": canon,
        "nontrivial": nontrivial,
        "all_transitions": ALL,
        "model_modules": ["TR.Model.TimeLimiter", "TR.Lemmas.TimeLimiter", "TR.Lemmas.TimeLimiterWake", "TR.Lemmas.TimeLimiterTrace", "TR.Lemmas.TimeLimiterOrder", "TR.Lemmas.TimeLimiterKnob"],
        "lean_files": ["TR.Model.TimeLimiter", "TR.Lemmas.TimeLimiter", "TR.Lemmas.TimeLimiterWake", "TR.Lemmas.TimeLimiterTrace", "TR.Lemmas.TimeLimiterOrder", "TR.Lemmas.TimeLimiterKnob"],
        "sizes": (800, 40000),
        "rule": "seeded random op sequences (arrive/poll/drop/adv/settle/dropall, and in 30% of the cases one `manual dropsvc`: the callers let "
                "go of the service, right after the calls are made or at a random point) over 1..6 callers (plus up to 6 retries of refused "
                "arrivals under fresh ids), in 50% of the cases over a wrapped service with back-pressure (not ready for 1..40 ms / timeout-1..+1 "
                "after every call, never ready again after the first call, never ready at all, a readiness script of Ready/Pending/Err answers, "
                "both combined, or a per-instance recovery as a control), both cancellation modes, fixed and "
                "per-request timeouts 0..40 ms, (5-6%) huge ones up to u64::MAX ms and (5-6%) `max` = Duration::MAX (not representable as a "
                "deadline), the layer configured either by timeout/cancel/dyn or (55%) "
                "by an explicit builder chain of 0..5 setters (timeout_duration / timeout_fn / cancel_running_future in any order, repeated, "
                "both orders of flag and source, empty chain = defaults), laid over each case (none of it changes what a call does): the builder obtained "
                "through builder() / TimeLimiterConfigBuilder::new() / ::default() (30%), .name and on_success/on_error/on_timeout setters anywhere in "
                "the chain (45% of the chains), in 45% of the cases 1..3 services built lazily from the one layer value (or a clone of it), calls made "
                "on kept handles that are re-used while earlier calls are in flight and cloned after calls, handles / whole services / the layer "
                "value dropped at any point, (25%) probes of the stand-alone timeout source cloned / boxed along a random path, and (45%) 1..6 `probe woken` "
                "observations of a caller's waker, mostly soon after its first poll / after the clock moved, and the construction context (drawn from "
                "a generator of its own seeded by the finished case): in 35% of the cases everything the adapter constructs (builder chain, build(), "
                "Layer::layer) is constructed while a SECOND current-thread tokio runtime is current, which is then kept idle or dropped, the calls "
                "being made on the case's own runtime, and in 50% the services built lazily by svc= arrivals each get a context of their own "
                "(here / other-idle / other-dropped); latencies at timeout-1/timeout/timeout+1/0/random/never, ok/err (few panics), creation "
                "separated from the first poll, in 40% of the per-request cases (8% of the fixed ones, control) a KNOB the timeout function reads for "
                "requests without a timeout of their own (`manual knob v=<t|max|->`, drawn from a generator of its own seeded by the finished case; "
                "60% of the arrivals lose their own timeout= there): turned before arrivals, between a call and its late first poll, at random, values "
                "near the latencies, and the first polls of the not-yet-polled calls made in reverse / shuffled order of the calls, advances biased to done/deadline -1/0/+1 and to jumps over both (late polls); distinct = "
                "distinct implementation event log; non-trivial = a timeout, a tie, a late poll, a dropped or detached inner call",
        "level_text": "Theorems TR.Props.C06.{builder_mode_last_wins, builder_source_last_wins, nocancel_chain_never_drops, timeout_source, deadline_fixed_at_call, knob_line_is_no_operation, deadline_from_first_poll, awake_characterisation, resolves_from_wake, resolves_by_deadline, "
                      "pending_before_wake, settled_none_overdue, never_resolves_early, inner_wins_whenever_observed, "
                      "result_if_earlier, intime_result_never_lost, unlimited_resolves_with_inner_result, timeout_if_later, cancel_drops_at_deadline, "
                      "nocancel_runs_to_completion, nocancel_timeout_leaves_task, readiness_propagates, refusals_change_no_call, arrival_meets_readiness, "
                      "resolves_by_deadline_whatever_readiness, independent, builder_entry_points, source_copies_agree, error_accessors, "
                      "services_independent, zero_timeout_nocancel_detaches, construction_context_irrelevant, trace_is_the_log, result_lines_are_history, one_result_per_caller, "
                      "woken_iff_poll_resolves, resolves_no_later_than_timeout, resolves_no_later_than_timeout_whatever_readiness, "
                      "pending_call_never_overdue, log_never_resolves_early, log_inner_result_is_the_inner_outcome, log_timeout_only_if_unfinished, "
                      "log_cancel_drops_at_deadline, log_nocancel_runs_to_completion, first_poll_nocancel_spawns_only, first_poll_cancel, "
                      "panicking_inner_call}: for every configuration (any fixed or "
                      "per-request timeout — also a timeout function that reads a knob turned at run time: the timeout of a call is what the source answers when call() is made and no later operation, turn of the knob or order of first polls changes it —, both modes), every operation sequence and every inner script, a caller polled at or after "
                      "min(done, deadline) resolves, with the inner result whenever the inner call has finished (in both modes, also "
                      "when polled late) and with the timeout error when only the deadline has passed; a call that finished before its "
                      "deadline is never reported as timed out; a call whose timeout is Duration::MAX has no deadline: it is never due, stays "
                      "pending while its inner call is unfinished however far the clock advances, and resolves with the inner result; "
                      "in cancel mode the inner future is dropped in the step that reports the timeout; in "
                      "non-cancel mode it is never dropped and completes at its latency whatever happens to the caller; each caller's "
                      "record and history equal those of a single-caller run; the configuration a builder chain produces has, for the mode "
                      "and for the timeout source, the value set last, wherever the other setters stand; a caller that finds the wrapped service "
                      "Pending or failed is told so and no call is made (no record, no inner call), refused arrivals change no caller's record, and for "
                      "every readiness behaviour of the wrapped service a call's deadline counts from its own first poll and a poll at or after it "
                      "resolves the call (readiness is settled before call()); the three ways to a builder and any .name / listener setters give the "
                      "configuration of the bare chain; the configured timeout source constructed stand-alone and copied through Clone / clone_box "
                      "answers what every call captures; is_timeout() / into_inner() / ResilienceError::from say what the delivered variant says "
                      "(is_timeout only at or after the deadline); for any division of the callers into services / handles each group's records are "
                      "those of the run of that group alone; a zero timeout without cancellation reports the timeout and then starts the detached "
                      "inner call, which is never dropped; the model has no construction context — which runtime was current while the service was "
                      "assembled (built=here|other-idle|other-dropped) is no input of any of these statements, and a built= word in the header or "
                      "on an arrive line changes neither the machine's initial state nor its step. Over the observable log (trace = State.log with the instant of every line, what the "
                      "driver prints): the result lines of a caller are exactly the results of its ghost history (both directions, with instant and "
                      "serial), at most one per caller, and more: the lines of a caller in the log, in order, ARE its history; the inner_done lines of one "
                      "advance stand in timer order (instant, then serial); a result line never stands before min(done, deadline), a non-timeout result is the inner "
                      "outcome at or after done, an err:timeout line means the deadline had been reached and the inner call had NOT finished at that "
                      "instant (but for the zero-timeout first poll without cancellation), in cancel mode with an inner_drop line at the same "
                      "instant, in non-cancel mode never an inner_drop line and an inner_done line once the latency is over; and for a caller that "
                      "is polled whenever it is woken (PolledWhenWoken: the clock never passes the wake-up = earliest armed of {inner completion, "
                      "deadline} of its pending call) every result line stands at min(done, deadline) <= first poll + timeout, and a pending call is "
                      "never overdue. The model is tied to the real TimeLimiterLayer by "
                      "line-for-line agreement of event logs on generated schedules.",
        "level_note": LEVEL_NOTE,
        "trusted": ["tokio time::timeout / spawn / oneshot / select! / timer-wheel order as transcribed in TR.Model.TimeLimiter (sampled by the correspondence check)",
                    "harness: clock_gettime interposition, manual poller, scripted inner service", "python diff/monitors"],
        "assumptions": ["one poll of one call future is atomic (single-threaded runtime)",
                        "spawned tasks run to quiescence between two operations of the caller (current-thread runtime, harness yields)",
                        "durations are whole milliseconds; u64/Duration modelled as unbounded Nat",
                        "a timeout of Duration::MAX is modelled as 'never due' (tokio: deadline clamped to 30 years from now; the generated clocks stay far below)"],
    },
}
