"""C11 — coalesce: generator, implementation-side monitors

`arrive c key=K … callpanic=1` scripts an inner service whose call() itself panics (a leader panic at call() time;
a waiter never reaches call(), so the flag is inert for it). The caller gets `result c panic`, nothing may stay
registered. On the pinned tree this wedged the key for ever (notes/agent-coalesce.md); repaired since.

`manual dropsvc`: the adapter drops its `CoalesceService` handle and the layer — every handle sharing the in-flight
table is gone (what `svc.clone().oneshot(req)` bursts do when the last request consumes the original handle) while
call futures may still be in flight. Nothing in flight may notice (the leader's future owns the table); no request
can be made afterwards: a later `arrive` is answered `noop` on both sides, and so is a poll/drop of such a caller.
Generated in every phase: before anybody arrives, before any arrival completes, with a leader and waiters in flight,
after completion, at the very end (theorems TR.Props.C11.handle_drop_*; seeded/C11-w2m2).

`manual ondrop c=<c> by=<c2> inner=L:O [thread=1]`: arms a one-shot hook on the inner future of caller c: when it is
destroyed unfinished (leader c dropped), request c2 for the same key arrives from inside that destructor (thread=1:
on a second OS thread while the destructor blocks) — the only point where code can run between "key unregistered"
and "inner future destroyed" in `Drop for CoalesceFuture`. The following `arrive c2 …` line only hands the parked
future to the poller. The call of c is still in flight then, so c2 must coalesce onto it (model: the arrival takes
place before the drop; c2 is then failed with leader_cancelled); monitor c11-drop-overlap. (Genuine defect found with it and repaired in /repo: notes/strengthen-C11.md, known_findings.json.)

`manual herd threads=N rounds=R [keys=M] [gate=none|clone|hash] [ballast=0|1] [out=ok|err|mix]`: real-OS-thread SEARCH
(not a proof) for executions in which the election of a key's leader is not atomic. A separate, freshly built instance;
per round N threads are released together from a start line and each does `svc.clone().call(req)` for key 1 + t mod M;
the inner calls stay pending until every thread has returned from `call()`, then finish, and every thread polls its own
future to completion. Oracles = the property's clauses: per key exactly one inner call started / in flight, every
request of the key receives that call's result. `gate=` makes the threads meet INSIDE `call()` through the key type's
`Clone` (just before the look-up) or `Hash` (inside the look-up; a timed rendezvous, so code that does the look-up under
an exclusive lock merely loses 3 ms per round; code whose look-up admits several threads at once is driven into the
schedule deterministically). The model assumes what this searches a counter-example to: one `Service::call` is one
atomic step (theorem simultaneous_arrivals_one_leader: any order of the arrivals, one leader). Compared line
`herd rounds= calls= inner= shared= anomalies=`; monitor c11-simultaneous-arrivals relays `#herd-fail` (first violating
round: threads, keys, number of inner calls in flight together, what each thread received, a one-line replay).
(seeded/C11-w3m2; notes/strengthen-C11-w3m2.md)

`manual finish threads=N rounds=R [keys=M] [gate=none|drop] [out=ok|err|mix]`: real-OS-thread SEARCH for executions in
which the COMPLETION of a leader (inner result, publication to the waiters, unregistration of the key) is not atomic
with respect to arrivals on other threads. A separate instance; no call future is ever dropped unfinished and no inner
call panics, so a request has exactly two fates: it shares the result of the call in flight when it arrived, or it
starts a fresh call; `leader_cancelled` must never be seen (theorems no_cancellation_without_cause,
arrival_during_completion_shares_or_leads). `gate=none`: N threads make R requests each back to back (inner calls take
0..2 polls). `gate=drop`: per round one request leads and completes at its first poll while the other N-1 threads are
made to arrive INSIDE that completion: the copy of the result made for the (absent) waiters is destroyed there, and the
destructor of the response / error type — the wrapped service's own type — is a timed rendezvous (code that publishes
and unregisters under one lock keeps the arrivals out until the 3 ms time-out; code with a visible intermediate state
lets them in: deterministic). Oracle per request (exact): Ok/Err with the serial of an inner call for its key that was
in flight while the request was inside `Service::call`; per key never two unfinished inner calls. Compared line
`finish rounds= calls= anomalies=`; monitor c11-arrival-during-completion relays `#finish-fail`.
(seeded/C11-w4m2; notes/strengthen-C11-w4.md)

`arrive … via=clone|template|swap|readyclone`: how the caller obtains the `CoalesceService` handle it calls (as in
gen/bulkhead.py): a clone per request (default; `svc.clone().oneshot(req)`), the ONE handle the adapter owns (never
cloned in that mode: the handle is the only owner of whatever the clones share, apart from the call futures), the
`mem::replace` idiom, a clone of a readied handle. The model is indifferent (theorem caller_mode_irrelevant);
15% of the cases use `via=template` for every request (seeded/C11-w4m1).

`arrive … unwind=1` (world.rs, generic): the call future is owned by the frame that polls it (a spawned task, an
`async` block awaiting it, a `select!` arm): a panic raised by its own poll destroys it DURING that unwinding
(`std::thread::panicking()` is true in its destructors). Default: the panic is caught around the `poll` call alone and
the future is dropped afterwards. `drop c unwind=1`: the unfinished future is destroyed because its owner panics for a
reason of its own. The model gives one answer for both ways (theorems leader_panic_frees_key_at_once,
panicked_leader_waiter_fails_at_next_poll, caller_behaviour_irrelevant, unwinding_drop_is_a_drop); seeded/C11-w5m1.

Header `ctor=builder|new|config|confignew|service`: the construction path of the layer (`CoalesceLayer::builder`,
`::new`, `::with_config` of a built / a `CoalesceConfig::new` configuration, or no layer: `CoalesceService::new`).
`arrive … svc=<k>`: the request goes to service k, built lazily from the SAME layer value (even k) or from a clone of the
layer taken then (odd k); all services wrap clones of one back-end. Every service has an in-flight table of its own: a
request to service j never joins a call in flight on service i (theorems services_do_not_share,
service_steps_are_independent); the monitors treat (service, key) as the key. `arrive … eclone=1`: the caller looks at a
clone of what it received (`CoalesceError::clone`).

`arrive … rdy=<script>`: the answers of the wrapped service OF THE HANDLE THIS CALLER IS ABOUT TO CALL to that handle's
successive `poll_ready` calls ('p' pending, 'r' ready, 'e' error), as in gen/bulkhead.py. A handle that does not become
ready is not called: the caller gets the readiness error (`err:inner9:0`) or `notready`, and NOTHING else happens — the
in-flight table is shared by all clones of the service, a handle's copy of the wrapped service is not: calls led through
other handles stay registered, their waiters keep waiting, the next request for the key joins them (model: the line is
answered without any operation; theorems readiness_failure_changes_nothing, readiness_failure_leaves_table,
refused_arrivals_invisible; seeded/C11-w6m1). Half of the cases generate it (8 or 20% of the arrivals fail, as many are
pending first and then ready), preferably while a leader has waiters in flight, followed by a poll of a waiter and a
fresh arrival for the key.

Meta lines of the harness used by the monitors (never compared with the model):
  #arrive c key   adapter, just before `Service::call` (a leader's `inner_call` follows at once); `key@k` on service k > 0
  #fp c t         first poll of caller c
  #wake c t,..    a re-poll of c whose waker has fired since the previous poll
  #poll c         adapter, every poll of a call future that made no inner call in `call()` (a waiter)
  #drop c t       the caller's future is dropped
  #dropsvc        adapter, `manual dropsvc` dropped the service handle
  #ondrop c c2    adapter, inside the destructor of leader c's unfinished inner future: request c2 arrives now
  #herd …         adapter, configuration / wall time / rendezvous statistics of a `manual herd` run
  #herd-fail …    adapter, first violating round of a `manual herd` run, in full
  #finish …       adapter, configuration / wall time / rendezvous statistics of a `manual finish` run
  #finish-fail …  adapter, the first violations of a `manual finish` run, in full
"""
import os
from gen.util import kvs, tparse, pick_outcome

# requests arriving while a dropped leader's inner future is being destroyed (`manual ondrop`)
REENTRANT_DROP = True

# `arrive … clonepanic=1`: the value the request's inner call produces panics the first time it is cloned (the leader's
# completing poll clones it for the waiters and unwinds). OPEN FINDING on the tree this was written against
# (notes/strengthen-coalesce-w5.md): `registration.key.take()` precedes the clone, so the key stays registered for ever.
# On by default since the repair (/repo f959a1c, drafted as notes/strengthen-coalesce-w5-proposed-repair.diff); with VERIF_C11_CLONE_PANIC=0
# the generator emits the word on 8% of the arrivals and corpus/coalesce/clone_panic_wedges_key.ops is run; the model
# (Op.bomb / clonePanic, theorem leader_clone_panic_frees_key_at_once) specifies the conforming behaviour.
CLONE_PANIC = os.environ.get("VERIF_C11_CLONE_PANIC", "1") == "1"   # on since the repair f959a1c


# ----------------------------------------------------------------------------- generator

class _Sim:
    """rough book-keeping of who is probably still alive — only to bias the generator away from no-ops"""
    def __init__(self):
        self.lead = {}      # key -> leader
        self.info = {}      # leader -> (key, done_at, out)
        self.join = {}      # waiter -> leader
        self.over = set()   # leaders finished / dropped
        self.live = []

    def arrive(self, c, key, now, lat, out):
        self.live.append(c)
        if key in self.lead:
            self.join[c] = self.lead[key]
        else:
            self.lead[key] = c
            self.info[c] = (key, now + lat, out)

    def waiting(self):
        """some live waiter's leader is still in flight"""
        return any(c in self.join and self.join[c] not in self.over for c in self.live)

    def _retire(self, c):
        key = self.info[c][0]
        if self.lead.get(key) == c:
            del self.lead[key]
        self.over.add(c)

    def poll(self, c, now):
        if c not in self.live:
            return
        if c in self.info:
            key, at, out = self.info[c]
            if now >= at and out != "never":
                self._retire(c)
                self.live.remove(c)
        elif self.join.get(c) in self.over:
            self.live.remove(c)

    def drop(self, c):
        if c in self.live:
            self.live.remove(c)
            if c in self.info:
                self._retire(c)


# real-thread search for non-atomic leader election (`manual herd`): share of the cases, and rounds per run by
# (gate, threads) — budget about 0.05 s (quick) / 0.15 s (thorough) of wall time per run on the reference machine
# (2 threads: 7 us per round, 4: 15 us, 8: 100-250 us; gate=hash on conforming code: one 3 ms time-out per round).
# The runs of all harness processes are serialised (flock), so their sum is what they add to the wall time of the check.
HERD_P = {"quick": 0.02, "thorough": 0.006}
HERD_SCALE = {"quick": 1, "thorough": 4}


def gen_herd(rng, tier):
    scale = HERD_SCALE.get(tier, 1)
    r = rng.random()
    gate = "hash" if r < 0.35 else "clone" if r < 0.70 else "none"
    if gate == "hash":
        threads = rng.choice([2, 2, 2, 3, 4, 8])
        rounds = rng.choice([4, 8, 12, 20]) * min(scale, 2)
    else:
        threads = rng.choice([2, 2, 3, 4, 4, 8, 8, 16])
        rounds = {2: 6000, 3: 4000, 4: 3000, 8: 400, 16: 100}[threads] * rng.choice([1, 2]) * scale // 2
    keys = 1 if rng.random() < 0.6 else rng.randint(1, threads)
    op = "manual herd threads=%d rounds=%d" % (threads, rounds)
    if keys != 1 or rng.random() < 0.2:
        op += " keys=%d" % keys
    op += " gate=%s" % gate
    if gate != "hash" and rng.random() < 0.3:
        op += " ballast=0"            # an empty map (with gate=hash nothing is hashed during the look-up then)
    out = rng.choice(["ok", "ok", "err", "mix"])
    if out != "ok":
        op += " out=%s" % out
    if keys > 1 and rng.random() < 0.5:
        op += " hmod=%d" % rng.choice([1, 1, 2])     # the keys of the round (and the ballast) collide in their hash
    ops = []
    if rng.random() < 0.3:             # ordinary requests around it: the herd instance is a separate one
        ops += ["arrive 1 key=1 inner=5:ok", "arrive 2 key=1 inner=0:ok", "poll 2"]
    ops.append(op)
    if ops[0] != op or rng.random() < 0.2:
        ops += ["arrive 3 key=1 inner=0:ok", "adv 5", "settle"]
    return {"header": "coalesce", "ops": ops}


# real-thread search for a non-atomic completion (`manual finish`): share of the cases; requests per thread in the
# plain race by thread count (about 0.03-0.08 s per run on the reference machine, debug build); with the rendezvous a
# conforming implementation costs one 3 ms time-out per round. Serialised with the herd runs (same flock).
FINISH_P = {"quick": 0.015, "thorough": 0.004}
VIAS = [" via=readyclone", " via=swap", " via=template", " via=clone"]
RDY_FAIL = ["e", "e", "e", "pe", "ppe", "p", "pp"]        # readiness scripts after which the handle is not called
RDY_OK = ["r", "pr", "ppr", "re"]                         # … after which it is


def rdy_outcome(script):
    """what a readiness script comes to for the caller: None (ready: the call is made) / 'err:inner9:0' / 'notready'
    (the caller polls until an answer other than pending, or until the script ends)"""
    if script is None:
        return None
    rest = script.lstrip("p")
    if not rest:
        return "notready"
    return "err:inner9:0" if rest[0] == "e" else None


def gen_finish(rng, tier):
    scale = HERD_SCALE.get(tier, 1)
    if rng.random() < 0.45:
        threads = rng.choice([2, 2, 2, 3, 4])
        op = "manual finish threads=%d rounds=%d gate=drop" % (threads, rng.choice([3, 6, 10]) * min(scale, 2))
    else:
        threads = rng.choice([2, 2, 3, 4, 4, 8])
        rounds = {2: 4000, 3: 3000, 4: 2000, 8: 600}[threads] * rng.choice([1, 2]) * scale // 2
        op = "manual finish threads=%d rounds=%d" % (threads, rounds)
        if rng.random() < 0.3:
            op += " keys=%d" % rng.randint(1, threads)
        if rng.random() < 0.5:
            op += " gate=none"
    out = rng.choice(["ok", "ok", "err", "mix"])
    if out != "ok":
        op += " out=%s" % out
    ops = []
    if rng.random() < 0.3:             # ordinary requests around it: a separate instance
        ops += ["arrive 1 key=1 inner=5:ok", "arrive 2 key=1 inner=0:ok via=template", "poll 2"]
    ops.append(op)
    if ops[0] != op or rng.random() < 0.2:
        ops += ["arrive 3 key=1 inner=0:ok", "adv 5", "settle"]
    return {"header": "coalesce", "ops": ops}


def gen(rng, tier):
    r = rng.random()
    if r < HERD_P.get(tier, 0.02):
        if os.environ.get("VERIF_C11_HERD", "1") != "0":
            return gen_herd(rng, tier)
    elif r < HERD_P.get(tier, 0.02) + FINISH_P.get(tier, 0.015):
        if os.environ.get("VERIF_C11_FINISH", "1") != "0":
            return gen_finish(rng, tier)
    nkeys = rng.choice([1, 1, 2, 2, 3])
    # construction path of the layer; number of services built from the one layer value (service, key) is the key
    ctor = "builder" if rng.random() < 0.45 else rng.choice(["new", "new", "config", "confignew", "service"])
    header = "coalesce" if ctor == "builder" and rng.random() < 0.9 else "coalesce ctor=%s" % ctor
    nsvc = 1 if rng.random() < 0.6 else rng.choice([2, 2, 3, 4])
    hot_svc = rng.randrange(nsvc)
    # how the callers own their call futures: a panic raised by a poll is caught around that poll and the future is
    # dropped afterwards (the old cases) / the future is owned by the polling frame and goes DURING the unwinding
    r = rng.random()
    p_unwind = 0.0 if r < 0.35 else 1.0 if r < 0.55 else rng.choice([0.3, 0.5, 0.8])

    # readiness of the handle a caller is about to call: always ready (half of the cases) / fails or stays pending for
    # 8 or 20% of the arrivals, pending first and then ready for as many
    p_rdy = rng.choice([0, 0, 0, 0.08, 0.2, 0.2])

    def rdy():
        """(words, refused): the readiness script of one arrival"""
        if p_rdy and rng.random() < p_rdy:
            return " rdy=" + rng.choice(RDY_FAIL), True
        if p_rdy and rng.random() < p_rdy:
            return " rdy=" + rng.choice(RDY_OK), False
        return "", False

    def svc_of():
        if nsvc == 1:
            return 0
        return hot_svc if rng.random() < 0.6 else rng.randrange(nsvc)

    def kw(K):
        """the words naming (service, key)"""
        return "key=%d%s" % (K[1], " svc=%d" % K[0] if K[0] > 0 or (nsvc > 1 and rng.random() < 0.2) else "")

    def how():
        """caller behaviour words"""
        return (" unwind=1" if rng.random() < p_unwind else "") + (" eclone=1" if rng.random() < 0.25 else "")

    ncall = rng.randint(2, 8) if rng.random() < 0.85 else rng.randint(1, 12)
    ops = []
    now = 0
    marks = []            # completion instants of leaders' inner calls
    arrived = []
    sim = _Sim()
    nxt = 1
    nsteps = rng.randint(8, 40)
    settles = 0
    kept = []
    hot = rng.randint(1, nkeys)         # most requests go to one key, so that they coalesce
    # when the last service handle is dropped: never (the owner outlives everything) / before anybody arrives /
    # as soon as a leader has waiters in flight / at any step / after the tail / at the very end
    r = rng.random()
    dropsvc = "never" if r < 0.62 else "start" if r < 0.65 else "inflight" if r < 0.83 else "any" if r < 0.93 else "late" if r < 0.97 else "end"
    gone = [False]
    # how the callers obtain the handle they call: always a clone (the old cases) / always the one handle the adapter
    # owns, never cloned / a favourite way with exceptions / anything
    r = rng.random()
    via_all = " via=template" if r < 0.15 else None
    via_p = 0.0 if r < 0.50 else rng.choice([0.3, 0.7, 1.0])
    via_main = rng.choice(VIAS + [" via=template"])

    def via():
        if via_all:
            return via_all
        if rng.random() >= via_p:
            return ""
        return via_main if rng.random() < 0.6 else rng.choice(VIAS)

    def handle_drop():
        ops.append("manual dropsvc")
        gone[0] = True

    if dropsvc == "start":
        handle_drop()

    def pick():
        if sim.live and rng.random() < 0.93:
            return rng.choice(sim.live)
        return rng.choice(arrived)      # sometimes a dead one: must be answered `noop`

    for _ in range(nsteps):
        r = rng.random()
        if not gone[0] and ((dropsvc == "inflight" and sim.waiting() and rng.random() < 0.6) or (dropsvc == "any" and rng.random() < 0.12)):
            handle_drop()
            if rng.random() < 0.3:
                ops.append("manual dropsvc")    # again: nothing left to drop
        if not sim.live and (nxt > ncall or gone[0]) and rng.random() < 0.7:
            break                       # everybody has resolved or been dropped
        if nxt <= ncall and (r < 0.30 or not sim.live) and (not gone[0] or not sim.live or rng.random() < 0.3):
            c = nxt
            nxt += 1
            key = (svc_of(), hot if rng.random() < 0.7 else rng.randint(1, nkeys))
            lat = rng.choice([0, 0, 1, 5, 10, 10, rng.randint(0, 40)])
            out = pick_outcome(rng, w_ok=5, w_err=2, w_panic=2, w_never=1)
            cp = rng.random() < 0.12        # the inner service's call() itself panics (if this request leads)
            keep = rng.random() < 0.25      # the caller holds on to the finished future and drops it later (`release`)
            clp = rng.random() < 0.08 and CLONE_PANIC   # the value of its inner call cannot be cloned (drawn either way)
            # a handle of somebody else's fails its readiness check just when a leader has waiters in flight
            rw, refused = rdy()
            if not refused and p_rdy and sim.waiting() and rng.random() < 0.25:
                rw, refused = " rdy=" + rng.choice(RDY_FAIL), True
                if rng.random() < 0.7:
                    wl = [w for w in sim.live if w in sim.join and sim.join[w] not in sim.over]
                    key = sim.info[sim.join[rng.choice(wl)]][0]      # … for the very key in flight
            ops.append("arrive %d %s inner=%d:%s%s%s%s%s%s%s" % (c, kw(key), lat, out, " callpanic=1" if cp else "", " clonepanic=1" if clp else "", " keep=1" if keep else "", via(), rw, how()))
            arrived.append(c)
            if gone[0]:
                continue                    # no handle to call through: refused (`noop`), and so is any poll/drop of it
            if refused:
                # answered with the readiness error; nothing else may have happened: look at a waiter, ask for the key again
                wl = [w for w in sim.live if w in sim.join and sim.join[w] not in sim.over]
                if wl and rng.random() < 0.6:
                    w = rng.choice(wl)
                    ops.append("poll %d" % w)
                    sim.poll(w, now)
                if nxt <= ncall and rng.random() < 0.5:
                    c2 = nxt
                    nxt += 1
                    ops.append("arrive %d %s inner=%d:%s%s%s" % (c2, kw(key), rng.choice([0, 0, 5, 10]), pick_outcome(rng, w_ok=5, w_err=2, w_panic=1, w_never=1), via(), how()))
                    arrived.append(c2)
                    kv2 = kvs(ops[-1])
                    l2, _, o2 = kv2["inner"].partition(":")
                    sim.arrive(c2, key, now, int(l2), o2)
                    marks.append(now + int(l2))
                continue
            if keep:
                kept.append(c)
            if cp and key not in sim.lead:
                continue                    # it led and panicked in call(): no future, key free again
            sim.arrive(c, key, now, lat, out)
            marks.append(now + lat)
            if rng.random() < 0.35:
                ops.append("poll %d" % c)
                sim.poll(c, now)
        elif r < 0.10 + 0.30 and kept and rng.random() < 0.5:
            c = rng.choice(kept)
            kept.remove(c)
            ops.append("release %d" % c)        # a finished future is finally dropped: must change nothing
        elif r < 0.62 and arrived:
            c = pick()
            ops.append("poll %d" % c)
            sim.poll(c, now)
            if rng.random() < 0.2:
                ops.append("poll %d" % c)          # spurious / busy re-poll
                sim.poll(c, now)
        elif r < 0.72 and arrived:
            # drops: leaders (whose waiters must then fail fast) as often as anybody else
            leaders = [c for c in sim.live if c in sim.info]
            c = rng.choice(leaders) if leaders and rng.random() < 0.3 else pick()
            if REENTRANT_DROP and nxt <= ncall and rng.random() < (0.45 if c in leaders else 0.06):
                # a request for the same key arrives while the inner future of the dropped leader is being destroyed
                # (armed on a waiter or a dead caller the hook never fires: the later arrival is an ordinary one)
                c2 = nxt
                nxt += 1
                lat = rng.choice([0, 0, 5, 10])
                out = pick_outcome(rng, w_ok=5, w_err=2, w_panic=1, w_never=1)
                ops.append("manual ondrop c=%d by=%d inner=%d:%s%s" % (c, c2, lat, out, " thread=1" if rng.random() < 0.5 else ""))
                ops.append("drop %d%s" % (c, " unwind=1" if rng.random() < 0.5 * p_unwind else ""))
                key = sim.info[c][0] if c in sim.info else (svc_of(), hot)
                if not gone[0] and c in leaders:
                    sim.arrive(c2, key, now, lat, out)      # onto the dying leader
                sim.drop(c)
                if rng.random() < 0.9:
                    ops.append("arrive %d %s inner=%d:%s%s%s" % (c2, kw(key), lat, out, via(), how()))
                    arrived.append(c2)
                    if not gone[0] and c not in leaders:
                        sim.arrive(c2, key, now, lat, out)
                        marks.append(now + lat)
                    if rng.random() < 0.5:
                        ops.append("poll %d" % c2)
                        sim.poll(c2, now)
                continue
            # … some of them because the owner of the future panics (destroyed during that unwinding)
            ops.append("drop %d%s" % (c, " unwind=1" if rng.random() < 0.6 * p_unwind else ""))
            sim.drop(c)
        elif r < 0.93:
            fut = [m for m in marks if m >= now]
            if fut and rng.random() < 0.75:
                d = max(0, rng.choice(fut) - now + rng.choice([-1, 0, 0, 0, 1]))
            else:
                d = rng.choice([0, 1, 2, 5, 10, rng.randint(0, 30)])
            ops.append("adv %d" % d)
            now += d
        elif settles < 1:
            settles += 1
            ops.append("settle")
            for c in list(sim.live):
                sim.poll(c, now)
            for c in list(sim.live):
                sim.poll(c, now)
        else:
            ops.append("arrive %d %s" % (rng.choice(arrived) if arrived else 1, kw((svc_of(), hot))))   # duplicate arrival: noop
    # tail: finish or kill the leaders, poll the waiters, then a fresh call on each key
    tail = rng.random()
    if tail < 0.4:
        d = rng.choice([0, 10, 50])
        ops.append("adv %d" % d)
        now += d
        order = list(sim.live)
        rng.shuffle(order)
        for c in order:
            ops.append("poll %d" % c)
            sim.poll(c, now)
        for c in [c for c in order if c in sim.live or rng.random() < 0.15]:
            ops.append("poll %d" % c)
            sim.poll(c, now)
    elif tail < 0.7:
        for c in [c for c in sim.live if c in sim.info]:
            if rng.random() < 0.7:
                ops.append("drop %d%s" % (c, " unwind=1" if rng.random() < 0.6 * p_unwind else ""))
                sim.drop(c)
        order = list(sim.live)
        rng.shuffle(order)
        for c in order[: rng.randint(0, len(order))]:
            ops.append("poll %d" % c)
            sim.poll(c, now)
    if dropsvc == "late" and not gone[0]:
        handle_drop()
    if rng.random() < (0.25 if gone[0] else 0.6):
        base = 100
        fresh = []
        for sv in range(nsvc):
            if sv > 0 and rng.random() < 0.3:
                continue
            for k in range(1, nkeys + 1):
                if rng.random() < 0.25:
                    ops.append("arrive %d %s inner=0:ok callpanic=1%s" % (base + 50 + 10 * sv + k, kw((sv, k)), via()))
                if p_rdy and rng.random() < p_rdy:
                    ops.append("arrive %d %s inner=0:ok%s rdy=%s" % (base + 70 + 10 * sv + k, kw((sv, k)), via(), rng.choice(RDY_FAIL)))
                ops.append("arrive %d %s inner=0:ok%s%s%s" % (base + 10 * sv + k, kw((sv, k)), via(), " rdy=" + rng.choice(RDY_OK) if p_rdy and rng.random() < p_rdy else "", how()))
                fresh.append(base + 10 * sv + k)
        for c in fresh:
            ops.append("poll %d" % c)
        if rng.random() < 0.4 and settles < 2:
            ops.append("settle")
    if kept and rng.random() < 0.7:
        # finished futures that are still held are dropped while a NEW leader of the same key is in flight
        base = 200
        ops.append("settle")
        lat = rng.choice([10, 20])
        hk = kw((hot_svc, hot))
        ops.append("arrive %d %s inner=%d:ok%s%s" % (base + 1, hk, lat, via(), how()))
        ops.append("arrive %d %s inner=0:ok%s%s" % (base + 2, hk, via(), how()))
        ops.append("poll %d" % (base + 2))
        for c in kept:
            ops.append("release %d" % c)
        ops.append("arrive %d %s inner=0:ok%s" % (base + 3, hk, via()))
        ops.append("poll %d" % (base + 3))
        ops.append("adv %d" % lat)
        ops.append("settle")
    if dropsvc in ("end", "inflight", "any") and not gone[0]:
        handle_drop()
        if rng.random() < 0.5:
            ops.append("settle")
    # the key type's Hash is coarser than its Eq (`khash=<m>`: only key mod m is hashed; m=1: every key has the same hash):
    # half of the cases with several keys, a few with one (inert there). Distinct keys that collide are distinct keys.
    if rng.random() < (0.5 if nkeys > 1 else 0.1):
        header += " khash=%d" % rng.choice([1, 1, 2])
    return {"header": header, "ops": ops}


def canon(lines):
    """`noop` answers compare without their time stamp: the poll/drop of a caller that never got a future is answered
    by the harness's generic loop (bare `noop`) and by the model's machine (`t=.. noop`)"""
    return ["noop" if l.startswith("t=") and l.split()[1:] == ["noop"] else l for l in lines]


# ----------------------------------------------------------------------------- monitors

def _keys(case, meta=None):
    """caller -> key, from the case's own arrive operations (first arrival counts); a request made inside the
    destructor of a dropped leader's inner future (`#ondrop c c2`) carries that leader's key"""
    keys = {}
    for o in case["ops"]:
        w = o.split()
        if len(w) >= 2 and w[0] == "arrive" and w[1] not in keys:
            kv = kvs(o)
            # (service, key) is the key: every service built from the layer has an in-flight table of its own
            keys[w[1]] = kv.get("key", "0") + ("@" + kv["svc"] if kv.get("svc", "0") != "0" else "")
    for _, m in (meta or []):
        w = m.split()
        if w[0] == "#ondrop" and w[1] in keys:
            keys[w[2]] = keys[w[1]]
    return keys


def _khash(case):
    """`khash=<m>` of the case header: the key type hashes only key mod m (0: the whole key)"""
    try:
        return int(kvs(case.get("header", "")).get("khash", "0"))
    except ValueError:
        return 0


def _collision(case, key, cur):
    """the (service, key) entries of `cur` (keys with a call in flight) that differ from `key` but have its hash on
    its service — keys the in-flight table must tell apart by `Eq`"""
    m = _khash(case)
    if not m or key is None:
        return []
    raw, _, sv = key.partition("@")
    out = []
    for k2 in cur:
        r2, _, s2 = k2.partition("@")
        if k2 != key and s2 == sv and raw.isdigit() and r2.isdigit() and int(raw) % m == int(r2) % m:
            out.append(k2)
    return out


def _collision_note(case, key, cur):
    col = _collision(case, key, cur)
    if not col:
        return ""
    k2 = col[0]
    return (" (call %s of caller %s for key %s is in flight; key %s is a DIFFERENT key — not equal under Eq — whose hash equals that of key %s "
            "(khash=%d: the key type hashes only key mod %d): the request was treated as a request for key %s — coalescing is per key, "
            "not per hash)" % (cur[k2][1], cur[k2][0], k2, key, k2, _khash(case), _khash(case), k2))


def _callpanic(case):
    """callers whose request scripts a panic inside the inner service's call() itself"""
    cp = set()
    seen = set()
    for o in case["ops"]:
        w = o.split()
        if len(w) >= 2 and w[0] == "arrive" and w[1] not in seen:
            seen.add(w[1])
            if kvs(o).get("callpanic") == "1":
                cp.add(w[1])
    return cp


def _refused(case):
    """callers whose handle does not become ready (`rdy=<script>`): caller -> the answer they must get"""
    ref = {}
    seen = set()
    for o in case["ops"]:
        w = o.split()
        if len(w) >= 2 and w[0] == "arrive" and w[1] not in seen:
            seen.add(w[1])
            x = rdy_outcome(kvs(o).get("rdy"))
            if x is not None:
                ref[w[1]] = x
    return ref


def _clonepanic(case):
    """callers whose inner call (if they lead one) yields a value that panics when the leader clones it"""
    cl = set()
    seen = set()
    for o in case["ops"]:
        w = o.split()
        if len(w) >= 2 and w[0] == "arrive" and w[1] not in seen:
            seen.add(w[1])
            if kvs(o).get("clonepanic") == "1":
                cl.add(w[1])
    return cl


def _timeline(lines, meta):
    """merge the meta lines into the event lines: list of (kind, words, t)"""
    ev = []
    mi = 0
    meta = [m for m in meta if m[0] >= 0]
    for i, l in enumerate(lines + [None]):
        while mi < len(meta) and meta[mi][0] == i:
            ev.append(("meta", meta[mi][1].split(), None))
            mi += 1
        if l is not None:
            t, w = tparse(l)
            ev.append(("line", w, t))
    return ev


def _expected(fate):
    if fate[0] == "ok":
        return "ok:%s" % fate[1]
    if fate[0] == "err":
        return "err:inner%s:%s" % (fate[1], fate[2])
    return "err:leader_cancelled"


def mon_inflight(case, lines, meta):
    """at most one inner call in flight per key, in every prefix of the implementation log"""
    keys = _keys(case, meta)
    refused = _refused(case)
    inflight = {}
    unready = []
    for i, l in enumerate(lines):
        t, w = tparse(l)
        if not w:
            continue
        if w[0] == "result" and w[1] in refused and w[2] == refused[w[1]]:
            unready.append(w[1])
        if w[0] == "inner_call":
            key = keys.get(w[1])
            if key is None:
                return "line %d: inner call for an unknown caller (%s)" % (i, l)
            s = inflight.setdefault(key, set())
            s.add(w[2])
            if len(s) > 1:
                return "line %d: %d inner calls in flight for key %s (serials %s)%s" % (i, len(s), key, sorted(s), _after_unready(unready))
        elif w[0] in ("inner_done", "inner_drop"):
            key = keys.get(w[1])
            inflight.get(key, set()).discard(w[2])
    return None


def mon_drop_overlap(case, lines, meta):
    """a request that arrives while the inner future of a dropped leader is still being destroyed (between the
    harness's `#ondrop c c2` and the `inner_drop c k` that ends the destructor) finds call k still in flight: it
    must not start an inner call for that key"""
    keys = _keys(case, meta)
    for i, m in meta:
        w = m.split()
        if i < 0 or w[0] != "#ondrop":
            continue
        c, c2 = w[1], w[2]
        started = []
        for l in lines[i:]:
            _, x = tparse(l)
            if x and x[0] == "inner_drop" and x[1] == c:
                if started:
                    return ("request %s arrived while the inner future of the dropped leader %s (inner call %s, key %s) was still "
                            "being destroyed and started inner call %s of its own: two calls to the wrapped service in flight for "
                            "key %s (the key is unregistered before the inner future is destroyed)"
                            % (c2, c, x[2], keys.get(c), started[0], keys.get(c)))
                break
            if x and x[0] == "inner_call":
                started.append(x[2])
    return None


def mon_herd(case, lines, meta):
    """Real-thread search (`manual herd`): in every round all N requests of a key were inside `Service::call` while
    no inner call could finish, so the property demands exactly one inner call per key in flight and that call's
    result for every request of the key. The harness checked that per round; the first violating round is relayed
    in full (threads, key, number of inner calls in flight together, what each thread received, one-line replay)."""
    for _, m in meta:
        if m.startswith("#herd-fail"):
            return "simultaneous arrivals (real threads) violated the property: " + m[len("#herd-fail"):].strip()
    return None


def mon_finish(case, lines, meta):
    """Real-thread search (`manual finish`): requests racing with completions, nothing ever dropped or panicking. The
    harness judged every request (it shares the result of a call for its key that was in flight while it was inside
    `Service::call`, or leads a fresh one; never leader_cancelled) and every inner call (never two unfinished for one
    key); the first violations are relayed in full with a one-line replay."""
    for _, m in meta:
        if m.startswith("#finish-fail"):
            return "arrivals racing with a completion (real threads) violated the property: " + m[len("#finish-fail"):].strip()
    return None


def _after_unready(unready):
    if not unready:
        return ""
    return (" (after the readiness failure of the handle of caller %s — another handle: a readiness failure concerns the handle it "
            "happened on, the calls in flight were led through other handles)" % unready[-1])


def mon_share(case, lines, meta):
    """roles and results: a request arriving while a call for its key is in flight makes no inner call and
    gets exactly that call's result (same serial; `err:leader_cancelled` iff that leader was dropped or
    panicked), never before the leader has finished; otherwise it leads a fresh call at once"""
    keys = _keys(case, meta)
    cpanic = _callpanic(case)
    clpanic = _clonepanic(case)
    refused = _refused(case)
    unready = []      # callers answered with a readiness failure so far
    ev = _timeline(lines, meta)
    cur = {}          # key -> (leader caller, serial) in flight
    joined = {}       # waiter -> leader
    fate = {}         # leader -> ("ok",k) | ("err",kind,k) | ("cancelled",)
    own = {}          # leader -> rendering of its own result
    ever = set()      # keys that have had a leader
    for i, (kind, w, t) in enumerate(ev):
        if not w:
            continue
        if kind == "meta" and w[0] == "#arrive":
            c, key = w[1], w[2]
            if c in refused:
                return "caller %s reached Service::call although the handle it was about to call never became ready (readiness: %s)" % (c, refused[c])
            if keys.get(c) != key:
                return "caller %s: key extractor saw key %s, the request carries %s" % (c, key, keys.get(c))
            nx = ev[i + 1] if i + 1 < len(ev) else None
            leads = bool(nx and nx[0] == "line" and nx[1][:2] == ["inner_call", c])
            if key in cur:
                if leads:
                    return ("caller %s arrived while call %s of caller %s was in flight for key %s, but made an inner call of its own%s"
                            % (c, cur[key][1], cur[key][0], key, _after_unready(unready)))
                joined[c] = cur[key][0]
            elif not leads:
                if c in cpanic and nx and nx[0] == "line" and nx[1][:3] == ["result", c, "panic"]:
                    own[c] = "panic"      # it led, and the inner service's call() panicked at once: nothing is in flight
                    continue
                return ("caller %s arrived with no call in flight for key %s but did not start a fresh inner call%s%s"
                        % (c, key, " (the key is still registered by a leader that has gone: it is never usable again)" if key in ever else "",
                           _collision_note(case, key, cur)))
        elif kind == "line" and w[0] == "inner_call":
            c, k = w[1], w[2]
            if c in joined:
                return "waiter %s caused an inner call (%s)" % (c, k)
            cur[keys.get(c)] = (c, k)
            ever.add(keys.get(c))
        elif kind == "line" and w[0] == "inner_done":
            c, k, o = w[1], w[2], w[3]
            if cur.get(keys.get(c), (None,))[0] == c:
                del cur[keys.get(c)]
            if c in clpanic and o != "panic":
                # the inner call finished, but the leader panics while cloning the value for the waiters: the leading
                # request panicked, its waiters are to get leader_cancelled
                fate[c] = ("cancelled",)
                own[c] = "panic"
            elif o == "ok":
                fate[c] = ("ok", k)
                own[c] = "ok:%s" % k
            elif o.startswith("err"):
                fate[c] = ("err", o[3:], k)
                own[c] = "err:inner%s:%s" % (o[3:], k)
            else:
                fate[c] = ("cancelled",)
                own[c] = "panic"
        elif kind == "line" and w[0] == "inner_drop":
            c = w[1]
            if cur.get(keys.get(c), (None,))[0] == c:
                del cur[keys.get(c)]
            fate[c] = ("cancelled",)
        elif kind == "line" and w[0] == "result":
            c, x = w[1], w[2]
            if c in refused and c not in joined and c not in own:
                if x != refused[c]:
                    return "caller %s, whose handle did not become ready, got %s, expected %s" % (c, x, refused[c])
                unready.append(c)
                continue
            if c in joined:
                ldr = joined[c]
                if ldr not in fate:
                    return "waiter %s resolved (%s) while its leader %s was still in flight%s" % (c, x, ldr, _after_unready(unready))
                if x != _expected(fate[ldr]):
                    return "waiter %s of leader %s (key %s) got %s, expected %s" % (c, ldr, keys.get(c), x, _expected(fate[ldr]))
            else:
                if c not in own:
                    return "leader %s resolved (%s) without its inner call having finished" % (c, x)
                if x != own[c]:
                    return "leader %s got %s, its inner call produced %s" % (c, x, own[c])
    return None


def mon_prompt(case, lines, meta):
    """no waiter waits for ever: once its leader has finished, been dropped or panicked a waiter resolves at its
    very next poll; and a waiter that returned Pending has always been woken again before it is re-polled
    (the code re-arms itself by waking its own waker), so an executor would poll it again"""
    keys = _keys(case, meta)
    ev = _timeline(lines, meta)
    cur = {}
    joined = {}
    finished = {}         # leader -> how it went
    armed = set()
    resolved = set()
    for i, (kind, w, t) in enumerate(ev):
        if not w:
            continue
        if kind == "meta" and w[0] == "#arrive":
            c, key = w[1], w[2]
            if key in cur:
                joined[c] = cur[key]
        elif kind == "meta" and w[0] in ("#fp", "#wake"):
            armed.add(w[1])
        elif kind == "meta" and w[0] == "#poll":
            c = w[1]
            if c not in joined:
                continue          # role confusion is reported by c11-shared-result
            if c not in armed:
                return "waiter %s returned Pending at its previous poll without arranging a wake-up (re-polled at event %d unwoken): it would wait for ever on a real executor" % (c, i)
            armed.discard(c)
            nx = ev[i + 1] if i + 1 < len(ev) else None
            res = bool(nx and nx[0] == "line" and nx[1][:2] == ["result", c])
            if joined[c] in finished and not res:
                return ("waiter %s (key %s) was polled after its leader %s had gone (%s) but did not resolve at that poll: it is still "
                        "waiting for a call that no longer exists" % (c, keys.get(c), joined[c], finished[joined[c]]))
        elif kind == "line" and w[0] == "inner_call":
            cur[keys.get(w[1])] = w[1]
        elif kind == "line" and w[0] in ("inner_done", "inner_drop"):
            c = w[1]
            if cur.get(keys.get(c)) == c:
                del cur[keys.get(c)]
            finished[c] = ("its future was dropped" if w[0] == "inner_drop" else
                           "its inner call panicked" if w[3:4] == ["panic"] else "its inner call finished")
        elif kind == "line" and w[0] == "result":
            resolved.add(w[1])
    return None


# ----------------------------------------------------------------------------- coverage

def transitions(case, lines, meta=None):
    tags = []
    leaders = set()
    led_keys = set()
    keys = _keys(case, meta)
    # where (index into `lines`) the service handle was dropped, and who was a waiter by then
    at = None
    waiters = set()
    for i, m in (meta or []):
        w = m.split()
        if w[0] == "#dropsvc" and i >= 0 and at is None:
            at = i
        elif w[0] == "#poll":
            waiters.add(w[1])
    if at is not None:
        flying = set()
        resolved = set()
        for l in lines[:at]:
            _, w = tparse(l)
            if w and w[0] == "inner_call":
                flying.add(w[1])
            elif w and w[0] in ("inner_done", "inner_drop"):
                flying.discard(w[1])
            elif w and w[0] == "result":
                resolved.add(w[1])
        tags.append("dropsvc-inflight" if flying else "dropsvc-first" if at == 0 else "dropsvc-idle")
        later = [tparse(l)[1] for l in lines[at:]]
        if flying and any(w and w[0] == "result" and w[1] in waiters and w[1] not in resolved and w[2] != "err:leader_cancelled" for w in later):
            tags.append("waiter-served-after-dropsvc")
        if flying and any(w and w[0] == "result" and w[1] in waiters and w[1] not in resolved and w[2] == "err:leader_cancelled" for w in later):
            tags.append("waiter-cancelled-after-dropsvc")
        if any(w == ["noop"] for w in later):
            tags.append("refused-after-dropsvc")
    for i, m in (meta or []):
        w = m.split()
        if w[0] == "#ondrop" and i >= 0:
            nx = tparse(lines[i])[1] if i < len(lines) else []
            tags.append("arrival-during-leader-drop-led" if nx[:1] == ["inner_call"] else "arrival-during-leader-drop-joined")
    if any(o.startswith("manual ondrop") and "thread=1" in o for o in case["ops"]):
        tags.append("ondrop-second-thread")
    for _, m in (meta or []):
        if m.startswith("#herd "):
            kv = kvs(m)
            tags.append("herd-run")
            tags.append("herd-gate-%s" % kv.get("gate", "none"))
            if kv.get("gate") == "hash" and kv.get("ballast") == "1":
                # the rendezvous inside the look-up: everybody met (look-up admits several threads) or somebody gave up
                tags.append("herd-lookup-exclusive" if int(kv.get("gate_timeouts", "0")) > 0 else "herd-lookup-shared")
            if int(kv.get("keys", "1")) > 1:
                tags.append("herd-several-keys")
                if kv.get("hmod", "0") != "0":
                    tags.append("herd-colliding-keys")
    for _, m in (meta or []):
        if m.startswith("#finish "):
            kv = kvs(m)
            tags.append("finish-run")
            tags.append("finish-gate-%s" % kv.get("gate", "none"))
            if kv.get("gate") == "drop":
                # the rendezvous inside the completion: the arrivals got in, or the completing thread gave up waiting
                tags.append("finish-completion-exclusive" if int(kv.get("gate_timeouts", "0")) > 0 else "finish-completion-open")
            if int(kv.get("joined", "0")) > 0:
                tags.append("finish-coalesced")
    # caller modes; `sole-handle-overlap`: every request so far came through the one never-cloned handle and this one
    # found a call in flight (it is polled as a waiter)
    only_template = True
    seen = set()
    for o in case["ops"]:
        w = o.split()
        if len(w) >= 2 and w[0] == "arrive" and w[1] not in seen:
            seen.add(w[1])
            v = kvs(o).get("via", "clone")
            if v != "clone":
                tags.append("via-%s" % v)
            only_template = only_template and v == "template"
            if only_template and w[1] in waiters:
                tags.append("sole-handle-overlap")
        elif w[:2] == ["manual", "ondrop"]:
            only_template = False
    # construction path, services, caller behaviour
    hdr = kvs(case.get("header", ""))
    if hdr.get("ctor", "builder") != "builder":
        tags.append("ctor-%s" % hdr["ctor"])
    if _khash(case):
        tags.append("khash")
    first = {}
    for o in case["ops"]:
        w = o.split()
        if len(w) >= 2 and w[0] == "arrive" and w[1] not in first:
            first[w[1]] = kvs(o)
    unwinding_drops = set()
    for i, m in (meta or []):
        w = m.split()
        if w[0] == "#drop" and w[-1] == "unwinding" and i >= 0:
            unwinding_drops.add(w[1])
    flying = {}           # (service, key) -> leader
    done_ok = set()
    refused = _refused(case)
    for c, kv in first.items():
        if "rdy" in kv and c not in refused and "p" in kv["rdy"].split("r")[0]:
            tags.append("ready-after-pending")
    for l in lines:
        _, w = tparse(l)
        if not w:
            continue
        if w[0] == "inner_done" and w[3] != "panic":
            done_ok.add("inner_done %s" % w[1])
        if w[0] == "inner_call":
            leaders.add(w[1])
            key = keys.get(w[1])
            tags.append("lead-again" if key in led_keys else "lead")
            led_keys.add(key)
            raw, _, sv = (key or "").partition("@")
            if sv:
                tags.append("service-odd-from-layer-clone" if int(sv) % 2 else "service-even-from-layer")
            if any(k2 != key and k2.partition("@")[0] == raw for k2 in flying):
                tags.append("other-service-leads-same-key")     # the same key is in flight on another service
            if _collision(case, key, flying):
                tags.append("lead-while-colliding-key-inflight")  # a DIFFERENT key with the same hash is in flight on this service
            flying[key] = w[1]
        elif w[0] == "inner_done":
            if _collision(case, keys.get(w[1]), flying) and flying.get(keys.get(w[1])) == w[1]:
                tags.append("finish-while-colliding-key-inflight")  # … and must stay in flight when this one is retired
            flying.pop(keys.get(w[1]), None)
        elif w[0] == "inner_drop":
            if _collision(case, keys.get(w[1]), flying) and flying.get(keys.get(w[1])) == w[1]:
                tags.append("finish-while-colliding-key-inflight")
            flying.pop(keys.get(w[1]), None)
            tags.append("leader-dropped-unwinding" if w[1] in unwinding_drops else "leader-dropped")
        elif w[0] == "result" and w[1] in refused and w[1] not in leaders and w[2] == refused[w[1]]:
            tags.append("refused-notready" if w[2] == "notready" else "refused-readiness-error")
            if flying:
                tags.append("readiness-failure-while-inflight")     # calls led through other handles are in flight
        elif w[0] == "result":
            who = "leader" if w[1] in leaders else "waiter"
            x = w[2]
            if who == "waiter" and x == "panic":
                tags.append("call-panic")      # no future was ever built: inner.call() unwound
                continue
            what = "ok" if x.startswith("ok") else "panic" if x == "panic" else "cancelled" if x == "err:leader_cancelled" else "err"
            tags.append("%s-%s" % (who, what))
            kv = first.get(w[1], {})
            if who == "leader" and what == "panic" and kv.get("clonepanic") == "1" and "inner_done %s" % w[1] in done_ok:
                tags.append("leader-clone-panic")
            if who == "leader" and what == "panic":
                # the future went DURING the unwinding of the panic its poll raised / after that panic was caught
                tags.append("leader-panic-unwinding" if kv.get("unwind") == "1" else "leader-panic-caught")
            if kv.get("eclone") == "1" and what in ("err", "cancelled"):
                tags.append("error-cloned")
        elif w[0] == "noop":
            tags.append("noop")
    return tags


def nontrivial(case, lines, tags):
    return any(t.startswith("waiter-") or t in ("leader-dropped", "leader-dropped-unwinding", "leader-panic", "call-panic", "herd-run", "finish-run") for t in tags)


LEVEL_NOTE = ("Trusted: Lean kernel; the transcription of tokio's broadcast channel (a value sent before the sender is dropped stays "
              "readable; an empty channel whose sender is gone reads Closed; capacity 1 never lags with a single send), of parking_lot::Mutex "
              "as an atomic section and of unwinding dropping the leader's future / running the Unregister guard, in TR.Model.Coalesce — "
              "validated only by the sampled correspondence check; the harness and the python diff/monitors. Not verified: the `unsafe "
              "get_unchecked_mut` pin projection. The waiter's wake-up is a self-wake (busy-poll); it is modelled (`awake`) and observed "
              "through the harness's #wake lines by the monitor c11-prompt. The defect found on the pinned tree (a panic inside inner.call() "
              "wedged the key) is repaired; its kernel-checked record is TR/Mutants/CoalesceCallPanicWedges.lean and the witness "
              "corpus/coalesce/call_panic_wedges_key.ops now agrees and passes. Open finding (strengthening round, notes/strengthen-C11.md): "
              "`Drop for CoalesceFuture` unregisters the key before the inner future is destroyed, so a request arriving while that "
              "destructor runs (another thread, or the destructor itself) leads a second inner call while the abandoned one still exists; "
              "shown deterministically by corpus/coalesce/leader_drop_reentrant.ops, reported by c11-drop-overlap; the model specifies the "
              "conforming behaviour (the request joins the dying leader), proposed repair notes/strengthen-C11-proposed-repair.diff. "
              "Parallel callers: the model's unit of atomicity is one Service::call (look-up + registration under one lock) and one poll; that "
              "assumption is not proved, it is probed by the `manual herd` cases — a bounded search over real OS-thread schedules (with a timed "
              "rendezvous inside call() through the key type's Clone/Hash), exact oracles, no tolerance; a clean run is evidence only "
              "(notes/strengthen-C11-w3m2.md). The same for a completion: `manual finish` races arrivals with completions (and, through the "
              "response type's destructor, makes them arrive inside one) — notes/strengthen-C11-w4.md. Wave 5 "
              "(notes/strengthen-coalesce-w5.md): futures destroyed WHILE a panic unwinds (`unwind=1`, generic in world.rs), construction "
              "paths and several services per layer, clones of errors; OPEN FINDING: a panicking Clone of the leader's result leaves the key "
              "registered for ever (service.rs: `registration.key.take()` precedes the clone) — reproduced by "
              "corpus/coalesce/clone_panic_wedges_key.ops with VERIF_C11_CLONE_PANIC=1, the model specifies the conforming behaviour "
              "(`clonePanic`), proposed repair notes/strengthen-coalesce-w5-proposed-repair.diff; the dimension is generated only with that switch.")

SPECS = {
    "C11": {
        "group": "coalesce",
        "module": "TR.Props.C11",
        "gen": gen,
        "corpus_filter": lambda c: (REENTRANT_DROP or not any(o.startswith("manual ondrop") for o in c["ops"]))
                                   and (CLONE_PANIC or not any("clonepanic=1" in o for o in c["ops"])),
        "monitors": [("c11-drop-overlap", mon_drop_overlap), ("c11-simultaneous-arrivals", mon_herd), ("c11-arrival-during-completion", mon_finish), ("c11-one-inflight-per-key", mon_inflight), ("c11-shared-result", mon_share), ("c11-prompt", mon_prompt)],
        "transitions": transitions,
        "nontrivial": nontrivial,
        "all_transitions": ["lead", "lead-again", "leader-ok", "leader-err", "leader-panic", "leader-dropped",
                            "waiter-ok", "waiter-err", "waiter-cancelled", "call-panic", "noop",
                            "dropsvc-first", "dropsvc-idle", "dropsvc-inflight", "waiter-served-after-dropsvc",
                            "waiter-cancelled-after-dropsvc", "refused-after-dropsvc",
                            "arrival-during-leader-drop-joined", "ondrop-second-thread",
                            "herd-run", "herd-gate-none", "herd-gate-clone", "herd-gate-hash", "herd-lookup-exclusive", "herd-several-keys", "herd-colliding-keys",
                            "finish-run", "finish-gate-none", "finish-gate-drop", "finish-completion-exclusive", "finish-coalesced",
                            "via-template", "via-swap", "via-readyclone", "sole-handle-overlap",
                            "leader-panic-unwinding", "leader-panic-caught", "leader-dropped-unwinding", "error-cloned",
                            "ctor-new", "ctor-config", "ctor-confignew", "ctor-service",
                            "service-even-from-layer", "service-odd-from-layer-clone", "other-service-leads-same-key",
                            "refused-readiness-error", "refused-notready", "readiness-failure-while-inflight", "ready-after-pending",
                            "khash", "lead-while-colliding-key-inflight", "finish-while-colliding-key-inflight"]
                           + (["leader-clone-panic"] if CLONE_PANIC else []),
        "canon": canon,
        "model_modules": ["TR.Model.Coalesce", "TR.Lemmas.Coalesce", "TR.Lemmas.CoalesceHandle", "TR.Lemmas.CoalesceHerd", "TR.Lemmas.CoalesceCaller", "TR.Lemmas.CoalesceServices", "TR.Lemmas.CoalesceUnwind", "TR.Lemmas.CoalesceOnce", "TR.Lemmas.CoalesceReady", "TR.Mutants.CoalesceCallPanicWedges"],
        "lean_files": ["TR.Model.Coalesce", "TR.Lemmas.Coalesce", "TR.Lemmas.CoalesceHandle", "TR.Lemmas.CoalesceHerd", "TR.Lemmas.CoalesceCaller", "TR.Lemmas.CoalesceServices", "TR.Lemmas.CoalesceUnwind", "TR.Lemmas.CoalesceOnce", "TR.Lemmas.CoalesceReady"],
        "sizes": (600, 30000),
        "rule": "seeded random op sequences (arrive key=../poll/drop/adv/settle) over 1..3 keys and 1..12 requests, 70% of them on one key, "
                "inner latencies 0..40 ms with ok/err/panic/never, 12% of the arrivals with an inner call() that itself panics, advances biased to completion-1/completion/completion+1, leader and waiter "
                "drops at every point, duplicate arrivals, a tail that finishes or kills the leaders, polls all waiters and starts a fresh call "
                "per key; in 38% of the cases the last service handle is dropped (`manual dropsvc`: before anybody arrives / as soon as a "
                "leader has waiters in flight / at any step / after the tail / at the very end; later arrivals must be refused); 45% of the "
                "leader drops (6% of the others) have a request for the same key arriving while the dropped leader's inner future is being "
                "destroyed (`manual ondrop`, half of them on a second OS thread); about 2% (quick) / 0.6% (thorough) of the cases are "
                "real-thread searches for non-atomic leader election (`manual herd`: 2..16 threads released together call the service for "
                "1..N keys while no inner call can finish, 4..6000 rounds (x4 in the thorough tier), one run at a time on the machine, rendezvous inside call() through the "
                "key type's Clone / Hash or none; oracle: one inner call per key in flight, everybody gets its result); about 1.5% (quick) / "
                "0.4% (thorough) are real-thread searches for a non-atomic completion (`manual finish`: 2..8 threads make 600..8000 requests "
                "each back to back, or 3..20 rounds in which N-1 threads arrive inside one completion through a timed rendezvous in the "
                "response type's destructor; nothing dropped, nothing panics; oracle: every request gets the result of a call for its key "
                "in flight while it was inside call(), never leader_cancelled); the callers reach the service through a clone per request "
                "(50% of the cases always), through the one never-cloned handle (15% always), or through a mix of clone / template / "
                "mem::replace / clone-of-a-readied-handle (`via=`); the layer is built through builder / new / with_config / "
                "CoalesceConfig::new or not at all (`ctor=`, 55% non-default); 40% of the cases use 2..4 services built lazily from the one "
                "layer value or from clones of it (`svc=`), same keys on all of them; 65% of the cases have call futures owned by the "
                "polling frame (`unwind=1` on 30..100% of their arrivals: a panicking poll destroys the future during the unwinding) and "
                "drops caused by a panicking owner (`drop c unwind=1`); in half of the cases 8 or 20% of the arrivals go through a handle whose "
                "inner readiness fails or stays pending (`rdy=<script>`, per handle; more often while a leader has waiters in flight, then a "
                "waiter is polled and the key requested again) and as many through a handle that is pending first; 25% of the callers look at a clone of their result (`eclone=1`); "
                "in half of the cases with several keys (10% of the others) the key type's Hash is coarser than its Eq (header `khash=1|2`: only "
                "key mod m is hashed, distinct keys in flight together collide; `hmod=` likewise for half of the several-key herd runs); "
                "with VERIF_C11_CLONE_PANIC=1 8% of the requests yield a value whose Clone panics (open finding, off by default); "
                "distinct = distinct implementation event log; non-trivial = some waiter resolved, or a leader was dropped or panicked",
        "trusted": ["tokio broadcast / parking_lot Mutex / unwinding semantics as transcribed in TR.Model.Coalesce (sampled by the correspondence check)",
                    "harness: clock_gettime interposition, manual poller, scripted inner service", "python diff/monitors",
                    "parking_lot::Mutex gives mutual exclusion over look-up + registration (the model's atomic `call()` step); probed, not "
                    "proved, by the real-thread search `manual herd`; likewise over inner result + publication + unregistration (the model's "
                    "atomic leader poll): probed by `manual finish`"],
        "assumptions": ["one poll of one call future, and one Service::call, is atomic (single-threaded runtime; the map is behind a mutex): leader "
                        "election = look-up + registration under ONE lock. Every theorem about requests on several threads goes through this "
                        "assumption; the `manual herd` cases search real schedules for an execution that breaks it (sampling, not proof; "
                        "deterministic only for code whose look-up admits several threads at once)",
                        "keys and ids modelled as unbounded Nat",
                        "a request arriving while a dropped leader's inner future is being destroyed is specified as arriving before the drop "
                        "(TR.Coalesce.dropOps, theorem request_during_leader_teardown); the pure model has no such intermediate state"],
        "level_text": "Theorems TR.Props.C11.{one_inflight_per_key, one_inflight_per_key_trace, trace_matches_map, registered_iff_live_leader, "
                      "waiter_no_inner_at_arrival, waiter_no_inner, waiter_gets_leader_result, serial_identifies_leader, leader_drop_closes, "
                      "leader_panic_closes, call_panic_frees_key, leader_gone_fails_fast, dropped_leader_waiter_fails_at_next_poll, "
                      "completed_leader_waiter_resolves, key_free_again, fresh_call_when_free, no_eternal_wait, "
                      "waiter_resolves_once_leader_gone, waiter_always_rearmed, handle_drop_only_stops_arrivals, handle_drop_preserves_outcomes, "
                      "handle_drop_time_irrelevant, handle_drop_unobservable, waiters_outlive_the_handle, request_during_leader_teardown, "
                      "dropOps_spec, simultaneous_arrivals_one_leader, no_cancellation_without_cause, arrival_during_completion_shares_or_leads, "
                      "caller_mode_irrelevant, leader_panic_frees_key_at_once, leader_clone_panic_frees_key_at_once, "
                      "panicked_leader_waiter_fails_at_next_poll, leader_completion_publishes, waiter_receives_leader_value, "
                      "caller_behaviour_irrelevant, unwinding_drop_is_a_drop, readiness_failure_changes_nothing, readiness_failure_leaves_table, "
                      "refused_arrivals_invisible, at_most_one_result, result_unique, "
                      "no_answer_while_pending_or_dropped, delivered_cancelled_exclusive, service_steps_are_independent, "
                      "services_do_not_share, arrive_line_key, distinct_keys_independent, colliding_keys_do_not_share, "
                      "colliding_key_survives_other_keys_end}: for every operation sequence over any key space (all arrival, "
                      "completion, cancellation instants, all poll orders, ok/err/panic/never, panics inside inner.call() as well as in its "
                      "future) at most one inner call per key is in flight in every prefix of the log; a key is registered exactly while a "
                      "leader of it is alive; a request that finds its key registered makes no inner call and resolves only with its own "
                      "leader's serial (ok or err) or, iff that leader was dropped or panicked, with err:leader_cancelled, at its next poll; "
                      "the step that finishes, drops or panics a leader unregisters the key and the next arrival leads a fresh call; in a "
                      "settled state every pending waiter's leader is still alive. Dropping every service handle at any point changes nothing "
                      "but that later arrivals are impossible: the state reached is, field for field, that of the same sequence with its later "
                      "arrivals deleted, so outcomes do not depend on when (or whether) the handle is dropped, and a waiter of a live leader keeps "
                      "waiting. A request arriving while a dropped leader is torn down makes no inner call and fails with leader_cancelled. "
                      "A leader whose poll panics (its inner call, or the Clone of the value it publishes) frees the key in that step and "
                      "its waiters get leader_cancelled at their next poll — whether its future is destroyed during that unwinding or after "
                      "the panic was caught is not a notion of the model (one answer for both). Every request is answered at most once; "
                      "delivered and cancelled exclude each other for one inner call; a completing leader publishes exactly the value its "
                      "waiters then receive. Services built from one layer value are the same model over the key space (service, key): an "
                      "operation on one service leaves every table entry and all traffic of every other service unchanged. "
                      "Distinct keys are independent whatever their hashes (the model's table is keyed by the key; for every hash function h "
                      "and keys a ≠ b with h a = h b: a request for b arriving while a is in flight leads its own call, and the end of a's "
                      "call leaves b registered). "
                      "All unconditional except that the three statements about an arrival assume a handle still exists. Proved by an inductive invariant over "
                      "the model; the model is tied to the real CoalesceLayer by line-for-line agreement of event logs on generated schedules.",
        "level_note": LEVEL_NOTE,
    },
}
